#!/usr/bin/env python3
"""Regenerate MANIFEST.json from the table below (single source of truth for the interface)."""
import json, os

CHECKS = {}  # id -> dict(text=..., note=..., technique=..., design=..., engines=[...])
NOT_YET = {}

def chk(pid, text, note, technique, design, exhaustive=False):
    CHECKS[pid] = dict(text=text, note=note, technique=technique, design=design)

exec(open(os.path.join(os.path.dirname(os.path.abspath(__file__)), "manifest_table.py")).read())

props = [json.loads(l)["id"] for l in open("/verif/properties.jsonl")]
checks = []
for pid in props:
    if pid not in CHECKS:
        continue
    c = CHECKS[pid]
    checks.append({
        "property_id": pid,
        "quick_cmd": f"./check {pid} quick",
        "thorough_cmd": f"./check {pid} thorough",
        "evidence_file": f"evidence/{pid}.json",
        "replay_cmd_template": f"./check {pid} --replay {{path}}",
        "engine": f"engine/checks/src/bin/{pid.lower()}.rs",
        "level_claimed": {"category": "exploration", "text": c["text"], "design_ref": c["design"]},
        "level_note": c["note"],
        "technique": c["technique"],
    })
na = [{"property_id": p, "reason": NOT_YET.get(p, "check not built yet; nothing is claimed for this property")} for p in props if p not in CHECKS]
m = {
    "version": 1,
    "setup_cmd": "./check --setup",
    "hooks": {
        "guard": "incan_verif",
        "enable": "RUSTFLAGS=\"--cfg incan_verif\" (VERIF_HOOKS=1 ./check ...); no hook exists, every observation point is public API or the CLI",
        "baseline_off_cmd": "cd /repo && cargo test --workspace --no-fail-fast --offline",
        "source_commits": [],
        "add_only": True,
    },
    "engines": [
        {"name": "vcore", "path": "engine/vcore", "serves_properties": sorted(CHECKS), "kind_free_text": "shared Rust library: proptest plumbing (seeded batches, manual bounded shrinking), build farm driving the real incan CLI, evidence writer, known-findings registry"},
        {"name": "checks", "path": "engine/checks", "serves_properties": sorted(CHECKS), "kind_free_text": "one property-based-testing binary per property (generators + oracle + replay)"},
    ],
    "checks": checks,
    "not_applicable": na,
    "notes": "All checks are generated-input search against an explicit oracle (proptest generators, exhaustive bounded sweeps, libFuzzer targets in thorough tiers). Exit 0 = held on everything explored (KNOWN-FINDING lines allowed), 1 = VIOLATION line printed, 2 = INCONCLUSIVE (tool trouble/watchdog, never a verdict).",
}
if not na:
    m["not_applicable"] = []
json.dump(m, open("/verif/MANIFEST.json", "w"), indent=1)
print("MANIFEST.json:", len(checks), "checks,", len(na), "not claimed")
