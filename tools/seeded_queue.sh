#!/usr/bin/env bash
# run checks against seeded changes one after another: tools/seeded_queue.sh C13 C01 ...  (logs in work/me/seeded/)
cd /verif; mkdir -p work/me/seeded
for c in "$@"; do
  tools/mutant_run.sh s$c /verif/seeded/$c-1/patch.diff $c quick > work/me/seeded/$c.log 2>&1
  echo "$c $(grep MUTANT-RESULT work/me/seeded/$c.log)" >> work/me/seeded/summary.txt
done
