#!/usr/bin/env bash
# run checks against seeded changes one after another: tools/seeded_queue.sh C13-1 C01-2 ...  (logs in work/me/seeded/)
cd /verif; mkdir -p work/me/seeded
for s in "$@"; do
  case "$s" in *-*) name=$s;; *) name=$s-1;; esac
  c=${name%%-*}
  tools/mutant_run.sh s$name /verif/seeded/$name/patch.diff $c quick > work/me/seeded/$name.log 2>&1
  echo "$name $(grep MUTANT-RESULT work/me/seeded/$name.log)" >> work/me/seeded/summary.txt
done
