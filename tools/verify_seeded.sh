#!/usr/bin/env bash
# Confirm a seeded change independently: demo passes unpatched, fails patched; suite passes patched.
#   tools/verify_seeded.sh <seed-dir-name> [nosuite]      (works in the scratch worktree /var/tmp/rebase/repo)
D=/verif/seeded/$1; W=/var/tmp/rebase/repo; OUT=$D/verified.txt
[ -d $W ] || git -C /repo worktree add -q --detach $W HEAD
cd $W && git reset -q --hard && git checkout -q --detach $(git -C /repo rev-parse HEAD) && git clean -qfd -e target
export CARGO_NET_OFFLINE=true
{
echo "verified against /repo HEAD $(git -C /repo rev-parse --short HEAD) in scratch worktree $W"
cargo build --offline -q > /var/tmp/rebase/build_unpatched.log 2>&1
bash $D/demo/run.sh $W > /var/tmp/rebase/demo_unpatched.log 2>&1; a=$?
echo "demo on unpatched tree: exit $a (expected 0)"
git apply $D/patch.diff || echo "PATCH DOES NOT APPLY"
cargo build --offline -q > /var/tmp/rebase/build_patched.log 2>&1
bash $D/demo/run.sh $W > /var/tmp/rebase/demo_patched.log 2>&1; b=$?
echo "demo on patched tree: exit $b (expected non-zero)"
if [ "${2:-}" != "nosuite" ]; then
  cargo test --workspace --no-fail-fast --offline > /var/tmp/rebase/suite.log 2>&1; s=$?
  echo "suite on patched tree: exit $s; $(grep -c '^test .* ok$' /var/tmp/rebase/suite.log) ok, $(grep -c '^test .* FAILED$' /var/tmp/rebase/suite.log) FAILED"
fi
} > $OUT 2>&1
git reset -q --hard; git clean -qfd -e target
cat $OUT
