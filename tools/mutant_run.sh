#!/usr/bin/env bash
# Run one check against a scratch worktree of /repo with a patch applied (sensitivity testing).
#   tools/mutant_run.sh <name> <patch.diff> <Cxx> [quick|thorough|--replay F]
# Everything lives under /var/tmp/mut-<name> (outside /repo and /verif) and is removed afterwards unless KEEP=1.
# The scratch engine is the committed+working-tree /verif/engine with its path dependencies rewritten to the
# scratch repository, so the check and the incan CLI are both built from the patched sources.
set -u
NAME="$1"; PATCH="$2"; ID="$3"; MODE="${4:-quick}"; REPLAY="${5:-}"
S=/var/tmp/mut-$NAME
BIN=$(echo "$ID" | tr 'A-Z' 'a-z')
cleanup() {
  [ "${KEEP:-0}" = "1" ] && return
  git -C /repo worktree remove --force "$S/repo" >/dev/null 2>&1
  rm -rf "$S"
  git -C /repo worktree prune
}
git -C /repo worktree remove --force "$S/repo" >/dev/null 2>&1; rm -rf "$S"; mkdir -p "$S/verif/work"
git -C /repo worktree add -q --detach "$S/repo" HEAD || { echo "worktree failed"; exit 2; }
if [ "$PATCH" != "-" ]; then
  git -C "$S/repo" apply "$PATCH" || { echo "patch does not apply"; cleanup; exit 2; }
fi
rsync -a --exclude target /verif/engine/ "$S/engine/"
sed -i "s#\"/repo#\"$S/repo#g" "$S/engine/vcore/Cargo.toml" "$S/engine/checks/Cargo.toml"
cp /verif/known-findings.txt "$S/verif/" 2>/dev/null
cp -r /verif/known "$S/verif/known" 2>/dev/null
cp -r /verif/corpus "$S/verif/corpus" 2>/dev/null
export CARGO_NET_OFFLINE=true
# seed the scratch target with the already compiled third-party crates (path crates are rebuilt from the patched tree)
SEED_TGT="${VERIF_ENGINE_TARGET:-/verif/engine/target}"
if [ -d "$SEED_TGT/release" ]; then
  mkdir -p "$S/target/release"
  for d in deps build .fingerprint; do [ -d "$SEED_TGT/release/$d" ] && cp -a "$SEED_TGT/release/$d" "$S/target/release/$d"; done
  # drop artifacts of the path crates so nothing stale can be picked up
  for c in incan incan_core incan_syntax incan_stdlib incan_derive vcore checks; do rm -rf "$S"/target/release/.fingerprint/$c-* "$S"/target/release/deps/lib$c-* "$S"/target/release/deps/$c-*; done
fi
( cd "$S/engine" && CARGO_TARGET_DIR="$S/target" cargo build --release -q -p incan -p checks --bin incan --bin "$BIN" --bin warm 2>&1 | grep -v '^warning' | tail -30; exit "${PIPESTATUS[0]}" ) \
  || { echo "MUTANT-BUILD-FAILED (the patched repository or the engine against it does not compile)"; cleanup; exit 3; }
export VERIF_ROOT="$S/verif" VERIF_REPO="$S/repo" VERIF_INCAN="$S/target/release/incan" VERIF_WORKERS="${VERIF_WORKERS:-6}"
if grep -q "farm::" "$S/engine/checks/src/bin/$BIN.rs"; then
  for k in $(seq 0 $((VERIF_WORKERS-1))); do cp -a /verif/work/tgt0 "$S/verif/work/tgt$k" 2>/dev/null; done
  "$S/target/release/warm" >/dev/null 2>&1 || echo "warning: warm-up failed (runtime crates may not build with this patch)"
fi
case "$MODE" in
  quick|thorough) "$S/target/release/$BIN" --tier "$MODE";;
  --replay) "$S/target/release/$BIN" --replay "$REPLAY";;
esac
rc=$?
echo "MUTANT-RESULT name=$NAME property=$ID exit=$rc"
[ -f "$S/verif/evidence/$ID.json" ] && python3 -c "
import json;e=json.load(open('$S/verif/evidence/$ID.json'));c=e['coverage'];print('evidence: evaluations',c['evaluations'],'nontrivial',c['distinct_nontrivial'],'violations',e.get('violations'))"
cleanup
exit $rc
