chk("C19",
    text="Exhaustive enumeration of all documents up to 5 (quick) / 6 (thorough) symbols over an alphabet hitting every branch "
         "(1-4 byte scalars, LF, CR, space) x all offsets x all positions x all span pairs, plus proptest documents up to 300 "
         "scalars; compared with an independent line/character reference. Exhaustive below the bound, sampled above it.",
    note="Trusts the harness-side reference (count newlines / scalars). Spans are assumed to be on char boundaries or past the end.",
    technique="exhaustive bounded enumeration + proptest random documents against a reference model",
    design="DESIGN.md §2 C19")
