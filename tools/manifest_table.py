D = "DESIGN.md §2 "
chk("C01",
    text="Type-directed generator of well-typed programs (G-prog, proptest choice tape) + directed nested-assignment-target programs + exhaustive operator-nesting matrix and scope matrix + regression corpus of fixed findings; every program is "
         "checked, built and run by the real CLI and compared token-wise with an independent reference interpreter (stdout, exit status, documented error text). "
         "Sampled search with shrinking; constructs hit by open known findings are excluded by construction and counted.",
    note="Trusts the harness interpreter's transcription of the documented semantics; judges only the modelled subset (see DESIGN limits).",
    technique="model-based differential testing: generated programs vs reference interpreter (proptest)", design=D+"C01")
chk("C02",
    text="G-prog programs accepted by `incan --check` must pass `incan build` (code generation + rustc); every repository program with a main must keep building (failing ones are known findings keyed by path); feature x rust:: import templates must yield a manifest cargo accepts; failures keyed by normalised first error.",
    note="Only constructs the generator emits are covered; evidence lists construct tags.",
    technique="generated programs through the real compiler + rustc (proptest), oracle = build succeeds", design=D+"C02")
chk("C03",
    text="context skeleton x rule violation with valid twins: every listed rule x every depth-1 context exhaustively plus random deeper paths; in-process checker + CLI sample.",
    note="Only single-edit violations of the listed rules; located = error span starts inside the smallest enclosing construct.",
    technique="metamorphic twin generation (valid/violating) with proptest, exhaustive at depth 1", design=D+"C03")
chk("C04",
    text="edge-biased operand pairs against an i128 / CPython float_rem reference, core-vs-stdlib parity, panic-text oracle, end-to-end programs through the CLI.",
    note="Reference model cross-checked against CPython in the thorough tier.",
    technique="proptest over operand tuples against a reference model + differential parity", design=D+"C04")
chk("C05",
    text="sequences x optional index/slice/range arguments incl. i64 extremes against a CPython slice/range model, error-text oracle, end-to-end programs.",
    note="Reference model cross-checked against CPython in the thorough tier.",
    technique="proptest against a reference model (PySlice_AdjustIndices / range length)", design=D+"C05")
chk("C06",
    text="const-evaluable expression DAGs: compile-time value/type/diagnostic vs independent evaluation with the runtime helpers; end-to-end const-vs-function prints; cycles.",
    note="Expression language as listed in consts.md.",
    technique="differential testing compile-time vs run-time evaluation (proptest)", design=D+"C06")
chk("C07",
    text="exhaustive enumeration operator x operand kind x exponent kind x binding position (depth 1 quick / 2 thorough): checker verdicts and rustc/run-time agreement.",
    note="Expected kinds transcribed from numeric_semantics.md.",
    technique="exhaustive bounded enumeration against the documented table", design=D+"C07")
chk("C08",
    text="grammar-directed source generator (G-syn) + repository seeds: parse -> format -> parse must give the same span-erased AST.",
    note="canon() erases spans and documented spelling normalisations only.",
    technique="round-trip property over generated syntax trees (proptest)", design=D+"C08")
chk("C09",
    text="fmt(fmt(x)) == fmt(x), check_formatted/format_diff agree, trailing newline / whitespace invariants, CLI --check/--diff read-only.",
    note="Cases whose formatted text does not parse are C08's (counted as blocked).",
    technique="idempotence + invariant properties over generated programs (proptest)", design=D+"C09")
chk("C10",
    text="layout edits (comments, blank lines, CRLF, bracket line breaks, re-indentation) at all positions of base programs must not change the span-erased AST.",
    note="Edits are aimed with real lexer spans outside string tokens.",
    technique="metamorphic testing with exhaustive edit positions + proptest edit scripts", design=D+"C10")
chk("C11",
    text="prefixes, token-level mutations and random scalar splices of seeds: lex/parse/check/format/emit terminate without panic, diagnostics well-formed.",
    note="Nesting bounded at 64; libFuzzer targets in the thorough tier.",
    technique="mutation-based fuzzing with a totality + diagnostic well-formedness oracle", design=D+"C11")
chk("C12",
    text="order-sensitive generated projects compiled K=6 times in fresh processes, directories and environments; byte-for-byte comparison of outputs and diagnostics.",
    note="Hash-order dependence is detected probabilistically (bound reported).",
    technique="differential testing across processes/environments (proptest-generated projects)", design=D+"C12")
chk("C13",
    text="G-prog base programs and text templates (closures, comprehension variables, payload bindings) x consistent renamings per binding position x name class (whole Rust-keyword pool at every position); check/build/stdout/exit must be unchanged.",
    note="Name pool = candidates minus Incan's vocabulary (lexer + registries).",
    technique="metamorphic renaming over generated programs", design=D+"C13")
chk("C14",
    text="generated project trees x import spellings: reference resolver vs CLI collector vs LSP resolver; visibility twins; cycles/missing modules.",
    note="Ambiguous layouts judged on CLI/LSP agreement only.",
    technique="differential + reference-model testing over generated directory layouts (proptest)", design=D+"C14")
chk("C15",
    text="feature-trigger x context programs, generate-only: manifest parsed, used crates scanned from generated Rust, U subset D subset U, pinned versions, unknown crates refused.",
    note="cargo metadata validates manifests; real builds on a sample.",
    technique="generated programs with an invariant oracle over the generated Cargo project", design=D+"C15")
chk("C16",
    text="generated test files (behaviours x markers x flags) with begin/end marker files; model of the documented runner vs reported verdicts, counts, exit status.",
    note="Marker files make 'body ran to completion' observable independently of the runner.",
    technique="model-based testing of the test runner over generated test files (proptest)", design=D+"C16")
chk("C17",
    text="newtype declaration shapes x construction sites x accepted/rejected arguments compiled and run; nominal typing twins through the checker.",
    note="One rejected construction per program (last statement).",
    technique="generated programs vs reference rule (proptest)", design=D+"C17")
chk("C18",
    text="harness-owned scheduling of LspService handler futures: generated histories x schedules, invariant at quiescence on hover/definition/completion/diagnostics.",
    note="Explores the await points that exist in this build.",
    technique="schedule-exploring stateful property test (proptest histories + interleavings)", design=D+"C18")
chk("C19",
    text="Exhaustive enumeration of all documents up to 5 (quick) / 6 (thorough) symbols over an alphabet hitting every branch "
         "(1-4 byte scalars, LF, CR, space) x all offsets x all positions x all span pairs, plus proptest documents up to 300 "
         "scalars; compared with an independent line/character reference. Exhaustive below the bound, sampled above it.",
    note="Trusts the harness-side reference (count newlines / scalars). Spans are assumed to be on char boundaries or past the end.",
    technique="exhaustive bounded enumeration + proptest random documents against a reference model", design=D+"C19")
chk("C20",
    text="generated model/class declarations x values compiled and run: JSON shape + round trip, ==, <, hashing, clone independence vs a structural model.",
    note="Float text not compared; JSON read by a harness-side reader.",
    technique="generated programs vs structural reference model (proptest)", design=D+"C20")
