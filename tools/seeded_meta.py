#!/usr/bin/env python3
"""Fold what was run against each seeded change into its meta.json and write seeded/README.md."""
import json, glob, os, re
rows=[]
notes={
 "C03-1":"missed by the first version of the check (fixed arm shapes); the match-rule family now generates the shape of the remaining arms (duplicate variants, literal/nested sub-patterns, guards, more arms than variants); caught with accepted:match:* signatures",
 "C18-1":"missed by the first version (documents never imported each other); the generator now opens/changes dependency documents and every versioned publish for every URI is judged; caught as diagnostics:wrong-text",
 "C11-1":"missed by the first version; a directed exhaustive 'literal kind x escape introducer x following scalars' leg was added; caught as panic:lex:…strings.rs",
 "C07-1":"missed by the first version (`**` in const position was excluded from every leg because it does not build); const-reference operands are now enumerated in the in-process legs with a const-evaluator-vs-checker phase comparison; caught",
 "C16-1":"missed by the first version; cases with the same test name in two files and re-runs after an edit were added as forced scenarios; caught as verdict:expected-PASSED-reported-FAILED",
 "C01-1":"missed by the first version (no nested assignment targets); the directed lvalue-path generator (field chains, list elements, nested lists) was added; caught as behaviour:wrong-value",
 "C02-1":"missed by the first version (same gap); caught by the lvalue-path generator as rustc:E0614",
 "C13-1":"caught after the RustKeyword class was changed from a rotating sample to a sweep of the whole pool at every position",
 "C12-1":"missed by the first version; projects now carry long const chains and >= 8 of every name-keyed entity; caught as generated-rust:*:content",
 "C03-2":"missed at first (one violation in a minimal context); a preceding-sibling dimension was added; caught as accepted-after-sibling:closure-def:try:in-non-result-fn",
 "C08-2":"missed at first (G-syn never nested 9 levels); depth/size stress classes and non-default format configs were added; caught as reparse:Expected indented block",
 "C09-2":"missed at first (non-parsing formatter output was only counted as blocked_by_C08); now judged unless an open C08 finding explains it; caught as idem:formatted-output-not-parseable",
 "C06-2":"missed at first (injected cycles never were alias-only with an outside tail); cycle-shape generator with hang detection added; caught as hang:const-cycle",
 "C11-2":"missed at first (engine built the compiler crates without overflow checks; no boundary literals); overflow checks enabled for the compiler crates in the engine and an exhaustive numeric-literal leg added; caught as panic:lex:...numbers.rs",
 "C18-2":"missed at first (reopen always used a larger version); reopen now draws same/lower/1/higher versions and 'latest text' is by history order; caught as stale-kept/diagnostics:last-not-latest",
 "C12-2":"missed at first (two invocation styles); the spelling of the entry path / working directory is now a generated dimension with parent-relative imports and decoy modules; caught as generated-files:set",
 "C02-2":"missed at first (G-prog has no async/rust:: imports); feature x rust:: import templates judged by cargo metadata were added; caught as template:async/tokio-from:manifest-invalid",
 "C13-2":"caught by the text-template leg (closures called from nested blocks) added after the first round",
}
for d in sorted(glob.glob('/verif/seeded/*/')):
    name=os.path.basename(d.rstrip('/'))
    prop=name.split('-')[0]
    mp=d+'meta.json'
    m=json.load(open(mp)) if os.path.exists(mp) else {"property":prop}
    log=f'/verif/work/me/seeded/{name}.log'
    if not os.path.exists(log) and name.endswith('-1'):
        log=f'/verif/work/me/seeded/{prop}.log'
    res=None; sigs=[]
    if os.path.exists(log):
        t=open(log,errors='replace').read()
        r=re.search(r'MUTANT-RESULT name=\S+ property=\S+ exit=(\d+)',t)
        if r: res=int(r.group(1))
        sigs=sorted(set(re.findall(r'signature: (\S+)',t)))[:6]
    ver=open(d+'verified.txt').read().strip().split('\n') if os.path.exists(d+'verified.txt') else []
    m['verif']={
      "ran":[f"tools/verify_seeded.sh {name}   (demo unpatched/patched + full suite on the patched tree, scratch worktree)",
             f"tools/mutant_run.sh s{prop} seeded/{name}/patch.diff {prop} quick   (check built from the patched tree in a scratch worktree)"],
      "independent_confirmation":ver,
      "check_exit": res, "check_signatures": sigs,
      "caught": (res==1) if res is not None else None,
      "note": notes.get(name,"")
    }
    json.dump(m,open(mp,'w'),indent=1)
    rows.append((name,prop,m.get('summary','')[:150].replace('\n',' '),m.get('needs_to_manifest','')[:140].replace('\n',' '),res,', '.join(sigs)[:120],notes.get(name,'')))
with open('/verif/seeded/README.md','w') as f:
    f.write("# Seeded breaking changes\n\nEach directory holds `patch.diff` (applies to /repo HEAD), `demo/` (passes on the unpatched tree, fails on the patched tree), `meta.json` (what it breaks, what it needs to manifest, what was run) and `verified.txt` (my own confirmation in a scratch worktree: demo unpatched/patched, full suite on the patched tree). They were written by fresh sub-agents that saw only the property text and a scratch worktree. None is ever applied to /repo outside `tools/mutant_run.sh` / `git apply` + `git checkout`.\n\n| id | needs to manifest | quick check | signatures | history |\n|---|---|---|---|---|\n")
    for name,prop,summ,needs,res,sigs,note in rows:
        verdict={1:"caught (exit 1)",0:"MISSED (exit 0)",None:"not run yet"}.get(res,f"exit {res}")
        f.write(f"| {name} | {needs} | {verdict} | {sigs} | {note} |\n")
print(len(rows),"seeded changes")
