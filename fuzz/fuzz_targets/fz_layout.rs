//! fz_layout (C10): structured input `[n, n x (kind, pos_lo, pos_hi, a, b), base program text]` decoded by
//! `vcore::layout::decode_fuzz_input`. If the base text parses, the script of layout edits is applied step by step and
//! after every step the edited text must lex, parse, and have the base's span-erased syntax tree.
#![no_main]
use libfuzzer_sys::fuzz_target;
use std::sync::OnceLock;
use vcore::layout::{self, Analysis};

struct Cfg {
    allow: Vec<String>,
    tolerate_all: bool,
}
static CFG: OnceLock<Cfg> = OnceLock::new();

fn cfg() -> &'static Cfg {
    CFG.get_or_init(|| {
        vcore::util::install_quiet_panic_hook();
        Cfg {
            allow: std::env::var("VERIF_FUZZ_ALLOW").unwrap_or_default().split(',').filter(|s| !s.is_empty()).map(|s| s.to_string()).collect(),
            tolerate_all: std::env::var("VERIF_FUZZ_TOLERATE_ALL").is_ok(),
        }
    })
}

fuzz_target!(|data: &[u8]| {
    let c = cfg();
    let Some((base, script)) = layout::decode_fuzz_input(data) else { return };
    if base.len() > 6000 || vcore::front::nesting(&base) > vcore::front::MAX_NESTING {
        return;
    }
    let Ok(Ok((_, ast))) = vcore::util::catch(|| layout::lex_parse(&base)) else { return };
    let fp = layout::ast_fingerprint(&ast);
    let mut cur = base;
    for r in &script {
        let Some(a) = Analysis::new(&cur) else { return };
        let e = r.resolve(&a);
        if layout::known_construct(&a, &e, &c.allow).is_some() {
            continue;
        }
        let Some(next) = layout::apply(&a, &e) else { continue };
        if let Err(f) = layout::judge(fp, &next, e.kind()) {
            if c.tolerate_all || c.allow.iter().any(|k| *k == f.key) {
                eprintln!("FUZZ-TOLERATED {}", f.key);
                return;
            }
            eprintln!("FUZZ-VIOLATION {}\n{}\nedit: {:?}", f.key, f.what, e);
            std::process::abort();
        }
        cur = next;
    }
});
