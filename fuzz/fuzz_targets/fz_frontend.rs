//! fz_frontend (C11): bytes -> UTF-8 text (invalid UTF-8 is outside the quantifier: skipped) -> nesting bound ->
//! the same oracle as `checks/src/bin/c11.rs` (`vcore::front::judge`). A failure whose signature is not in
//! VERIF_FUZZ_ALLOW prints `FUZZ-VIOLATION <signature>` and aborts (libFuzzer saves the input as an artifact).
#![no_main]
use libfuzzer_sys::fuzz_target;
use std::sync::atomic::AtomicU8;
use std::sync::OnceLock;

struct Cfg {
    allow: Vec<String>,
    tolerate_all: bool,
}
static CFG: OnceLock<Cfg> = OnceLock::new();

fn cfg() -> &'static Cfg {
    CFG.get_or_init(|| {
        // libfuzzer-sys installs an aborting panic hook; the oracle needs catch_unwind, so replace it
        vcore::front::install_panic_hook_with(false);
        Cfg {
            allow: std::env::var("VERIF_FUZZ_ALLOW").unwrap_or_default().split(',').filter(|s| !s.is_empty()).map(|s| s.to_string()).collect(),
            tolerate_all: std::env::var("VERIF_FUZZ_TOLERATE_ALL").is_ok(),
        }
    })
}

fuzz_target!(|data: &[u8]| {
    let c = cfg();
    let Ok(text) = std::str::from_utf8(data) else { return };
    if vcore::front::nesting(text) > vcore::front::MAX_NESTING {
        return;
    }
    let stage = AtomicU8::new(0);
    let rep = vcore::front::judge(text, &stage);
    for f in &rep.fails {
        // panic signatures are compared up to the `<-frame` suffix (no stack walk in the fuzz build)
        let base = |k: &str| k.split("<-").next().unwrap_or(k).to_string();
        if c.tolerate_all || c.allow.iter().any(|k| base(k) == base(&f.key)) {
            eprintln!("FUZZ-TOLERATED {}", f.key);
            continue;
        }
        eprintln!("FUZZ-VIOLATION {}\n{}", f.key, f.what);
        std::process::abort();
    }
});
