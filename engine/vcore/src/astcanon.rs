//! Canonical, span-free dump of an `incan_syntax` AST and a structural first-difference locator.
//!
//! `canon(program)` = pretty `Debug` text of the AST after (a) the meaning-preserving normalisations below were
//! applied to a copy and (b) all `span` / `target_span` fields were removed from the text. Because the text is the
//! *derived* Debug output, every field of every node takes part in the comparison: nothing (a lost `mut`, a lost type
//! parameter, a changed operator, a dropped `Paren`, a changed decorator argument, an `Int` where a `Float` was)
//! can be hidden by a forgotten visitor arm. A forgotten arm in the normaliser can only cause a *spurious*
//! difference (visible, fixable), never mask one.
//!
//! Normalisations (DESIGN.md C08):
//! * module docstrings: leading/trailing whitespace trimmed (the documented docstring layout);
//! * type spellings that `symbols::resolve_type` / the type checker treat as the same type:
//!   `(A, B)` ≡ `Tuple[A, B]`, `()` ≡ `Unit` ≡ `None`.
//! Everything else is compared exactly; float literals by their shortest round-trip text (bit-equal for finite
//! values, and `Float(1.0)` ≠ `Int(1)`).

use incan_syntax::ast::*;

/// Remove `span: Span { .. }` / `target_span: Span { .. }` fields from compact or pretty Debug text.
pub fn strip_spans(s: &str) -> String {
    let mut out = String::with_capacity(s.len());
    let mut rest = s;
    loop {
        let a = rest.find("span: Span {");
        let Some(mut i) = a else {
            out.push_str(rest);
            break;
        };
        // include a `target_` prefix
        if rest[..i].ends_with("target_") {
            i -= "target_".len();
        }
        out.push_str(&rest[..i]);
        let after = &rest[i..];
        let close = after.find('}').map(|c| c + 1).unwrap_or(after.len());
        let mut tail = &after[close..];
        // swallow the separator that followed the field
        tail = tail.strip_prefix(',').unwrap_or(tail);
        rest = tail;
    }
    out
}

fn norm_type(t: &mut Type) {
    match t {
        Type::Simple(n) => {
            if n == "Unit" {
                *n = "None".to_string();
            }
        }
        Type::Generic(_, args) => {
            for a in args {
                norm_type(&mut a.node);
            }
        }
        Type::Function(ps, r) => {
            for a in ps {
                norm_type(&mut a.node);
            }
            norm_type(&mut r.node);
        }
        Type::Unit => *t = Type::Simple("None".to_string()),
        Type::Tuple(items) => {
            let mut items = std::mem::take(items);
            for a in &mut items {
                norm_type(&mut a.node);
            }
            *t = Type::Generic("Tuple".to_string(), items);
        }
        Type::SelfType => {}
    }
}

fn norm_params(ps: &mut [Spanned<Param>]) {
    for p in ps {
        norm_type(&mut p.node.ty.node);
        if let Some(d) = &mut p.node.default {
            norm_expr(&mut d.node);
        }
    }
}

fn norm_decorators(ds: &mut [Spanned<Decorator>]) {
    for d in ds {
        for a in &mut d.node.args {
            match a {
                DecoratorArg::Positional(e) => norm_expr(&mut e.node),
                DecoratorArg::Named(_, DecoratorArgValue::Expr(e)) => norm_expr(&mut e.node),
                DecoratorArg::Named(_, DecoratorArgValue::Type(t)) => norm_type(&mut t.node),
            }
        }
    }
}

fn norm_methods(ms: &mut [Spanned<MethodDecl>]) {
    for m in ms {
        norm_decorators(&mut m.node.decorators);
        norm_params(&mut m.node.params);
        norm_type(&mut m.node.return_type.node);
        if let Some(b) = &mut m.node.body {
            norm_body(b);
        }
    }
}

fn norm_fields(fs: &mut [Spanned<FieldDecl>]) {
    for f in fs {
        norm_type(&mut f.node.ty.node);
        if let Some(d) = &mut f.node.default {
            norm_expr(&mut d.node);
        }
    }
}

fn norm_body(b: &mut [Spanned<Statement>]) {
    for s in b {
        norm_stmt(&mut s.node);
    }
}

fn norm_stmt(s: &mut Statement) {
    match s {
        Statement::Assignment(a) => {
            if let Some(t) = &mut a.ty {
                norm_type(&mut t.node);
            }
            norm_expr(&mut a.value.node);
        }
        Statement::FieldAssignment(a) => {
            norm_expr(&mut a.object.node);
            norm_expr(&mut a.value.node);
        }
        Statement::IndexAssignment(a) => {
            norm_expr(&mut a.object.node);
            norm_expr(&mut a.index.node);
            norm_expr(&mut a.value.node);
        }
        Statement::Return(Some(e)) | Statement::Expr(e) => norm_expr(&mut e.node),
        Statement::Return(None) | Statement::Pass | Statement::Break | Statement::Continue => {}
        Statement::If(i) => {
            norm_expr(&mut i.condition.node);
            norm_body(&mut i.then_body);
            for (c, b) in &mut i.elif_branches {
                norm_expr(&mut c.node);
                norm_body(b);
            }
            if let Some(b) = &mut i.else_body {
                norm_body(b);
            }
        }
        Statement::While(w) => {
            norm_expr(&mut w.condition.node);
            norm_body(&mut w.body);
        }
        Statement::For(f) => {
            norm_expr(&mut f.iter.node);
            norm_body(&mut f.body);
        }
        Statement::CompoundAssignment(c) => norm_expr(&mut c.value.node),
        Statement::TupleUnpack(t) => norm_expr(&mut t.value.node),
        Statement::TupleAssign(t) => {
            for x in &mut t.targets {
                norm_expr(&mut x.node);
            }
            norm_expr(&mut t.value.node);
        }
        Statement::ChainedAssignment(c) => norm_expr(&mut c.value.node),
    }
}

fn norm_args(args: &mut [CallArg]) {
    for a in args {
        match a {
            CallArg::Positional(e) | CallArg::Named(_, e) => norm_expr(&mut e.node),
        }
    }
}

/// Types occur inside expressions only through closure parameters and the statement bodies of block expressions.
fn norm_expr(e: &mut Expr) {
    match e {
        Expr::Ident(_) | Expr::Literal(_) | Expr::SelfExpr | Expr::Yield(None) => {}
        Expr::Binary(l, _, r) => {
            norm_expr(&mut l.node);
            norm_expr(&mut r.node);
        }
        Expr::Unary(_, x) | Expr::Await(x) | Expr::Try(x) | Expr::Paren(x) | Expr::Field(x, _) | Expr::Yield(Some(x)) => norm_expr(&mut x.node),
        Expr::Call(f, a) => {
            norm_expr(&mut f.node);
            norm_args(a);
        }
        Expr::Index(x, i) => {
            norm_expr(&mut x.node);
            norm_expr(&mut i.node);
        }
        Expr::Slice(x, s) => {
            norm_expr(&mut x.node);
            for p in [&mut s.start, &mut s.end, &mut s.step].into_iter().flatten() {
                norm_expr(&mut p.node);
            }
        }
        Expr::MethodCall(x, _, a) => {
            norm_expr(&mut x.node);
            norm_args(a);
        }
        Expr::Match(subject, arms) => {
            norm_expr(&mut subject.node);
            for a in arms {
                if let Some(g) = &mut a.node.guard {
                    norm_expr(&mut g.node);
                }
                match &mut a.node.body {
                    MatchBody::Expr(e) => norm_expr(&mut e.node),
                    MatchBody::Block(b) => norm_body(b),
                }
            }
        }
        Expr::If(i) => {
            norm_expr(&mut i.condition.node);
            norm_body(&mut i.then_body);
            if let Some(b) = &mut i.else_body {
                norm_body(b);
            }
        }
        Expr::ListComp(c) => {
            norm_expr(&mut c.expr.node);
            norm_expr(&mut c.iter.node);
            if let Some(f) = &mut c.filter {
                norm_expr(&mut f.node);
            }
        }
        Expr::DictComp(c) => {
            norm_expr(&mut c.key.node);
            norm_expr(&mut c.value.node);
            norm_expr(&mut c.iter.node);
            if let Some(f) = &mut c.filter {
                norm_expr(&mut f.node);
            }
        }
        Expr::Closure(ps, body) => {
            norm_params(ps);
            norm_expr(&mut body.node);
        }
        Expr::Tuple(items) | Expr::List(items) | Expr::Set(items) => {
            for x in items {
                norm_expr(&mut x.node);
            }
        }
        Expr::Dict(items) => {
            for (k, v) in items {
                norm_expr(&mut k.node);
                norm_expr(&mut v.node);
            }
        }
        Expr::Constructor(_, a) => norm_args(a),
        Expr::FString(parts) => {
            for p in parts {
                if let FStringPart::Expr(e) = p {
                    norm_expr(&mut e.node);
                }
            }
        }
        Expr::Range { start, end, .. } => {
            norm_expr(&mut start.node);
            norm_expr(&mut end.node);
        }
    }
}

/// Apply the meaning-preserving normalisations in place.
pub fn normalise(p: &mut Program) {
    for d in &mut p.declarations {
        match &mut d.node {
            Declaration::Import(_) => {}
            Declaration::Const(c) => {
                if let Some(t) = &mut c.ty {
                    norm_type(&mut t.node);
                }
                norm_expr(&mut c.value.node);
            }
            Declaration::Model(m) => {
                norm_decorators(&mut m.decorators);
                norm_fields(&mut m.fields);
                norm_methods(&mut m.methods);
            }
            Declaration::Class(c) => {
                norm_decorators(&mut c.decorators);
                norm_fields(&mut c.fields);
                norm_methods(&mut c.methods);
            }
            Declaration::Trait(t) => {
                norm_decorators(&mut t.decorators);
                norm_methods(&mut t.methods);
            }
            Declaration::Newtype(n) => {
                norm_type(&mut n.underlying.node);
                norm_methods(&mut n.methods);
            }
            Declaration::Enum(e) => {
                for v in &mut e.variants {
                    for f in &mut v.node.fields {
                        norm_type(&mut f.node);
                    }
                }
            }
            Declaration::Function(f) => {
                norm_decorators(&mut f.decorators);
                norm_params(&mut f.params);
                norm_type(&mut f.return_type.node);
                norm_body(&mut f.body);
            }
            Declaration::Docstring(s) => *s = s.trim().to_string(),
        }
    }
}

/// Canonical text of a program (one node field per line). Slow (pretty Debug is quadratic in nesting depth): use
/// `canon_compact` for equality and this only to locate a difference.
pub fn canon(p: &Program) -> String {
    let mut q = p.clone();
    normalise(&mut q);
    strip_spans(&format!("{q:#?}"))
}

/// Canonical single-line text; `canon_compact(a) == canon_compact(b)` iff `canon(a) == canon(b)`.
pub fn canon_compact(p: &Program) -> String {
    let mut q = p.clone();
    normalise(&mut q);
    strip_spans(&format!("{q:?}"))
}

/// Raw (un-normalised) span-free text; `canon` minus the normalisations. Used to measure how often they matter.
pub fn raw_dump(p: &Program) -> String {
    strip_spans(&format!("{p:#?}"))
}

#[derive(Clone, Debug)]
pub struct Diff {
    /// node path of the first differing line, e.g. `Function.FunctionDecl.params.Param.is_mut`
    pub path: String,
    pub left: String,
    pub right: String,
}

impl Diff {
    /// Root-cause shaped signature: path shape + how the leaf changed, with literal payloads masked.
    pub fn signature(&self) -> String {
        format!("diff:{}:{}->{}", self.path, mask(&self.left), mask(&self.right))
    }
}

/// Mask identifiers' / literals' payloads so that signatures do not depend on the instance.
pub fn mask(s: &str) -> String {
    let mut out = String::new();
    let mut chars = s.chars().peekable();
    while let Some(c) = chars.next() {
        if c == '"' {
            // skip to the closing quote
            let mut prev = c;
            for d in chars.by_ref() {
                if d == '"' && prev != '\\' {
                    break;
                }
                prev = if prev == '\\' && d == '\\' { ' ' } else { d };
            }
            out.push('S');
        } else if c.is_ascii_digit() {
            while chars.peek().is_some_and(|d| d.is_ascii_digit() || *d == '.' || *d == 'e' || *d == '-' || *d == '+') {
                chars.next();
            }
            out.push('N');
        } else if !c.is_whitespace() {
            out.push(c);
        }
    }
    out.trim_end_matches(',').to_string()
}

fn label(line: &str) -> Option<String> {
    let t = line.trim().trim_end_matches(',');
    let t = t.trim_end_matches(['{', '(', '[']).trim();
    if t.is_empty() || t.starts_with(['}', ')', ']']) {
        return None;
    }
    // `field: Variant` -> keep both; plain leaf values (`true`, `"x"`, `3`) keep the field name only
    let mut parts = Vec::new();
    for piece in t.split(": ") {
        let p = piece.trim();
        let ident: String = p.chars().take_while(|c| c.is_alphanumeric() || *c == '_').collect();
        if ident.is_empty() || ident.chars().next().is_some_and(|c| c.is_ascii_digit()) {
            break;
        }
        if matches!(ident.as_str(), "Spanned" | "node" | "Some" | "Box" | "true" | "false" | "None") {
            if ident == "None" || ident == "true" || ident == "false" {
                break;
            }
            continue;
        }
        parts.push(ident);
        if p.len() != parts.last().map(|s| s.len()).unwrap_or(0) {
            break;
        }
    }
    if parts.is_empty() {
        None
    } else {
        Some(parts.join("."))
    }
}

/// First structural difference between two canonical texts.
pub fn first_diff(a: &str, b: &str) -> Option<Diff> {
    if a == b {
        return None;
    }
    let la: Vec<&str> = a.lines().collect();
    let lb: Vec<&str> = b.lines().collect();
    let mut i = 0;
    while i < la.len() && i < lb.len() && la[i] == lb[i] {
        i += 1;
    }
    // path = labels of the enclosing open lines (by indentation) + this line
    let indent = |l: &str| l.len() - l.trim_start().len();
    let at = la.get(i).or_else(|| lb.get(i)).copied().unwrap_or("");
    let mut stack: Vec<(usize, String)> = Vec::new();
    for l in la.iter().take(i) {
        let ind = indent(l);
        while stack.last().is_some_and(|(d, _)| *d >= ind) {
            stack.pop();
        }
        if l.trim_end().ends_with(['{', '(', '[']) {
            if let Some(lab) = label(l) {
                stack.push((ind, lab));
            } else {
                stack.push((ind, String::new()));
            }
        }
    }
    let ind = indent(at);
    while stack.last().is_some_and(|(d, _)| *d >= ind) {
        stack.pop();
    }
    let mut path: Vec<String> = stack.into_iter().map(|(_, l)| l).filter(|l| !l.is_empty()).collect();
    // the differing line's own field name (not its value)
    let own = at.trim();
    if let Some((field, _)) = own.split_once(": ") {
        if field.chars().all(|c| c.is_alphanumeric() || c == '_') {
            path.push(field.to_string());
        }
    }
    let keep = path.len().saturating_sub(5);
    Some(Diff {
        path: path[keep..].join("."),
        left: la.get(i).map(|s| s.trim().to_string()).unwrap_or_else(|| "<end>".into()),
        right: lb.get(i).map(|s| s.trim().to_string()).unwrap_or_else(|| "<end>".into()),
    })
}

/// First structural difference between two *compact* canonical texts (`canon_compact`), in linear time: walks the
/// common prefix once, tracking the enclosing `Name {` / `Name(` / `[` frames and the current field of each.
pub fn first_diff_compact(a: &str, b: &str) -> Option<Diff> {
    if a == b {
        return None;
    }
    let (ab, bb) = (a.as_bytes(), b.as_bytes());
    let mut n = 0;
    while n < ab.len() && n < bb.len() && ab[n] == bb[n] {
        n += 1;
    }
    while !a.is_char_boundary(n) || !b.is_char_boundary(n) {
        n -= 1;
    }
    // frames: (name, current field)
    let mut stack: Vec<(String, String)> = Vec::new();
    let mut last_ident = String::new();
    let mut tok_start = 0usize;
    let mut i = 0usize;
    let mut in_str = false;
    while i < n {
        let c = ab[i];
        if in_str {
            if c == b'\\' {
                i += 2;
                continue;
            }
            if c == b'"' {
                in_str = false;
            }
            i += 1;
            continue;
        }
        match c {
            b'"' => {
                in_str = true;
                tok_start = i;
                last_ident.clear();
            }
            b'{' | b'(' => {
                stack.push((std::mem::take(&mut last_ident), String::new()));
                tok_start = i + 1;
            }
            b'[' => {
                stack.push(("[".to_string(), String::new()));
                last_ident.clear();
                tok_start = i + 1;
            }
            b'}' | b')' | b']' => {
                stack.pop();
                last_ident.clear();
                tok_start = i + 1;
            }
            b':' => {
                if let Some(top) = stack.last_mut() {
                    if !last_ident.is_empty() {
                        top.1 = std::mem::take(&mut last_ident);
                    }
                }
                tok_start = i + 1;
            }
            b',' | b' ' => {
                if c == b',' {
                    last_ident.clear();
                }
                tok_start = i + 1;
            }
            _ => {
                if last_ident.is_empty() || tok_start == i {
                    last_ident.clear();
                    tok_start = i;
                }
                last_ident.push(c as char);
            }
        }
        i += 1;
    }
    let snippet = |s: &str| -> String {
        let start = tok_start.min(s.len());
        let mut start = start;
        while !s.is_char_boundary(start) {
            start -= 1;
        }
        let rest = &s[start..];
        let mut out = String::new();
        let mut instr = false;
        let mut prev = ' ';
        for (k, ch) in rest.char_indices() {
            if !instr && k + start >= n && matches!(ch, ',' | ')' | '}' | ']') && !out.is_empty() {
                break;
            }
            if ch == '"' && prev != '\\' {
                instr = !instr;
            }
            out.push(ch);
            if !instr && k + start >= n && matches!(ch, '(' | '{' | '[') {
                break;
            }
            if out.len() > 60 {
                break;
            }
            prev = ch;
        }
        if out.is_empty() {
            "<end>".to_string()
        } else {
            out.trim().to_string()
        }
    };
    let mut path: Vec<String> = Vec::new();
    for (name, field) in &stack {
        if !matches!(name.as_str(), "" | "[" | "Spanned" | "Some") {
            path.push(name.clone());
        }
        if !matches!(field.as_str(), "" | "node") {
            path.push(field.clone());
        }
    }
    // the innermost three elements name the node and field; more context would split one root cause into many keys
    let keep = path.len().saturating_sub(3);
    Some(Diff { path: path[keep..].join("."), left: snippet(a), right: snippet(b) })
}

#[cfg(test)]
mod tests {
    use super::*;

    #[test]
    fn compact_diff() {
        let a = "Param { is_mut: true, name: \"a\" }";
        let b = "Param { is_mut: false, name: \"a\" }";
        let d = first_diff_compact(a, b).unwrap();
        assert_eq!(d.path, "Param.is_mut");
        assert_eq!((d.left.as_str(), d.right.as_str()), ("true", "false"));
    }

    #[test]
    fn strip() {
        let s = "Spanned { node: Ident(\"x\"), span: Span { start: 1, end: 2 } }";
        assert_eq!(strip_spans(s), "Spanned { node: Ident(\"x\"),  }");
    }
}
