//! Shared driver for the G-prog based checks (C01, C02, C13): generate -> interpret -> build & run on the farm
//! -> classify.

use crate::farm::{CmdOut, Farm, FarmOut, Mode, Project};
use crate::gprog::*;
use serde_json::{json, Value};

#[derive(Clone, Debug)]
pub struct Case {
    pub tape: Vec<u32>,
    pub program: Program,
    pub source: String,
    pub expected: Result<Expected, Discard>,
}

#[derive(Clone, Debug)]
pub enum Verdict {
    /// interpreter left the documented domain (overflow, non-finite, fuel): not judged
    Discard(String),
    /// `incan --check` rejected the program: outside C01/C02's quantifier (statistics only)
    Rejected(String),
    /// accepted by the checker but `incan build` failed: (signature, detail) — C02's business
    BuildFailed(String, String),
    /// built and ran, observable behaviour differs from the reference: (kind, detail) — C01's business
    Mismatch(String, String),
    /// tool trouble
    Infra(String),
    Pass,
}

/// Every fifth tape (by its first word) drives the directed nested-assignment-target generator.
pub fn make_case(tape: Vec<u32>, cfg: &Cfg, names: &Names) -> Case {
    let directed = tape.first().map(|w| w % 5 == 4).unwrap_or(false);
    let program = if directed { crate::gprog_gen::generate_lvalue(&tape[1..], cfg) } else { crate::gprog_gen::generate(&tape, cfg) };
    let source = render(&program, names);
    let expected = expected(&program);
    Case { tape, program, source, expected }
}

pub fn strip_ansi(s: &str) -> String {
    let mut out = String::new();
    let mut it = s.chars();
    while let Some(c) = it.next() {
        if c == '\x1b' {
            for d in it.by_ref() {
                if d == 'm' {
                    break;
                }
            }
        } else {
            out.push(c);
        }
    }
    out
}

/// Normalised signature of a failed `incan build`.
pub fn build_signature(build: &CmdOut) -> (String, String) {
    let text = strip_ansi(&format!("{}\n{}", build.stdout, build.stderr));
    if let Some(i) = text.find("Code generation error:") {
        let line = text[i..].lines().next().unwrap_or("").to_string();
        return (format!("codegen:{}", normalise_msg(&line["Code generation error:".len()..])), crate::util::truncate(&text[i..], 1500));
    }
    if let Some(i) = text.find("Error generating project:") {
        let line = text[i..].lines().next().unwrap_or("").to_string();
        return (format!("project:{}", normalise_msg(&line)), crate::util::truncate(&text[i..], 1500));
    }
    // first rustc error
    let mut lines = text.lines();
    while let Some(l) = lines.next() {
        if l.starts_with("error") && !l.starts_with("error: could not compile") && !l.starts_with("error: aborting") {
            let code = l.strip_prefix("error[").and_then(|r| r.split(']').next()).unwrap_or("E----").to_string();
            let msg = l.splitn(2, ": ").nth(1).unwrap_or(l);
            // context: a few following lines
            let ctx: Vec<&str> = lines.by_ref().take(12).collect();
            return (format!("rustc:{}:{}", code, normalise_msg(msg)), format!("{l}\n{}", ctx.join("\n")));
        }
    }
    ("build:unknown".to_string(), crate::util::truncate(&text, 1500))
}

/// Replace identifiers in backticks / quotes and numbers so that the signature names the kind of error only.
pub fn normalise_msg(m: &str) -> String {
    let mut out = String::new();
    let mut in_tick = false;
    for c in m.trim().chars() {
        if c == '`' {
            in_tick = !in_tick;
            if in_tick {
                out.push_str("`_`");
            }
            continue;
        }
        if in_tick {
            continue;
        }
        if c.is_ascii_digit() {
            if !out.ends_with('#') {
                out.push('#');
            }
        } else {
            out.push(c);
        }
    }
    crate::util::truncate(&out, 90).replace(' ', "_")
}

pub fn tok_matches(t: &Tok, line: &str) -> bool {
    match t {
        Tok::Int(i) => line == i.to_string(),
        Tok::Float(f) => line.trim().parse::<f64>().map(|g| g == *f || (g.is_nan() && f.is_nan())).unwrap_or(false),
        Tok::Bool(b) => line.eq_ignore_ascii_case(if *b { "true" } else { "false" }),
        Tok::Str(s) => line == s,
    }
}

/// Compare a run with the reference. Returns None when they agree.
pub fn compare_run(exp: &Expected, run: &CmdOut) -> Option<(String, String)> {
    if run.timed_out {
        return Some(("nontermination".into(), "the program did not stop within the watchdog although the reference terminates".into()));
    }
    let mut lines: Vec<&str> = run.stdout.split('\n').collect();
    if lines.last() == Some(&"") {
        lines.pop();
    }
    for (i, t) in exp.lines.iter().enumerate() {
        match lines.get(i) {
            None => {
                return Some(("missing-output".into(), format!("line {i}: expected {t:?}, program printed only {} lines; stderr: {}", lines.len(), crate::util::truncate(&run.stderr, 300))));
            }
            Some(l) => {
                if !tok_matches(t, l) {
                    return Some(("wrong-value".into(), format!("line {i}: expected {t:?}, got {l:?}")));
                }
            }
        }
    }
    if lines.len() > exp.lines.len() {
        return Some(("extra-output".into(), format!("expected {} lines, got {} (first extra: {:?})", exp.lines.len(), lines.len(), lines[exp.lines.len()])));
    }
    match &exp.end {
        End::Normal => {
            if run.status != Some(0) {
                return Some(("unexpected-stop".into(), format!("expected normal exit, got status {:?} signal {:?}; stderr: {}", run.status, run.signal, crate::util::truncate(&run.stderr, 400))));
            }
        }
        End::Panic(kind, msg) => {
            if run.status == Some(0) {
                return Some(("missing-error".into(), format!("expected the program to stop with {msg:?}, it exited normally")));
            }
            if !run.stderr.contains(msg.as_str()) {
                return Some((format!("wrong-error:{kind}"), format!("expected stderr to contain {msg:?}; stderr: {}", crate::util::truncate(&run.stderr, 400))));
            }
        }
    }
    None
}

pub fn classify(case_expected: &Result<Expected, Discard>, out: &FarmOut) -> Verdict {
    if let Some(e) = &out.infra_error {
        return Verdict::Infra(e.clone());
    }
    if let Some(c) = &out.check {
        if !c.ok() {
            let text = strip_ansi(&format!("{}{}", c.stdout, c.stderr));
            if c.status == Some(1) {
                return Verdict::Rejected(crate::util::truncate(&text, 600));
            }
            return Verdict::Infra(format!("incan --check ended with {:?}/{:?}: {}", c.status, c.signal, crate::util::truncate(&text, 300)));
        }
    }
    match &out.build {
        None => return Verdict::Infra("no build result".into()),
        Some(b) if !b.ok() => {
            let (sig, detail) = build_signature(b);
            return Verdict::BuildFailed(sig, detail);
        }
        _ => {}
    }
    let exp = match case_expected {
        Ok(e) => e,
        Err(d) => return Verdict::Discard(format!("{d:?}")),
    };
    match &out.run {
        None => Verdict::Infra("no run result".into()),
        Some(r) => match compare_run(exp, r) {
            None => Verdict::Pass,
            Some((k, d)) => Verdict::Mismatch(k, d),
        },
    }
}

pub fn run_cases(farm: &Farm, cases: &[Case], name: &str) -> Vec<(FarmOut, Verdict)> {
    let projects: Vec<Project> = cases.iter().map(|c| Project::single(name, &c.source)).collect();
    let outs = farm.run_many(&projects, Mode::CheckBuildRun);
    outs.into_iter()
        .zip(cases.iter())
        .map(|(o, c)| {
            let v = classify(&c.expected, &o);
            (o, v)
        })
        .collect()
}

pub fn tok_json(t: &Tok) -> Value {
    match t {
        Tok::Int(i) => json!({"int": i}),
        Tok::Float(f) => json!({"float": f}),
        Tok::Bool(b) => json!({"bool": b}),
        Tok::Str(s) => json!({"str": s}),
    }
}

pub fn tok_from_json(v: &Value) -> Option<Tok> {
    if let Some(i) = v.get("int").and_then(|x| x.as_i64()) {
        return Some(Tok::Int(i));
    }
    if let Some(f) = v.get("float").and_then(|x| x.as_f64()) {
        return Some(Tok::Float(f));
    }
    if let Some(b) = v.get("bool").and_then(|x| x.as_bool()) {
        return Some(Tok::Bool(b));
    }
    v.get("str").and_then(|x| x.as_str()).map(|s| Tok::Str(s.to_string()))
}

/// Replay file: plain JSON with the source text and the reference behaviour — judged without the generator.
pub fn replay_json(source: &str, exp: Option<&Expected>, note: &str) -> String {
    let (lines, end) = match exp {
        Some(e) => (
            e.lines.iter().map(tok_json).collect::<Vec<_>>(),
            match &e.end {
                End::Normal => json!("normal"),
                End::Panic(_, m) => json!({"error": m}),
            },
        ),
        None => (vec![], json!("unknown")),
    };
    serde_json::to_string_pretty(&json!({"source": source, "expected_lines": lines, "expected_end": end, "note": note})).unwrap()
}

pub struct Replay {
    pub source: String,
    pub expected: Option<Expected>,
}

pub fn parse_replay(text: &str) -> Option<Replay> {
    let v: Value = serde_json::from_str(text).ok()?;
    let source = v["source"].as_str()?.to_string();
    let lines: Vec<Tok> = v["expected_lines"].as_array().map(|a| a.iter().filter_map(tok_from_json).collect()).unwrap_or_default();
    let end = match &v["expected_end"] {
        Value::String(s) if s == "normal" => Some(End::Normal),
        Value::Object(o) => o.get("error").and_then(|m| m.as_str()).map(|m| {
            let kind: &'static str = if m.starts_with("ZeroDivisionError") {
                "ZeroDivisionError"
            } else if m.starts_with("IndexError") {
                "IndexError"
            } else if m.starts_with("KeyError") {
                "KeyError"
            } else {
                "ValueError"
            };
            End::Panic(kind, m.to_string())
        }),
        _ => None,
    };
    Some(Replay { source, expected: end.map(|end| Expected { lines, end }) })
}

/// Apply the gprog switches named by open known findings (`key=gprog:<switch>`), for the given properties.
pub fn switches_from_known(props: &[&str]) -> (Switches, Vec<(String, String)>) {
    let mut sw = Switches::default();
    let mut off = Vec::new();
    for p in props {
        let k = crate::known::Known::load(p);
        for e in &k.open {
            if let Some(name) = e.key.strip_prefix("gprog:") {
                if sw.set(name, false) {
                    off.push((p.to_string(), name.to_string()));
                }
            }
        }
    }
    (sw, off)
}
