//! Readers for a *generated* Cargo project (used by C12/C15):
//!
//! * `parse_manifest` — a small hand-written reader for the fixed manifest shape `incan build` writes
//!   (`[package]`, `[workspace]`, `[dependencies]`, `[[bin]]`/`[lib]`; values are strings, string arrays and
//!   one-level inline tables). Anything outside that shape is an `Err` (the caller then lets `cargo metadata`
//!   arbitrate; it is never silently accepted).
//! * `scan_crate_roots` — a token-level scanner over generated Rust that collects the *definite* external crate
//!   roots a crate refers to: roots of `use` trees, `extern crate`, and lower-case path roots `x::..` in code and
//!   attributes that are not local (declared `mod`, names brought in by `use`), not `std/core/alloc`, not
//!   `crate/self/super/Self`, not primitive types. Comments, string/char literals and lifetimes are skipped.

use std::collections::{BTreeMap, BTreeSet};

#[derive(Clone, Debug, Default, PartialEq)]
pub struct Dep {
    pub name: String,
    /// raw right-hand side text
    pub raw: String,
    pub version: Option<String>,
    pub path: Option<String>,
    pub features: Vec<String>,
    /// other keys of an inline table (git, branch, optional, default-features, ...)
    pub other_keys: Vec<String>,
}

#[derive(Clone, Debug, Default, PartialEq)]
pub struct Target {
    pub name: Option<String>,
    pub path: Option<String>,
}

#[derive(Clone, Debug, Default, PartialEq)]
pub struct Manifest {
    pub package: BTreeMap<String, String>,
    pub has_workspace: bool,
    pub deps: Vec<Dep>,
    pub bins: Vec<Target>,
    pub lib: Option<Target>,
}

impl Manifest {
    pub fn dep_names(&self) -> BTreeSet<String> {
        self.deps.iter().map(|d| d.name.clone()).collect()
    }
}

#[derive(Clone, Debug, PartialEq)]
enum Val {
    Str(String),
    Arr(Vec<String>),
    Table(Vec<(String, Val)>),
    Bool(bool),
}

struct P<'a> {
    s: &'a [u8],
    i: usize,
}

impl<'a> P<'a> {
    fn ws(&mut self) {
        while self.i < self.s.len() && (self.s[self.i] == b' ' || self.s[self.i] == b'\t') {
            self.i += 1;
        }
    }
    fn peek(&self) -> Option<u8> {
        self.s.get(self.i).copied()
    }
    fn eat(&mut self, c: u8) -> bool {
        if self.peek() == Some(c) {
            self.i += 1;
            true
        } else {
            false
        }
    }
    fn string(&mut self) -> Result<String, String> {
        if !self.eat(b'"') {
            return Err(format!("expected string at byte {}", self.i));
        }
        let mut out = Vec::new();
        loop {
            match self.peek() {
                None => return Err("unterminated string".into()),
                Some(b'"') => {
                    self.i += 1;
                    break;
                }
                Some(b'\\') => {
                    self.i += 1;
                    match self.peek() {
                        Some(b'"') => out.push(b'"'),
                        Some(b'\\') => out.push(b'\\'),
                        Some(b'n') => out.push(b'\n'),
                        Some(b't') => out.push(b'\t'),
                        other => return Err(format!("unsupported escape {:?}", other.map(|c| c as char))),
                    }
                    self.i += 1;
                }
                Some(c) => {
                    out.push(c);
                    self.i += 1;
                }
            }
        }
        String::from_utf8(out).map_err(|_| "invalid utf-8 in string".to_string())
    }
    fn key(&mut self) -> Result<String, String> {
        self.ws();
        if self.peek() == Some(b'"') {
            return self.string();
        }
        let st = self.i;
        while self.i < self.s.len() && (self.s[self.i].is_ascii_alphanumeric() || self.s[self.i] == b'_' || self.s[self.i] == b'-') {
            self.i += 1;
        }
        if st == self.i {
            return Err(format!("expected key at byte {st}"));
        }
        Ok(String::from_utf8_lossy(&self.s[st..self.i]).to_string())
    }
    fn value(&mut self) -> Result<Val, String> {
        self.ws();
        match self.peek() {
            Some(b'"') => Ok(Val::Str(self.string()?)),
            Some(b'[') => {
                self.i += 1;
                let mut items = Vec::new();
                loop {
                    self.ws();
                    if self.eat(b']') {
                        break;
                    }
                    items.push(self.string()?);
                    self.ws();
                    if self.eat(b',') {
                        continue;
                    }
                    self.ws();
                    if self.eat(b']') {
                        break;
                    }
                    return Err("expected , or ] in array".into());
                }
                Ok(Val::Arr(items))
            }
            Some(b'{') => {
                self.i += 1;
                let mut kv = Vec::new();
                loop {
                    self.ws();
                    if self.eat(b'}') {
                        break;
                    }
                    let k = self.key()?;
                    self.ws();
                    if !self.eat(b'=') {
                        return Err("expected = in inline table".into());
                    }
                    let v = self.value()?;
                    if matches!(v, Val::Table(_)) {
                        return Err("nested inline table".into());
                    }
                    kv.push((k, v));
                    self.ws();
                    if self.eat(b',') {
                        continue;
                    }
                    self.ws();
                    if self.eat(b'}') {
                        break;
                    }
                    return Err("expected , or } in inline table".into());
                }
                Ok(Val::Table(kv))
            }
            Some(b't') if self.s[self.i..].starts_with(b"true") => {
                self.i += 4;
                Ok(Val::Bool(true))
            }
            Some(b'f') if self.s[self.i..].starts_with(b"false") => {
                self.i += 5;
                Ok(Val::Bool(false))
            }
            other => Err(format!("unsupported value starting with {:?}", other.map(|c| c as char))),
        }
    }
    fn end_of_line(&mut self) -> Result<(), String> {
        self.ws();
        match self.peek() {
            None => Ok(()),
            Some(b'#') => Ok(()),
            Some(c) => Err(format!("trailing text {:?}", c as char)),
        }
    }
}

/// Parse the manifest shape written by the Incan project generator.
pub fn parse_manifest(text: &str) -> Result<Manifest, String> {
    let mut m = Manifest::default();
    #[derive(PartialEq, Clone, Copy)]
    enum Sec {
        None,
        Package,
        Workspace,
        Deps,
        Bin,
        Lib,
    }
    let mut sec = Sec::None;
    let mut seen_sections: BTreeSet<&'static str> = BTreeSet::new();
    for (ln, line) in text.lines().enumerate() {
        let t = line.trim();
        if t.is_empty() || t.starts_with('#') {
            continue;
        }
        let err = |e: String| format!("line {}: {} ({:?})", ln + 1, e, line);
        if t.starts_with("[[") {
            if t != "[[bin]]" {
                return Err(err("unsupported array of tables".into()));
            }
            m.bins.push(Target::default());
            sec = Sec::Bin;
            continue;
        }
        if t.starts_with('[') {
            let (s, name) = match t {
                "[package]" => (Sec::Package, "package"),
                "[workspace]" => (Sec::Workspace, "workspace"),
                "[dependencies]" => (Sec::Deps, "dependencies"),
                "[lib]" => (Sec::Lib, "lib"),
                _ => return Err(err("unsupported section".into())),
            };
            if !seen_sections.insert(name) {
                return Err(err("duplicate section".into()));
            }
            if s == Sec::Workspace {
                m.has_workspace = true;
            }
            if s == Sec::Lib {
                m.lib = Some(Target::default());
            }
            sec = s;
            continue;
        }
        let mut p = P { s: t.as_bytes(), i: 0 };
        let k = p.key().map_err(&err)?;
        p.ws();
        if !p.eat(b'=') {
            return Err(err("expected =".into()));
        }
        let v = p.value().map_err(&err)?;
        p.end_of_line().map_err(&err)?;
        match sec {
            Sec::None => return Err(err("key outside a section".into())),
            Sec::Workspace => return Err(err("unexpected key in [workspace]".into())),
            Sec::Package => match v {
                Val::Str(s) => {
                    if m.package.insert(k.clone(), s).is_some() {
                        return Err(err(format!("duplicate key {k}")));
                    }
                }
                _ => return Err(err("non-string package value".into())),
            },
            Sec::Bin | Sec::Lib => {
                let tgt = if sec == Sec::Bin { m.bins.last_mut().unwrap() } else { m.lib.as_mut().unwrap() };
                let Val::Str(s) = v else { return Err(err("non-string target value".into())) };
                match k.as_str() {
                    "name" if tgt.name.is_none() => tgt.name = Some(s),
                    "path" if tgt.path.is_none() => tgt.path = Some(s),
                    _ => return Err(err(format!("unexpected/duplicate target key {k}"))),
                }
            }
            Sec::Deps => {
                if m.deps.iter().any(|d| d.name == k) {
                    return Err(err(format!("duplicate dependency {k}")));
                }
                let raw = t[t.find('=').unwrap() + 1..].trim().to_string();
                let mut d = Dep { name: k, raw, ..Dep::default() };
                match v {
                    Val::Str(s) => d.version = Some(s),
                    Val::Table(kv) => {
                        for (kk, vv) in kv {
                            match (kk.as_str(), vv) {
                                ("version", Val::Str(s)) => d.version = Some(s),
                                ("path", Val::Str(s)) => d.path = Some(s),
                                ("features", Val::Arr(a)) => d.features = a,
                                (other, _) => d.other_keys.push(other.to_string()),
                            }
                        }
                    }
                    _ => return Err(err("unsupported dependency value".into())),
                }
                m.deps.push(d);
            }
        }
    }
    Ok(m)
}

// ---------------------------------------------------------------------------------------------------------
// Rust token scanner
// ---------------------------------------------------------------------------------------------------------

#[derive(Clone, Debug, PartialEq)]
enum Tok {
    Ident(String),
    /// `::`
    PathSep,
    Punct(char),
}

fn lex_rust(src: &str) -> Vec<Tok> {
    let b: Vec<char> = src.chars().collect();
    let mut i = 0;
    let mut out = Vec::new();
    let n = b.len();
    while i < n {
        let c = b[i];
        if c.is_whitespace() {
            i += 1;
            continue;
        }
        // comments
        if c == '/' && i + 1 < n && b[i + 1] == '/' {
            while i < n && b[i] != '\n' {
                i += 1;
            }
            continue;
        }
        if c == '/' && i + 1 < n && b[i + 1] == '*' {
            let mut depth = 1;
            i += 2;
            while i < n && depth > 0 {
                if b[i] == '/' && i + 1 < n && b[i + 1] == '*' {
                    depth += 1;
                    i += 2;
                } else if b[i] == '*' && i + 1 < n && b[i + 1] == '/' {
                    depth -= 1;
                    i += 2;
                } else {
                    i += 1;
                }
            }
            continue;
        }
        // raw strings r"..", r#".."#, br#".."#
        let raw_start = |j: usize| -> Option<(usize, usize)> {
            // returns (index after opening quote, hashes)
            let mut k = j;
            if k < n && b[k] == 'b' {
                k += 1;
            }
            if k < n && b[k] == 'r' {
                k += 1;
                let mut h = 0;
                while k < n && b[k] == '#' {
                    h += 1;
                    k += 1;
                }
                if k < n && b[k] == '"' {
                    return Some((k + 1, h));
                }
            }
            None
        };
        if c == 'r' || c == 'b' {
            if let Some((mut k, h)) = raw_start(i) {
                'outer: while k < n {
                    if b[k] == '"' {
                        let mut cnt = 0;
                        while cnt < h && k + 1 + cnt < n && b[k + 1 + cnt] == '#' {
                            cnt += 1;
                        }
                        if cnt == h {
                            k += 1 + h;
                            break 'outer;
                        }
                    }
                    k += 1;
                }
                i = k;
                out.push(Tok::Punct('"'));
                continue;
            }
        }
        // strings (incl. b"..")
        if c == '"' || (c == 'b' && i + 1 < n && b[i + 1] == '"') {
            i += if c == 'b' { 2 } else { 1 };
            while i < n {
                if b[i] == '\\' {
                    i += 2;
                } else if b[i] == '"' {
                    i += 1;
                    break;
                } else {
                    i += 1;
                }
            }
            out.push(Tok::Punct('"'));
            continue;
        }
        // char literal or lifetime
        if c == '\'' {
            // lifetime: 'ident not followed by '
            if i + 1 < n && (b[i + 1].is_alphabetic() || b[i + 1] == '_') {
                let mut k = i + 1;
                while k < n && (b[k].is_alphanumeric() || b[k] == '_') {
                    k += 1;
                }
                if k < n && b[k] == '\'' {
                    // char literal like 'a'
                    i = k + 1;
                } else {
                    i = k; // lifetime
                }
                out.push(Tok::Punct('\''));
                continue;
            }
            // other char literal
            i += 1;
            while i < n {
                if b[i] == '\\' {
                    i += 2;
                } else if b[i] == '\'' {
                    i += 1;
                    break;
                } else {
                    i += 1;
                }
            }
            out.push(Tok::Punct('\''));
            continue;
        }
        if c.is_alphabetic() || c == '_' {
            let st = i;
            while i < n && (b[i].is_alphanumeric() || b[i] == '_') {
                i += 1;
            }
            let mut id: String = b[st..i].iter().collect();
            // raw identifier r#name
            if id == "r" && i + 1 < n && b[i] == '#' && (b[i + 1].is_alphabetic() || b[i + 1] == '_') {
                let st2 = i + 1;
                i += 1;
                while i < n && (b[i].is_alphanumeric() || b[i] == '_') {
                    i += 1;
                }
                id = b[st2..i].iter().collect();
            }
            out.push(Tok::Ident(id));
            continue;
        }
        if c.is_ascii_digit() {
            // number literal incl. suffixes, 1.0f64, 0x.., 1_000, 1e-3 (the sign is left as punctuation)
            while i < n && (b[i].is_alphanumeric() || b[i] == '_' || (b[i] == '.' && i + 1 < n && b[i + 1].is_ascii_digit())) {
                i += 1;
            }
            out.push(Tok::Punct('0'));
            continue;
        }
        if c == ':' && i + 1 < n && b[i + 1] == ':' {
            out.push(Tok::PathSep);
            i += 2;
            continue;
        }
        out.push(Tok::Punct(c));
        i += 1;
    }
    out
}

const NOT_CRATES: &[&str] = &[
    "std", "core", "alloc", "crate", "self", "super", "Self", "i8", "i16", "i32", "i64", "i128", "isize", "u8", "u16",
    "u32", "u64", "u128", "usize", "f32", "f64", "str", "char", "bool",
    // tool attribute namespaces (`#[allow(clippy::..)]`, `#[rustfmt::skip]`)
    "clippy", "rustfmt", "rustdoc", "miri", "diagnostic",
];

#[derive(Clone, Debug, Default)]
pub struct CrateScan {
    /// external crate roots referred to -> first place seen ("use", "path", "extern crate") with a short context
    pub roots: BTreeMap<String, String>,
    /// names declared by `mod x` in this file
    pub local_mods: BTreeSet<String>,
    /// names introduced by `use` (last segments / aliases)
    pub use_names: BTreeSet<String>,
    pub has_glob_use: bool,
}

/// Parse one `use` tree starting at token index `i` (after `use`). Records the root and introduced names.
fn parse_use(toks: &[Tok], mut i: usize, roots: &mut Vec<String>, names: &mut BTreeSet<String>, glob: &mut bool) -> usize {
    // optional leading ::
    if toks.get(i) == Some(&Tok::PathSep) {
        i += 1;
    }
    // root
    match toks.get(i) {
        Some(Tok::Ident(r)) => roots.push(r.clone()),
        Some(Tok::Punct('{')) => {
            // `use {a::b, c::d};` — each member has its own root
            let mut depth = 0usize;
            let mut expect_root = true;
            while let Some(t) = toks.get(i) {
                match t {
                    Tok::Punct('{') => {
                        depth += 1;
                        expect_root = depth == 1;
                    }
                    Tok::Punct('}') => {
                        depth -= 1;
                        if depth == 0 {
                            i += 1;
                            break;
                        }
                    }
                    Tok::Punct(',') => expect_root = depth == 1,
                    Tok::Ident(id) => {
                        if expect_root {
                            roots.push(id.clone());
                            expect_root = false;
                        }
                        let next_is_sep = toks.get(i + 1) == Some(&Tok::PathSep);
                        if !next_is_sep && id != "as" {
                            names.insert(id.clone());
                        }
                    }
                    Tok::Punct('*') => *glob = true,
                    _ => {}
                }
                i += 1;
            }
            // to the ;
            while let Some(t) = toks.get(i) {
                i += 1;
                if *t == Tok::Punct(';') {
                    break;
                }
            }
            return i;
        }
        _ => {}
    }
    // rest of the tree up to ';' — collect introduced names (idents not followed by ::, `as` aliases)
    let mut depth = 0usize;
    while let Some(t) = toks.get(i) {
        match t {
            Tok::Punct(';') if depth == 0 => {
                i += 1;
                break;
            }
            Tok::Punct('{') => depth += 1,
            Tok::Punct('}') => depth = depth.saturating_sub(1),
            Tok::Punct('*') => *glob = true,
            Tok::Ident(id) => {
                let next_is_sep = toks.get(i + 1) == Some(&Tok::PathSep);
                let next_is_as = matches!(toks.get(i + 1), Some(Tok::Ident(a)) if a == "as");
                if id == "as" {
                    // alias follows
                } else if !next_is_sep && !next_is_as {
                    names.insert(id.clone());
                }
            }
            _ => {}
        }
        i += 1;
    }
    i
}

/// Scan one Rust source file.
pub fn scan_file(src: &str) -> CrateScan {
    let toks = lex_rust(src);
    let mut scan = CrateScan::default();
    let mut use_roots: Vec<String> = Vec::new();
    let mut path_roots: Vec<(String, String)> = Vec::new();
    let mut i = 0;
    while i < toks.len() {
        match &toks[i] {
            Tok::Ident(id) if id == "use" => {
                // `use` is a keyword: always a use declaration
                let before = use_roots.len();
                i = parse_use(&toks, i + 1, &mut use_roots, &mut scan.use_names, &mut scan.has_glob_use);
                let _ = before;
                continue;
            }
            Tok::Ident(id) if id == "extern" => {
                if let (Some(Tok::Ident(c)), Some(Tok::Ident(name))) = (toks.get(i + 1), toks.get(i + 2)) {
                    if c == "crate" {
                        scan.roots.entry(name.clone()).or_insert_with(|| "extern crate".to_string());
                        i += 3;
                        continue;
                    }
                }
            }
            Tok::Ident(id) if id == "mod" => {
                if let Some(Tok::Ident(name)) = toks.get(i + 1) {
                    scan.local_mods.insert(name.clone());
                    i += 2;
                    continue;
                }
            }
            Tok::Ident(id) => {
                // path root: ident followed by `::`, not preceded by `::` or `.`
                let prev = if i > 0 { Some(&toks[i - 1]) } else { None };
                let next = toks.get(i + 1);
                let preceded = matches!(prev, Some(Tok::PathSep)) || matches!(prev, Some(Tok::Punct('.')));
                if next == Some(&Tok::PathSep) && !preceded {
                    // `x::<T>` turbofish on a local function is still a path root only if followed by an ident
                    if matches!(toks.get(i + 2), Some(Tok::Ident(_))) || matches!(toks.get(i + 2), Some(Tok::Punct('{'))) {
                        let ctx: Vec<String> = toks[i..(i + 6).min(toks.len())]
                            .iter()
                            .map(|t| match t {
                                Tok::Ident(s) => s.clone(),
                                Tok::PathSep => "::".to_string(),
                                Tok::Punct(c) => c.to_string(),
                            })
                            .collect();
                        path_roots.push((id.clone(), ctx.concat()));
                    }
                }
            }
            _ => {}
        }
        i += 1;
    }
    for r in use_roots {
        if NOT_CRATES.contains(&r.as_str()) {
            continue;
        }
        // `use Kind::*` (a local enum) and `use mpsc::Sender` after `use tokio::sync::mpsc` are not crate roots
        if !r.chars().next().is_some_and(|c| c.is_ascii_lowercase() || c == '_') || scan.use_names.contains(&r) {
            continue;
        }
        scan.roots.entry(r.clone()).or_insert_with(|| format!("use {r}::.."));
    }
    for (r, ctx) in path_roots {
        if NOT_CRATES.contains(&r.as_str()) {
            continue;
        }
        if !r.chars().next().is_some_and(|c| c.is_ascii_lowercase() || c == '_') {
            continue; // types, enums, traits, generic parameters
        }
        if scan.use_names.contains(&r) {
            continue; // module/function brought into scope by a `use`
        }
        scan.roots.entry(r).or_insert_with(|| format!("path {ctx}"));
    }
    scan
}

/// Scan all files of a generated crate: `(relative path, content)` pairs; returns external crate -> where.
/// Local modules are the union of `mod` declarations of all files and of the file/directory names under `src/`.
pub fn scan_crate_roots(files: &[(String, String)]) -> BTreeMap<String, String> {
    let mut local: BTreeSet<String> = BTreeSet::new();
    let mut scans = Vec::new();
    for (rel, content) in files {
        if !rel.ends_with(".rs") {
            continue;
        }
        if let Some(stripped) = rel.strip_prefix("src/") {
            for seg in stripped.split('/') {
                let seg = seg.strip_suffix(".rs").unwrap_or(seg);
                if seg != "main" && seg != "lib" && seg != "mod" {
                    local.insert(seg.to_string());
                }
            }
        }
        let s = scan_file(content);
        local.extend(s.local_mods.iter().cloned());
        scans.push((rel.clone(), s));
    }
    let mut out = BTreeMap::new();
    for (rel, s) in scans {
        for (root, how) in s.roots {
            if local.contains(&root) {
                continue;
            }
            out.entry(root).or_insert_with(|| format!("{rel}: {how}"));
        }
    }
    out
}

#[cfg(test)]
mod tests {
    use super::*;

    #[test]
    fn manifest_shape() {
        let t = "[package]\nname = \"a_1\"\nversion = \"0.1.0\"\nedition = \"2021\"\n\n# c\n[workspace]\n\n[dependencies]\nincan_stdlib = { path = \"/r/x\", features = [\"web\", \"json\"] }\nserde_json = \"1.0\"\nx = \"*\"\n\n[[bin]]\nname = \"a_1\"\npath = \"src/main.rs\"\n";
        let m = parse_manifest(t).unwrap();
        assert_eq!(m.package["name"], "a_1");
        assert_eq!(m.deps.len(), 3);
        assert_eq!(m.deps[0].path.as_deref(), Some("/r/x"));
        assert_eq!(m.deps[0].features, vec!["web", "json"]);
        assert_eq!(m.deps[2].version.as_deref(), Some("*"));
        assert_eq!(m.bins[0].name.as_deref(), Some("a_1"));
    }

    #[test]
    fn roots() {
        let src = r#"
            // tokio::x in a comment
            #![allow(unused)]
            mod db;
            use incan_stdlib::prelude::*;
            use tokio::sync::{mpsc, Mutex};
            use serde_json as json;
            use crate::db::models::User;
            #[derive(serde::Serialize, Debug)]
            struct A { x: std::collections::HashMap<String, i64> }
            fn f<'a>(s: &'a str) -> String {
                let c = 'x'; let s2 = "axum::Router";
                let v = json::to_string(&1).unwrap();
                mpsc::channel::<i64>(1);
                db::models::f();
                i64::MAX; Color::Red; String::from("a");
                regex::Regex::new(r"a::b").unwrap();
                x.iter().map(|y| y).collect::<Vec<_>>();
                v
            }
        "#;
        let s = scan_crate_roots(&[("src/main.rs".to_string(), src.to_string())]);
        let names: Vec<&str> = s.keys().map(|k| k.as_str()).collect();
        assert_eq!(names, vec!["incan_stdlib", "regex", "serde", "serde_json", "tokio"]);
    }
}
