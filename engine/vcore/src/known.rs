//! known-findings.txt registry. Format, one entry per line:
//!
//!   open: property=C01 key=<signature> replay=known/C01/<file> <what fails>
//!   fixed: property=C05 <commit> <what failed>
//!
//! The file is committed and never written at run time. `open` entries: the check replays the canonical
//! input, prints KNOWN-FINDING if it still fails that way, and its generators avoid the construct.
//! `fixed` entries suppress nothing.

use std::path::PathBuf;

#[derive(Clone, Debug)]
pub struct KnownEntry {
    pub prop: String,
    pub key: String,
    pub replay: PathBuf,
    pub text: String,
}

#[derive(Clone, Debug, Default)]
pub struct Known {
    pub open: Vec<KnownEntry>,
}

impl Known {
    pub fn load(prop: &str) -> Known {
        let path = crate::verif_root().join("known-findings.txt");
        let text = std::fs::read_to_string(path).unwrap_or_default();
        let mut open = Vec::new();
        for line in text.lines() {
            let line = line.trim();
            let Some(rest) = line.strip_prefix("open:") else { continue };
            let mut p = String::new();
            let mut key = String::new();
            let mut replay = String::new();
            let mut words = Vec::new();
            for w in rest.split_whitespace() {
                if let Some(v) = w.strip_prefix("property=") {
                    if p.is_empty() {
                        p = v.to_string();
                        continue;
                    }
                }
                if let Some(v) = w.strip_prefix("key=") {
                    if key.is_empty() {
                        key = v.to_string();
                        continue;
                    }
                }
                if let Some(v) = w.strip_prefix("replay=") {
                    if replay.is_empty() {
                        replay = v.to_string();
                        continue;
                    }
                }
                words.push(w);
            }
            if p == prop {
                open.push(KnownEntry {
                    prop: p,
                    key,
                    replay: crate::verif_root().join(replay),
                    text: words.join(" "),
                });
            }
        }
        Known { open }
    }

    pub fn has(&self, key: &str) -> bool {
        self.open.iter().any(|e| e.key == key)
    }
    pub fn get(&self, key: &str) -> Option<&KnownEntry> {
        self.open.iter().find(|e| e.key == key)
    }
}
