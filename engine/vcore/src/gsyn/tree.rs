//! Harness-side surface tree of G-syn. It mirrors `incan_syntax::ast` but additionally records the *spelling*
//! choices the parser erases (`def`/`fn`, `case`/`=>`, quote style, `pass`/`...`, import path style, ...), so the
//! renderer can exercise every concrete form. proptest shrinks values of these types.

#[derive(Clone, Debug)]
pub struct GProgram {
    pub layout: Layout,
    pub decls: Vec<GDecl>,
}

#[derive(Clone, Copy, Debug, PartialEq, Eq)]
pub enum Indent {
    Two,
    Four,
    Tab,
}

#[derive(Clone, Debug)]
pub struct Layout {
    pub indent: Indent,
    /// blank lines between top-level declarations (0..=3)
    pub blank_lines: u8,
    /// sprinkle `# comment` lines / end-of-line comments
    pub comments: bool,
    /// number of `\n` at the end of the file (0..=2)
    pub final_newlines: u8,
    pub leading_blank: bool,
}

impl Layout {
    pub fn canonical() -> Layout {
        Layout { indent: Indent::Four, blank_lines: 2, comments: false, final_newlines: 1, leading_blank: false }
    }
}

#[derive(Clone, Debug)]
pub enum GDecl {
    Import(GImport),
    Const { is_pub: bool, name: String, ty: Option<GType>, value: GExpr },
    Model(GClassLike),
    Class(GClassLike),
    Trait(GTrait),
    Newtype(GNewtype),
    Enum(GEnum),
    Function(GFunc),
    Docstring(GStr),
}

#[derive(Clone, Debug)]
pub struct GPath {
    /// 0 plain, 1 `..` dots, 2 `super` keyword, 3 `crate`
    pub style: u8,
    pub levels: u8,
    /// separator between segments: false `::`, true `.`
    pub dot_sep: bool,
    pub segments: Vec<String>,
}

#[derive(Clone, Debug)]
pub enum GImport {
    Module { path: GPath, alias: Option<String> },
    From { path: GPath, items: Vec<(String, Option<String>)> },
    Python { pkg: GStr, alias: Option<String> },
    RustCrate { krate: String, path: Vec<String>, alias: Option<String> },
    RustFrom { krate: String, path: Vec<String>, items: Vec<(String, Option<String>)> },
    /// bare `import` (the parser accepts an empty path)
    Empty,
}

#[derive(Clone, Debug)]
pub struct GDecorator {
    pub name: String,
    /// None: `@d`; Some(vec![]): `@d()`
    pub args: Option<Vec<GDecArg>>,
}

#[derive(Clone, Debug)]
pub enum GDecArg {
    Pos(GExpr),
    NamedExpr(String, GExpr),
    NamedType(String, GType),
}

#[derive(Clone, Debug)]
pub struct GClassLike {
    pub decorators: Vec<GDecorator>,
    pub is_pub: bool,
    pub name: String,
    pub type_params: Vec<String>,
    /// classes only
    pub extends: Option<String>,
    pub traits: Vec<String>,
    pub fields: Vec<GField>,
    pub methods: Vec<GMethod>,
}

#[derive(Clone, Debug)]
pub struct GTrait {
    pub decorators: Vec<GDecorator>,
    pub is_pub: bool,
    pub name: String,
    pub type_params: Vec<String>,
    /// empty => `pass`
    pub methods: Vec<GMethod>,
}

#[derive(Clone, Debug)]
pub struct GNewtype {
    /// 0 `type X = newtype T`, 1 `newtype X = T`, 2 `type X = T`
    pub spelling: u8,
    pub is_pub: bool,
    pub name: String,
    pub underlying: GType,
    pub methods: Vec<GMethod>,
}

#[derive(Clone, Debug)]
pub struct GEnum {
    pub is_pub: bool,
    pub name: String,
    pub type_params: Vec<String>,
    pub variants: Vec<(String, Vec<GType>)>,
}

#[derive(Clone, Debug)]
pub struct GFunc {
    pub decorators: Vec<GDecorator>,
    pub is_pub: bool,
    pub is_async: bool,
    pub fn_alias: bool,
    pub name: String,
    pub type_params: Vec<String>,
    pub params: Vec<GParam>,
    pub ret: GType,
    pub body: Vec<GStmt>,
}

#[derive(Clone, Debug)]
pub struct GMethod {
    pub decorators: Vec<GDecorator>,
    pub is_async: bool,
    pub fn_alias: bool,
    pub name: String,
    /// 0 none, 1 `self`, 2 `mut self`
    pub receiver: u8,
    pub params: Vec<GParam>,
    pub ret: GType,
    pub body: GMethodBody,
}

#[derive(Clone, Debug)]
pub enum GMethodBody {
    AbstractNewline,
    AbstractEllipsis,
    Block(Vec<GStmt>),
}

#[derive(Clone, Debug)]
pub struct GParam {
    pub is_mut: bool,
    pub name: String,
    pub ty: GType,
    pub default: Option<GExpr>,
}

#[derive(Clone, Debug)]
pub struct GField {
    pub is_pub: bool,
    pub name: String,
    pub ty: GType,
    pub default: Option<GExpr>,
}

#[derive(Clone, Debug)]
pub enum GType {
    Simple(String),
    /// the keyword `None` in type position
    NoneKw,
    /// `()`
    Unit,
    Generic(String, Vec<GType>),
    /// `(A, B)`; one element renders as `(A,)`
    Tuple(Vec<GType>),
    Func(Vec<GType>, Box<GType>),
    SelfTy,
    /// `(T)` — no AST node
    Paren(Box<GType>),
}

#[derive(Clone, Copy, Debug, PartialEq, Eq)]
pub enum COp {
    Add,
    Sub,
    Mul,
    Div,
    FloorDiv,
    Mod,
}

#[derive(Clone, Debug)]
pub enum GStmt {
    /// binding: 0 inferred, 1 `let`, 2 `mut`
    Assign { binding: u8, name: String, ty: Option<GType>, value: GTail },
    FieldAssign { obj: GExpr, field: String, op: Option<COp>, value: GExpr },
    IndexAssign { obj: GExpr, index: GExpr, op: Option<COp>, value: GExpr },
    Return(Option<GTail>),
    If { cond: GExpr, then: Vec<GStmt>, elifs: Vec<(GExpr, Vec<GStmt>)>, els: Option<Vec<GStmt>> },
    While { cond: GExpr, body: Vec<GStmt> },
    For { var: String, iter: GExpr, body: Vec<GStmt> },
    /// expression statement (tail is never `IfExpr` here: that would be an `if` statement)
    Expr(GTail),
    /// true => `...`
    Pass(bool),
    Break,
    Continue,
    Compound { name: String, op: COp, value: GExpr },
    TupleUnpack { binding: u8, names: Vec<String>, value: GExpr },
    /// first target is never a bare identifier
    TupleAssign { targets: Vec<GExpr>, value: GExpr },
    Chained { binding: u8, targets: Vec<String>, value: GExpr },
}

/// An expression in a position where a block-structured expression (`match`, `if`) may appear: bracket depth 0
/// and last on its line.
#[derive(Clone, Debug)]
pub enum GTail {
    E(GExpr),
    Match(Box<GMatch>),
    IfExpr(Box<GIfExpr>),
}

#[derive(Clone, Debug)]
pub struct GMatch {
    pub subject: GExpr,
    pub arms: Vec<GArm>,
}

#[derive(Clone, Debug)]
pub struct GArm {
    pub pat: GPat,
    pub form: ArmForm,
}

#[derive(Clone, Debug)]
pub enum ArmForm {
    CaseBlock { guard: Option<GExpr>, body: Vec<GStmt> },
    CaseInline { guard: Option<GExpr>, stmt: GInline },
    ArrowBlock(Vec<GStmt>),
    ArrowInline(GInline),
}

#[derive(Clone, Debug)]
pub enum GInline {
    Return(Option<GTail>),
    Pass(bool),
    Expr(GTail),
}

#[derive(Clone, Debug)]
pub struct GIfExpr {
    pub cond: GExpr,
    pub then: Vec<GStmt>,
    pub els: Option<Vec<GStmt>>,
}

#[derive(Clone, Copy, Debug, PartialEq, Eq)]
pub enum BinOp {
    Add,
    Sub,
    Mul,
    Div,
    FloorDiv,
    Mod,
    Pow,
    Eq,
    NotEq,
    Lt,
    Gt,
    LtEq,
    GtEq,
    And,
    Or,
    In,
    NotIn,
    Is,
}

#[derive(Clone, Debug)]
pub enum GArg {
    Pos(GExpr),
    Named(String, GExpr),
}

#[derive(Clone, Debug)]
pub enum GExpr {
    Ident(String),
    Lit(GLit),
    SelfE,
    Binary(Box<GExpr>, BinOp, Box<GExpr>),
    Neg(Box<GExpr>),
    Not(Box<GExpr>),
    Call(Box<GExpr>, Vec<GArg>, BrLayout),
    Index(Box<GExpr>, Box<GExpr>),
    /// start, end, step, trailing second colon when step is absent
    Slice(Box<GExpr>, Option<Box<GExpr>>, Option<Box<GExpr>>, Option<Box<GExpr>>, bool),
    Field(Box<GExpr>, String),
    TupleIndex(Box<GExpr>, u8),
    MethodCall(Box<GExpr>, String, Vec<GArg>, BrLayout),
    Await(Box<GExpr>),
    Try(Box<GExpr>),
    ListComp { elem: Box<GExpr>, var: String, iter: Box<GExpr>, filter: Option<Box<GExpr>> },
    DictComp { key: Box<GExpr>, value: Box<GExpr>, var: String, iter: Box<GExpr>, filter: Option<Box<GExpr>> },
    Closure(Vec<String>, Box<GExpr>),
    Tuple(Vec<GExpr>, BrLayout),
    List(Vec<GExpr>, BrLayout),
    Dict(Vec<(GExpr, GExpr)>, BrLayout),
    Set(Vec<GExpr>, BrLayout),
    Paren(Box<GExpr>),
    FStr(GFStr),
    Yield(Option<Box<GExpr>>),
    Range(Box<GExpr>, Box<GExpr>, bool),
}

/// Layout of a bracketed list: trailing comma, one element per line.
#[derive(Clone, Copy, Debug, Default)]
pub struct BrLayout {
    pub trailing_comma: bool,
    pub multiline: bool,
}

#[derive(Clone, Debug)]
pub enum GLit {
    Int { v: u64, underscores: bool },
    /// source text of the literal and whether its value is integral (by construction)
    Float { text: String, integral: bool },
    Str(GStr),
    Bytes(GBytes),
    /// value, capitalised alias (`True`/`False`)
    Bool(bool, bool),
    None,
}

#[derive(Clone, Copy, Debug, PartialEq, Eq)]
pub enum Quote {
    D,
    S,
    TD,
    TS,
}

#[derive(Clone, Debug)]
pub struct GStr {
    pub quote: Quote,
    pub pieces: Vec<SPiece>,
}

#[derive(Clone, Debug)]
pub enum SPiece {
    /// characters that need no escaping in any string form (no quotes, backslashes, braces, newlines)
    Text(String),
    /// `\n`, `\t`, `\r`, `\\` (the char is n, t, r or \)
    Esc(char),
    /// the delimiter's quote character, escaped with a backslash
    QuoteSame,
    /// the other quote character, raw
    QuoteOther,
    /// unknown escape, kept by the lexer as backslash + char
    Unknown(char),
    /// raw newline (rendered only in triple-quoted strings; `\n` escape otherwise)
    Newline,
    /// `{` or `}` (plain in ordinary strings)
    Brace(char),
}

#[derive(Clone, Debug)]
pub struct GBytes {
    pub single: bool,
    pub pieces: Vec<BPiece>,
}

#[derive(Clone, Debug)]
pub enum BPiece {
    Text(String),
    /// n, t, r, 0
    Esc(char),
    Backslash,
    QuoteSame,
    QuoteOther,
    Hex(u8),
    Unknown(char),
}

#[derive(Clone, Debug)]
pub struct GFStr {
    pub single: bool,
    pub parts: Vec<FPart>,
}

#[derive(Clone, Debug)]
pub enum FPart {
    Text(String),
    Esc(char),
    /// `{{` / `}}`
    Brace(char),
    QuoteSame,
    QuoteOther,
    Expr(FExpr),
}

/// Expressions allowed inside `{}` of an f-string (no braces, quotes of the delimiter kind or newlines).
#[derive(Clone, Debug)]
pub enum FExpr {
    Ident(String),
    Field(String, String),
    Call(String, Vec<String>),
    Method(String, String),
    Add(String, u8),
    Index(String, u8),
    Key(String, String),
    SelfField(String),
}

#[derive(Clone, Debug)]
pub enum GPat {
    Wild,
    Bind(String),
    Lit(GLit),
    /// unqualified constructor pattern `Name(args)` (args may be empty: `Name()`)
    Ctor(String, Vec<GPat>),
    /// `Type.Variant` / `Type.Variant(args)`
    Qual(String, String, Option<Vec<GPat>>),
    Tuple(Vec<GPat>),
}

impl BinOp {
    /// (own level, min level of left operand, min level of right operand) on the parser's precedence ladder:
    /// 1 or, 2 and, 3 not, 4 comparison, 5 range, 6 additive, 7 multiplicative, 8 power, 9 unary, 10 postfix, 11 atom
    pub fn levels(self) -> (u8, u8, u8) {
        use BinOp::*;
        match self {
            Or => (1, 1, 2),
            And => (2, 2, 3),
            Eq | NotEq | Lt | Gt | LtEq | GtEq | In | NotIn | Is => (4, 4, 5),
            Add | Sub => (6, 6, 7),
            Mul | Div | FloorDiv | Mod => (7, 7, 8),
            Pow => (8, 9, 8),
        }
    }
    pub fn text(self) -> &'static str {
        use BinOp::*;
        match self {
            Add => "+",
            Sub => "-",
            Mul => "*",
            Div => "/",
            FloorDiv => "//",
            Mod => "%",
            Pow => "**",
            Eq => "==",
            NotEq => "!=",
            Lt => "<",
            Gt => ">",
            LtEq => "<=",
            GtEq => ">=",
            And => "and",
            Or => "or",
            In => "in",
            NotIn => "not in",
            Is => "is",
        }
    }
}

impl COp {
    pub fn text(self) -> &'static str {
        match self {
            COp::Add => "+=",
            COp::Sub => "-=",
            COp::Mul => "*=",
            COp::Div => "/=",
            COp::FloorDiv => "//=",
            COp::Mod => "%=",
        }
    }
    /// level of the binary operator the parser desugars `target op= rhs` into
    pub fn level(self) -> u8 {
        match self {
            COp::Add | COp::Sub => 6,
            _ => 7,
        }
    }
}

impl GExpr {
    /// precedence level of the rendered text (0 = greedy forms that swallow everything to their right)
    pub fn level(&self) -> u8 {
        match self {
            GExpr::Closure(..) | GExpr::Yield(..) => 0,
            GExpr::Binary(_, op, _) => op.levels().0,
            GExpr::Not(_) => 3,
            GExpr::Range(..) => 5,
            GExpr::Neg(_) | GExpr::Await(_) => 9,
            GExpr::Call(..)
            | GExpr::Index(..)
            | GExpr::Slice(..)
            | GExpr::Field(..)
            | GExpr::TupleIndex(..)
            | GExpr::MethodCall(..)
            | GExpr::Try(_) => 10,
            _ => 11,
        }
    }
}
