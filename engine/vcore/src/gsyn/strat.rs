//! proptest strategies over the harness tree. Everything is built by construction (no rejection); feature switches
//! remove alternatives (weight 0 -> alternative dropped) or sanitise values in a `prop_map`.

use super::tree::*;
use super::GsynConfig;
use proptest::collection::vec;
use proptest::prelude::*;
use proptest::sample::select;
use proptest::strategy::Union;
use std::fmt::Debug;

pub(super) type BS<T> = BoxedStrategy<T>;

pub(super) fn pick<T: Debug + 'static>(opts: Vec<(u32, BS<T>)>) -> BS<T> {
    let v: Vec<(u32, BS<T>)> = opts.into_iter().filter(|(w, _)| *w > 0).collect();
    Union::new_weighted(v).boxed()
}

pub(super) fn sel(names: &'static [&'static str]) -> BS<String> {
    select(names).prop_map(|s| s.to_string()).boxed()
}

pub(super) fn rx(pattern: &str) -> BS<String> {
    proptest::string::string_regex(pattern).expect("valid regex").boxed()
}

pub(super) fn prob(p: f64) -> BS<bool> {
    proptest::bool::weighted(p).boxed()
}

pub(super) fn gated(on: bool, p: f64) -> BS<bool> {
    if on {
        prob(p)
    } else {
        Just(false).boxed()
    }
}

pub(super) fn opt<T: Debug + Clone + 'static>(s: BS<T>, p: f64) -> BS<Option<T>> {
    proptest::option::weighted(p, s).boxed()
}

const VALUE_NAMES: &[&str] = &[
    "x", "y", "z", "a", "b", "f", "n", "i", "item", "acc", "total", "data", "foo", "bar_baz", "_tmp", "x1", "value2", "_", "r", "e1",
];
pub(super) const FUNC_NAMES: &[&str] = &["main", "run", "helper", "compute", "f", "get_value", "test_it", "new", "_private", "to_str"];
pub(super) const TYPE_NAMES: &[&str] = &["Foo", "Bar", "Point", "Shape", "Node2", "Item_", "Color", "Maybe"];
const TPARAM_NAMES: &[&str] = &["T", "E", "K", "V", "U"];
const BUILTIN_TYPES: &[&str] = &["int", "str", "float", "bool", "bytes", "Unit", "Tuple", "List", "tuple", "T", "E"];
const GENERIC_NAMES: &[&str] = &["List", "Dict", "Set", "Option", "Result", "Tuple", "tuple", "FrozenList", "Foo", "list"];
const FIELD_NAMES: &[&str] = &["name", "id", "value", "x", "y", "items", "count", "_inner", "None", "len"];
pub(super) const METHOD_NAMES: &[&str] = &["get", "push", "append", "len", "to_string", "map", "unwrap", "area", "from_underlying", "None"];
const DECORATOR_NAMES: &[&str] = &["derive", "route", "requires", "cache", "test", "fixture", "staticmethod", "rust_"];
const MODULE_NAMES: &[&str] = &["models", "utils", "helpers", "db", "api", "config", "std", "collections", "serde_json", "prelude"];

pub(super) fn is_reserved(s: &str) -> bool {
    incan_core::lang::keywords::from_str(s).is_some() || s == "Self"
}

/// value-level identifier (never a keyword)
pub(super) fn vname() -> BS<String> {
    pick(vec![
        (8, sel(VALUE_NAMES)),
        (1, rx("[a-z_][a-z0-9_]{0,5}").prop_map(|s| if is_reserved(&s) { format!("{s}_v") } else { s }).boxed()),
    ])
}

/// identifier that is not `_` (pattern bindings, names being defined)
pub(super) fn bname() -> BS<String> {
    vname().prop_map(|s| if s == "_" { "_u".to_string() } else { s }).boxed()
}

pub(super) fn tname() -> BS<String> {
    pick(vec![
        (8, sel(TYPE_NAMES)),
        (1, rx("[A-Z][a-zA-Z0-9]{0,5}").prop_map(|s| if is_reserved(&s) { format!("{s}X") } else { s }).boxed()),
    ])
}

pub(super) fn tparams(on: bool) -> BS<Vec<String>> {
    if on {
        pick(vec![(3, Just(Vec::new()).boxed()), (2, vec(sel(TPARAM_NAMES), 1..3).boxed())])
    } else {
        Just(Vec::new()).boxed()
    }
}

// --------------------------------------------------------------------------------------------------------------
// types
// --------------------------------------------------------------------------------------------------------------

pub fn gtype(cfg: &GsynConfig) -> BS<GType> {
    let leaf = pick(vec![
        (5, sel(BUILTIN_TYPES).prop_map(GType::Simple).boxed()),
        (3, tname().prop_map(GType::Simple).boxed()),
        (1, Just(GType::NoneKw).boxed()),
        (1, Just(GType::Unit).boxed()),
        (1, Just(GType::SelfTy).boxed()),
    ]);
    let single = cfg.on("type.tuple.single");
    let empty_generic = cfg.on("type.generic.empty");
    // NOTE: proptest re-runs a prop_recursive closure on every new_tree(); everything expensive is built outside
    let gname = sel(GENERIC_NAMES);
    leaf.prop_recursive(2, 8, 3, move |inner| {
        pick(vec![
            (4, (gname.clone(), vec(inner.clone(), 1..3)).prop_map(|(n, a)| GType::Generic(n, a)).boxed()),
            (if empty_generic { 1 } else { 0 }, gname.clone().prop_map(|n| GType::Generic(n, vec![])).boxed()),
            (2, vec(inner.clone(), 2..4).prop_map(GType::Tuple).boxed()),
            (if single { 1 } else { 0 }, inner.clone().prop_map(|t| GType::Tuple(vec![t])).boxed()),
            (2, (vec(inner.clone(), 0..3), inner.clone()).prop_map(|(p, r)| GType::Func(p, Box::new(r))).boxed()),
            (1, inner.prop_map(|t| GType::Paren(Box::new(t))).boxed()),
        ])
    })
    .boxed()
}

// --------------------------------------------------------------------------------------------------------------
// literals
// --------------------------------------------------------------------------------------------------------------

pub(super) fn text_piece() -> BS<String> {
    pick(vec![
        (8, rx("[a-zA-Z0-9 _.,:;!?#@()/+*<>=%$-]{1,8}")),
        (1, select(&["é", "😀", "ß→", "日本"][..]).prop_map(|s| s.to_string()).boxed()),
        (1, Just(" ".to_string()).boxed()),
    ])
}

#[derive(Clone, Copy, PartialEq, Eq)]
pub(super) enum StrKind {
    Ordinary,
    Docstring,
    PythonPkg,
}

pub(super) fn gstr(cfg: &GsynConfig, kind: StrKind) -> BS<GStr> {
    let multiline = cfg.on("lit.string.multiline");
    let doc_special = cfg.on("docstring.special");
    let py_special = cfg.on("import.python.special");
    let quote = match kind {
        StrKind::PythonPkg => select(&[Quote::D, Quote::D, Quote::S][..]).boxed(),
        StrKind::Docstring => select(&[Quote::TD, Quote::TD, Quote::TD, Quote::D, Quote::S, Quote::TS][..]).boxed(),
        StrKind::Ordinary => select(&[Quote::D, Quote::D, Quote::D, Quote::D, Quote::S, Quote::S, Quote::TD, Quote::TS][..]).boxed(),
    };
    let piece = pick(vec![
        (7, text_piece().prop_map(SPiece::Text).boxed()),
        (2, select(&['n', 't', 'r', '\\'][..]).prop_map(SPiece::Esc).boxed()),
        (1, Just(SPiece::QuoteSame).boxed()),
        (1, Just(SPiece::QuoteOther).boxed()),
        (1, select(&['d', '0', 'w', 'a'][..]).prop_map(SPiece::Unknown).boxed()),
        (if multiline { 1 } else { 0 }, Just(SPiece::Newline).boxed()),
        (1, select(&['{', '}'][..]).prop_map(SPiece::Brace).boxed()),
    ]);
    (quote, vec(piece, 0..4))
        .prop_map(move |(quote, pieces)| {
            let dq_quote = matches!(quote, Quote::D | Quote::TD);
            let pieces = pieces
                .into_iter()
                .filter(|p| match kind {
                    StrKind::Ordinary => true,
                    StrKind::Docstring => match p {
                        // `\r` inside a docstring is outside the covered domain (str::lines() eats it)
                        SPiece::Esc('r') => false,
                        SPiece::Esc('\\') | SPiece::Unknown(_) => doc_special,
                        SPiece::QuoteSame => doc_special || !dq_quote,
                        SPiece::QuoteOther => doc_special || dq_quote,
                        _ => true,
                    },
                    StrKind::PythonPkg => match p {
                        SPiece::Text(_) => true,
                        SPiece::Esc('\\') => py_special,
                        SPiece::QuoteSame => py_special && dq_quote,
                        SPiece::QuoteOther => py_special && !dq_quote,
                        _ => false,
                    },
                })
                .collect();
            GStr { quote, pieces }
        })
        .boxed()
}

pub(super) fn gbytes(cfg: &GsynConfig) -> BS<GBytes> {
    let special = cfg.on("lit.bytes.special");
    let piece = pick(vec![
        (5, rx("[a-zA-Z0-9 _.,:;!?#@()/+*<>=-]{1,6}").prop_map(BPiece::Text).boxed()),
        (2, select(&['n', 't', 'r', '0'][..]).prop_map(BPiece::Esc).boxed()),
        (2, any::<u8>().prop_map(BPiece::Hex).boxed()),
        (1, select(&['d', 'w'][..]).prop_map(BPiece::Unknown).boxed()),
        (1, Just(BPiece::Backslash).boxed()),
        (1, Just(BPiece::QuoteSame).boxed()),
        (1, Just(BPiece::QuoteOther).boxed()),
    ]);
    (prob(0.3), vec(piece, 0..4))
        .prop_map(move |(single, pieces)| {
            let pieces = pieces
                .into_iter()
                .filter_map(|p| {
                    if special {
                        return Some(p);
                    }
                    match p {
                        BPiece::Backslash | BPiece::Unknown(_) => None,
                        BPiece::Hex(34) | BPiece::Hex(92) => Some(BPiece::Hex(0x41)),
                        BPiece::QuoteSame if !single => None,
                        BPiece::QuoteOther if single => None,
                        p => Some(p),
                    }
                })
                .collect();
            GBytes { single, pieces }
        })
        .boxed()
}

pub(super) fn fexpr() -> BS<FExpr> {
    pick(vec![
        (4, bname().prop_map(FExpr::Ident).boxed()),
        (2, (bname(), sel(FIELD_NAMES)).prop_map(|(a, b)| FExpr::Field(a, b)).boxed()),
        (1, (sel(FUNC_NAMES), vec(bname(), 0..3)).prop_map(|(f, a)| FExpr::Call(f, a)).boxed()),
        (1, (bname(), sel(METHOD_NAMES)).prop_map(|(a, m)| FExpr::Method(a, m)).boxed()),
        (1, (bname(), 0u8..100).prop_map(|(a, n)| FExpr::Add(a, n)).boxed()),
        (1, (bname(), 0u8..10).prop_map(|(a, n)| FExpr::Index(a, n)).boxed()),
        (1, (bname(), rx("[a-z]{1,4}")).prop_map(|(a, k)| FExpr::Key(a, k)).boxed()),
        (1, sel(FIELD_NAMES).prop_map(FExpr::SelfField).boxed()),
    ])
}

pub(super) fn gfstr(cfg: &GsynConfig) -> BS<GFStr> {
    let special = cfg.on("fstring.literal_special");
    let part = pick(vec![
        (5, text_piece().prop_map(FPart::Text).boxed()),
        (4, fexpr().prop_map(FPart::Expr).boxed()),
        (1, select(&['n', 't', '\\'][..]).prop_map(FPart::Esc).boxed()),
        (1, select(&['{', '}'][..]).prop_map(FPart::Brace).boxed()),
        (1, Just(FPart::QuoteSame).boxed()),
        (1, Just(FPart::QuoteOther).boxed()),
    ]);
    (prob(0.3), vec(part, 0..4))
        .prop_map(move |(single, parts)| {
            let parts = parts
                .into_iter()
                .filter(|p| {
                    special
                        || match p {
                            FPart::Esc(_) | FPart::Brace(_) | FPart::QuoteSame => false,
                            FPart::QuoteOther => !single,
                            _ => true,
                        }
                })
                .collect();
            GFStr { single, parts }
        })
        .boxed()
}

pub(super) fn float_lit(cfg: &GsynConfig) -> BS<GLit> {
    let frac = (0u32..1000, 1u32..1000, 0u8..4, 1u8..6).prop_map(|(a, b, style, k)| {
        let text = match style {
            0 => format!("{a}.{b}"),
            1 => format!("{a}.{b:03}"),
            2 => format!("{a}.{b}e-{k}"),
            _ => format!("{a}.{b:03}E-{k}"),
        };
        GLit::Float { text, integral: false }
    });
    let integral = (0u32..1000, 0u8..8, 0u8..10).prop_map(|(a, style, k)| {
        let text = match style {
            0 => format!("{a}.0"),
            1 => format!("{a}.00"),
            2 => format!("{a}e{k}"),
            3 => format!("{a}.5e1"),
            4 => "1e300".to_string(),
            5 => format!("{a}E+2"),
            6 => "0.0".to_string(),
            _ => format!("1_000.0"),
        };
        GLit::Float { text, integral: true }
    });
    pick(vec![(3, frac.boxed()), (cfg.w("lit.float.integral", 2), integral.boxed())])
}

pub fn glit(cfg: &GsynConfig) -> BS<GLit> {
    let int = pick(vec![
        (4, (0u64..10).boxed()),
        (3, (0u64..100_000).boxed()),
        (1, (0u64..=i64::MAX as u64).boxed()),
        (1, Just(i64::MAX as u64).boxed()),
    ]);
    pick(vec![
        (5, (int, prob(0.2)).prop_map(|(v, underscores)| GLit::Int { v, underscores }).boxed()),
        (2, float_lit(cfg)),
        (4, gstr(cfg, StrKind::Ordinary).prop_map(GLit::Str).boxed()),
        (1, gbytes(cfg).prop_map(GLit::Bytes).boxed()),
        (2, (any::<bool>(), prob(0.3)).prop_map(|(v, a)| GLit::Bool(v, a)).boxed()),
        (1, Just(GLit::None).boxed()),
    ])
}

// --------------------------------------------------------------------------------------------------------------
// expressions
// --------------------------------------------------------------------------------------------------------------

pub(super) const BINOPS: &[BinOp] = &[
    BinOp::Add,
    BinOp::Sub,
    BinOp::Mul,
    BinOp::Div,
    BinOp::FloorDiv,
    BinOp::Mod,
    BinOp::Pow,
    BinOp::Eq,
    BinOp::NotEq,
    BinOp::Lt,
    BinOp::Gt,
    BinOp::LtEq,
    BinOp::GtEq,
    BinOp::And,
    BinOp::Or,
    BinOp::In,
    BinOp::NotIn,
    BinOp::Is,
];

pub(super) fn brlayout(cfg: &GsynConfig) -> BS<BrLayout> {
    (prob(0.2), gated(cfg.on("surface.multiline_brackets"), 0.12))
        .prop_map(|(trailing_comma, multiline)| BrLayout { trailing_comma, multiline })
        .boxed()
}

pub(super) fn expr_leaf(cfg: &GsynConfig) -> BS<GExpr> {
    pick(vec![
        (6, vname().prop_map(GExpr::Ident).boxed()),
        (6, glit(cfg).prop_map(GExpr::Lit).boxed()),
        (1, Just(GExpr::SelfE).boxed()),
        (cfg.w("expr.fstring", 1), gfstr(cfg).prop_map(GExpr::FStr).boxed()),
    ])
}

pub(super) fn bx(e: GExpr) -> Box<GExpr> {
    Box::new(e)
}

pub(super) fn expr_rec(cfg: &GsynConfig, depth: u32, size: u32) -> BS<GExpr> {
    let step_no_end = cfg.on("slice.step_no_end");
    let closure_params = if cfg.on("closure.params=1") { vec(bname(), 0..3).boxed() } else { Just(Vec::new()).boxed() };
    let (w_closure, w_yield) = (cfg.w("expr.closure", 1), cfg.w("expr.yield", 1));
    // built once; the recursion closure below only wires clones together (it runs on every new_tree())
    let name = bname();
    let brl = brlayout(cfg);
    let binop = select(BINOPS).boxed();
    let field = sel(FIELD_NAMES);
    let method = sel(METHOD_NAMES);
    let p02 = prob(0.2);
    let anyb = any::<bool>().boxed();
    let tidx = (0u8..4).boxed();
    expr_leaf(cfg)
        .prop_recursive(depth, size, 3, move |inner| {
            let args = vec(
                pick(vec![
                    (3, inner.clone().prop_map(GArg::Pos).boxed()),
                    (1, (name.clone(), inner.clone()).prop_map(|(n, e)| GArg::Named(n, e)).boxed()),
                ]),
                0..3,
            )
            .boxed();
            let o = |s: &BS<GExpr>| opt(s.clone().prop_map(bx).boxed(), 0.5);
            pick(vec![
                (6, (inner.clone(), binop.clone(), inner.clone()).prop_map(|(l, op, r)| GExpr::Binary(bx(l), op, bx(r))).boxed()),
                (1, inner.clone().prop_map(|e| GExpr::Neg(bx(e))).boxed()),
                (1, inner.clone().prop_map(|e| GExpr::Not(bx(e))).boxed()),
                (3, (inner.clone(), args.clone(), brl.clone()).prop_map(|(f, a, l)| GExpr::Call(bx(f), a, l)).boxed()),
                (2, (inner.clone(), inner.clone()).prop_map(|(b, i)| GExpr::Index(bx(b), bx(i))).boxed()),
                (
                    2,
                    (inner.clone(), o(&inner), o(&inner), o(&inner), p02.clone())
                        .prop_map(move |(b, s, e, st, tc)| {
                            let st = if !step_no_end && e.is_none() { None } else { st };
                            GExpr::Slice(bx(b), s, e, st, tc)
                        })
                        .boxed(),
                ),
                (2, (inner.clone(), field.clone()).prop_map(|(b, f)| GExpr::Field(bx(b), f)).boxed()),
                (1, (inner.clone(), tidx.clone()).prop_map(|(b, i)| GExpr::TupleIndex(bx(b), i)).boxed()),
                (3, (inner.clone(), method.clone(), args, brl.clone()).prop_map(|(b, m, a, l)| GExpr::MethodCall(bx(b), m, a, l)).boxed()),
                (1, inner.clone().prop_map(|e| GExpr::Await(bx(e))).boxed()),
                (1, inner.clone().prop_map(|e| GExpr::Try(bx(e))).boxed()),
                (
                    1,
                    (inner.clone(), name.clone(), inner.clone(), o(&inner))
                        .prop_map(|(e, v, i, f)| GExpr::ListComp { elem: bx(e), var: v, iter: bx(i), filter: f })
                        .boxed(),
                ),
                (
                    1,
                    (inner.clone(), inner.clone(), name.clone(), inner.clone(), o(&inner))
                        .prop_map(|(k, val, v, i, f)| GExpr::DictComp { key: bx(k), value: bx(val), var: v, iter: bx(i), filter: f })
                        .boxed(),
                ),
                (w_closure, (closure_params.clone(), inner.clone()).prop_map(|(p, b)| GExpr::Closure(p, bx(b))).boxed()),
                (1, (vec(inner.clone(), 0..4), brl.clone()).prop_map(|(v, l)| GExpr::Tuple(v, l)).boxed()),
                (2, (vec(inner.clone(), 0..4), brl.clone()).prop_map(|(v, l)| GExpr::List(v, l)).boxed()),
                (1, (vec((inner.clone(), inner.clone()), 0..3), brl.clone()).prop_map(|(v, l)| GExpr::Dict(v, l)).boxed()),
                (1, (vec(inner.clone(), 1..4), brl.clone()).prop_map(|(v, l)| GExpr::Set(v, l)).boxed()),
                (2, inner.clone().prop_map(|e| GExpr::Paren(bx(e))).boxed()),
                (w_yield, o(&inner).prop_map(GExpr::Yield).boxed()),
                (1, (inner.clone(), inner.clone(), anyb.clone()).prop_map(|(a, b, i)| GExpr::Range(bx(a), bx(b), i)).boxed()),
            ])
        })
        .boxed()
}

pub fn gexpr(cfg: &GsynConfig) -> BS<GExpr> {
    expr_rec(cfg, cfg.expr_depth, 14)
}

pub(super) fn expr_small(cfg: &GsynConfig) -> BS<GExpr> {
    expr_rec(cfg, 1, 4)
}

// --------------------------------------------------------------------------------------------------------------
// patterns
// --------------------------------------------------------------------------------------------------------------

pub fn gpat(cfg: &GsynConfig) -> BS<GPat> {
    let qual = cfg.w("pattern.qualified", 1);
    let tn = tname();
    let leaf = pick(vec![
        (2, Just(GPat::Wild).boxed()),
        (3, bname().prop_map(GPat::Bind).boxed()),
        (3, glit(cfg).prop_map(GPat::Lit).boxed()),
        (qual, (tn.clone(), pick(vec![(3, tn.clone()), (1, Just("None".to_string()).boxed())])).prop_map(|(t, v)| GPat::Qual(t, v, None)).boxed()),
    ]);
    let empty_ctor = cfg.w("pattern.ctor.args=0", 1);
    leaf.prop_recursive(2, 6, 3, move |inner| {
        pick(vec![
            (3, (tn.clone(), vec(inner.clone(), 1..3)).prop_map(|(n, a)| GPat::Ctor(n, a)).boxed()),
            (empty_ctor, tn.clone().prop_map(|n| GPat::Ctor(n, vec![])).boxed()),
            (qual, (tn.clone(), tn.clone(), vec(inner.clone(), 0..3)).prop_map(|(t, v, a)| GPat::Qual(t, v, Some(a))).boxed()),
            (2, vec(inner, 0..3).prop_map(GPat::Tuple).boxed()),
        ])
    })
    .boxed()
}

// --------------------------------------------------------------------------------------------------------------
// statements
// --------------------------------------------------------------------------------------------------------------

pub(super) const COPS: &[COp] = &[COp::Add, COp::Sub, COp::Mul, COp::Div, COp::FloorDiv, COp::Mod];

/// `obj.f op= rhs` is desugared by the parser into `obj.f = obj.f op rhs` without a Paren node; with the switch off
/// the right side is parenthesised whenever it binds no tighter than `op`.
pub(super) fn guard_rhs(compound_on: bool, op: Option<COp>, value: GExpr) -> GExpr {
    match op {
        Some(op) if !compound_on && value.level() <= op.level() => GExpr::Paren(Box::new(value)),
        _ => value,
    }
}

pub(super) fn simple_stmt(cfg: &GsynConfig) -> BS<GStmt> {
    let compound_on = cfg.on("assign.compound_target");
    let e = gexpr(cfg);
    let es = expr_small(cfg);
    let lvalue = pick(vec![
        (2, (es.clone(), sel(FIELD_NAMES)).prop_map(|(o, f)| GExpr::Field(bx(o), f)).boxed()),
        (2, (es.clone(), es.clone()).prop_map(|(o, i)| GExpr::Index(bx(o), bx(i))).boxed()),
    ]);
    let any_target = pick(vec![(2, lvalue.clone()), (1, bname().prop_map(GExpr::Ident).boxed())]);
    pick(vec![
        (
            5,
            (0u8..3, bname(), opt(gtype(cfg), 0.4), e.clone()).prop_map(|(binding, name, ty, v)| GStmt::Assign { binding, name, ty, value: GTail::E(v) }).boxed(),
        ),
        (
            2,
            (es.clone(), sel(FIELD_NAMES), opt(select(COPS).boxed(), 0.3), e.clone())
                .prop_map(move |(obj, field, op, value)| GStmt::FieldAssign { obj, field, op, value: guard_rhs(compound_on, op, value) })
                .boxed(),
        ),
        (
            2,
            (es.clone(), e.clone(), opt(select(COPS).boxed(), 0.3), e.clone())
                .prop_map(move |(obj, index, op, value)| GStmt::IndexAssign { obj, index, op, value: guard_rhs(compound_on, op, value) })
                .boxed(),
        ),
        (2, opt(e.clone(), 0.7).prop_map(|v| GStmt::Return(v.map(GTail::E))).boxed()),
        (4, e.clone().prop_map(|v| GStmt::Expr(GTail::E(v))).boxed()),
        (1, prob(0.4).prop_map(GStmt::Pass).boxed()),
        (1, Just(GStmt::Break).boxed()),
        (1, Just(GStmt::Continue).boxed()),
        (2, (bname(), select(COPS), e.clone()).prop_map(|(name, op, value)| GStmt::Compound { name, op, value }).boxed()),
        (1, (0u8..3, vec(bname(), 2..4), e.clone()).prop_map(|(binding, names, value)| GStmt::TupleUnpack { binding, names, value }).boxed()),
        (
            cfg.w("stmt.tuple_assign", 1),
            (lvalue, vec(any_target, 1..3), e.clone())
                .prop_map(|(first, rest, value)| {
                    let mut targets = vec![first];
                    targets.extend(rest);
                    GStmt::TupleAssign { targets, value }
                })
                .boxed(),
        ),
        (
            cfg.w("stmt.chained", 1),
            (0u8..3, vec(bname(), 2..4), e).prop_map(|(binding, targets, value)| GStmt::Chained { binding, targets, value }).boxed(),
        ),
    ])
}

/// Everything the statement recursion needs, built once (the recursion closure runs on every new_tree()).
#[derive(Clone)]
pub(super) struct StmtParts {
    max_body: usize,
    expr: BS<GExpr>,
    simple: BS<GStmt>,
    pat: BS<GPat>,
    guard: BS<Option<GExpr>>,
    inline_plain: BS<GInline>,
    simple_match: Option<BS<GTail>>,
    name: BS<String>,
    opt_ty: BS<Option<GType>>,
    binding: BS<u8>,
    w_match: u32,
    w_if: u32,
    paren_arm_ok: bool,
}

pub(super) fn inline_stmt(e: &BS<GExpr>, nested: Option<BS<GTail>>) -> BS<GInline> {
    let mut opts = vec![
        (1, opt(e.clone(), 0.7).prop_map(|v| GInline::Return(v.map(GTail::E))).boxed()),
        (1, prob(0.4).prop_map(GInline::Pass).boxed()),
        (5, e.clone().prop_map(|v| GInline::Expr(GTail::E(v))).boxed()),
    ];
    if let Some(t) = nested {
        opts.push((1, t.clone().prop_map(GInline::Expr).boxed()));
        opts.push((1, t.prop_map(|t| GInline::Return(Some(t))).boxed()));
    }
    pick(opts)
}

pub(super) fn arm(pat: &BS<GPat>, guard: &BS<Option<GExpr>>, body: BS<Vec<GStmt>>, inline: BS<GInline>) -> BS<GArm> {
    let form = pick(vec![
        (2, (guard.clone(), body.clone()).prop_map(|(guard, body)| ArmForm::CaseBlock { guard, body }).boxed()),
        (2, (guard.clone(), inline.clone()).prop_map(|(guard, stmt)| ArmForm::CaseInline { guard, stmt }).boxed()),
        (2, body.prop_map(ArmForm::ArrowBlock).boxed()),
        (3, inline.prop_map(ArmForm::ArrowInline).boxed()),
    ]);
    (pat.clone(), form).prop_map(|(pat, form)| GArm { pat, form }).boxed()
}

pub(super) fn fix_arms(paren_arm_ok: bool, mut arms: Vec<GArm>) -> Vec<GArm> {
    if !paren_arm_ok {
        // an arm whose inline body is a block expression must not be followed by a `(..)` pattern
        for i in 1..arms.len() {
            let prev_block = match &arms[i - 1].form {
                ArmForm::CaseInline { stmt: GInline::Expr(t), .. } | ArmForm::ArrowInline(GInline::Expr(t)) => !matches!(t, GTail::E(_)),
                _ => false,
            };
            if prev_block && matches!(arms[i].pat, GPat::Tuple(_)) {
                arms[i].pat = GPat::Wild;
            }
        }
    }
    arms
}

pub(super) fn stmt_parts(cfg: &GsynConfig) -> StmtParts {
    let expr = gexpr(cfg);
    let small = expr_small(cfg);
    let simple = simple_stmt(cfg);
    let pat = gpat(cfg);
    let guard = if cfg.on("arm.guard=1") { opt(expr.clone(), 0.4) } else { Just(None).boxed() };
    let inline_plain = inline_stmt(&expr, None);
    let paren_arm_ok = cfg.on("shape.paren_arm_after_block_arm");
    // innermost matches: arms are inline only
    let simple_arm = arm(&pat, &guard, vec(simple.clone(), 1..2).boxed(), inline_plain.clone());
    let simple_match = if cfg.on("expr.match") {
        Some(
            (small, vec(simple_arm, 1..3))
                .prop_map(move |(subject, arms)| GTail::Match(Box::new(GMatch { subject, arms: fix_arms(paren_arm_ok, arms) })))
                .boxed(),
        )
    } else {
        None
    };
    StmtParts {
        max_body: cfg.max_body,
        expr,
        simple,
        pat,
        guard,
        inline_plain,
        simple_match,
        name: bname(),
        opt_ty: opt(gtype(cfg), 0.3),
        binding: (0u8..3).boxed(),
        w_match: cfg.w("expr.match", 3),
        w_if: cfg.w("expr.if", 1),
        paren_arm_ok,
    }
}

/// tails (block-structured expressions) whose bodies are built from `inner` statements
pub(super) fn tail(p: &StmtParts, inner: &BS<GStmt>, allow_if: bool) -> BS<GTail> {
    let body = vec(inner.clone(), 1..=p.max_body).boxed();
    let full_arm = arm(&p.pat, &p.guard, body.clone(), inline_stmt(&p.expr, p.simple_match.clone()));
    let paren_arm_ok = p.paren_arm_ok;
    let m = (p.expr.clone(), vec(full_arm, 1..4))
        .prop_map(move |(subject, arms)| GTail::Match(Box::new(GMatch { subject, arms: fix_arms(paren_arm_ok, arms) })))
        .boxed();
    let i = (p.expr.clone(), body.clone(), opt(body, 0.6)).prop_map(|(cond, then, els)| GTail::IfExpr(Box::new(GIfExpr { cond, then, els }))).boxed();
    pick(vec![(p.w_match, m), (if allow_if { p.w_if } else { 0 }, i), (1, p.expr.clone().prop_map(GTail::E).boxed())])
}

pub fn gstmt(cfg: &GsynConfig) -> BS<GStmt> {
    let p = stmt_parts(cfg);
    let depth = cfg.stmt_depth;
    p.simple
        .clone()
        .prop_recursive(depth, 10, 3, move |inner| {
            let body = vec(inner.clone(), 1..=p.max_body).boxed();
            let e = p.expr.clone();
            pick(vec![
                (2, p.simple.clone()),
                (
                    3,
                    (e.clone(), body.clone(), vec((e.clone(), body.clone()), 0..3), opt(body.clone(), 0.5))
                        .prop_map(|(cond, then, elifs, els)| GStmt::If { cond, then, elifs, els })
                        .boxed(),
                ),
                (2, (e.clone(), body.clone()).prop_map(|(cond, body)| GStmt::While { cond, body }).boxed()),
                (2, (p.name.clone(), e, body).prop_map(|(var, iter, body)| GStmt::For { var, iter, body }).boxed()),
                (
                    2,
                    (p.binding.clone(), p.name.clone(), p.opt_ty.clone(), tail(&p, &inner, true))
                        .prop_map(|(binding, name, ty, value)| GStmt::Assign { binding, name, ty, value })
                        .boxed(),
                ),
                (1, tail(&p, &inner, true).prop_map(|t| GStmt::Return(Some(t))).boxed()),
                (2, tail(&p, &inner, false).prop_map(GStmt::Expr).boxed()),
            ])
        })
        .boxed()
}

pub(super) fn body(cfg: &GsynConfig) -> BS<Vec<GStmt>> {
    vec(gstmt(cfg), 1..=cfg.max_body).boxed()
}

// --------------------------------------------------------------------------------------------------------------
// declarations
// --------------------------------------------------------------------------------------------------------------

pub(super) fn decorator(cfg: &GsynConfig) -> BS<GDecorator> {
    let arg = pick(vec![
        (3, expr_small(cfg).prop_map(GDecArg::Pos).boxed()),
        (2, (bname(), expr_small(cfg)).prop_map(|(n, e)| GDecArg::NamedExpr(n, e)).boxed()),
        (cfg.w("decorator.arg.named_type", 2), (bname(), gtype(cfg)).prop_map(|(n, t)| GDecArg::NamedType(n, t)).boxed()),
    ]);
    (sel(DECORATOR_NAMES), opt(vec(arg, 0..4).boxed(), 0.5)).prop_map(|(name, args)| GDecorator { name, args }).boxed()
}

pub(super) fn decorators(cfg: &GsynConfig) -> BS<Vec<GDecorator>> {
    pick(vec![(3, Just(Vec::new()).boxed()), (2, vec(decorator(cfg), 1..3).boxed())])
}

pub(super) fn params(cfg: &GsynConfig) -> BS<Vec<GParam>> {
    let p = (gated(cfg.on("param.mut=1"), 0.25), bname(), gtype(cfg), opt(expr_small(cfg), 0.25))
        .prop_map(|(is_mut, name, ty, default)| GParam { is_mut, name, ty, default });
    vec(p, 0..4).boxed()
}

pub(super) fn method(cfg: &GsynConfig) -> BS<GMethod> {
    let mbody = pick(vec![
        (1, Just(GMethodBody::AbstractNewline).boxed()),
        (1, Just(GMethodBody::AbstractEllipsis).boxed()),
        (4, body(cfg).prop_map(GMethodBody::Block).boxed()),
    ]);
    (decorators(cfg), prob(0.2), prob(0.15), sel(FUNC_NAMES), 0u8..3, params(cfg), gtype(cfg), mbody)
        .prop_map(|(decorators, is_async, fn_alias, name, receiver, mut params, ret, body)| {
            // `def m(mut x: T)` is read as a receiver (`mut self` expected)
            if receiver == 0 {
                if let Some(p) = params.first_mut() {
                    p.is_mut = false;
                }
            }
            GMethod {
            decorators,
            is_async,
            fn_alias,
            name,
            receiver,
            params,
            ret,
            body,
        }})
        .boxed()
}

pub(super) fn field(cfg: &GsynConfig) -> BS<GField> {
    (prob(0.25), sel(FIELD_NAMES), gtype(cfg), opt(expr_small(cfg), 0.3))
        .prop_map(|(is_pub, name, ty, default)| GField { is_pub, name: if name == "None" { "none_".into() } else { name }, ty, default })
        .boxed()
}

pub(super) fn class_like(cfg: &GsynConfig, is_class: bool) -> BS<GClassLike> {
    let extends = if is_class { opt(tname(), 0.4) } else { Just(None).boxed() };
    let members = (vec(field(cfg), 0..4), vec(method(cfg), 0..3)).prop_flat_map({
        let cfg = cfg.clone();
        move |(f, m)| {
            if f.is_empty() && m.is_empty() {
                // a body needs at least one member
                field(&cfg).prop_map(|f| (vec![f], Vec::new())).boxed()
            } else {
                Just((f, m)).boxed()
            }
        }
    });
    (decorators(cfg), prob(0.3), tname(), tparams(true), extends, vec(tname(), 0..3), members)
        .prop_map(|(decorators, is_pub, name, type_params, extends, traits, (fields, methods))| GClassLike {
            decorators,
            is_pub,
            name,
            type_params,
            extends,
            traits,
            fields,
            methods,
        })
        .boxed()
}

pub(super) fn path(cfg: &GsynConfig) -> BS<GPath> {
    let bare_crate = cfg.on("import.path.crate_bare");
    let empty = cfg.on("import.path.empty");
    (0u8..4, 1u8..3, prob(0.3), vec(sel(MODULE_NAMES), 0..4))
        .prop_map(move |(style, levels, dot_sep, mut segments)| {
            let needs_segment = match style {
                0 => true,
                1 | 2 => !empty,
                _ => !bare_crate,
            };
            if segments.is_empty() && needs_segment {
                segments.push("models".to_string());
            }
            GPath { style, levels, dot_sep, segments }
        })
        .boxed()
}

pub(super) fn import(cfg: &GsynConfig) -> BS<GImport> {
    let alias = opt(bname(), 0.4);
    let items = vec((pick(vec![(1, bname()), (1, tname())]), opt(bname(), 0.3)), 1..4).boxed();
    let rpath = vec(pick(vec![(1, sel(MODULE_NAMES)), (1, tname())]), 0..3).boxed();
    pick(vec![
        (3, (path(cfg), alias.clone()).prop_map(|(path, alias)| GImport::Module { path, alias }).boxed()),
        (3, (path(cfg), items.clone()).prop_map(|(path, items)| GImport::From { path, items }).boxed()),
        (1, (gstr(cfg, StrKind::PythonPkg), alias.clone()).prop_map(|(pkg, alias)| GImport::Python { pkg, alias }).boxed()),
        (2, (sel(MODULE_NAMES), rpath.clone(), alias).prop_map(|(krate, path, alias)| GImport::RustCrate { krate, path, alias }).boxed()),
        (2, (sel(MODULE_NAMES), rpath, items).prop_map(|(krate, path, items)| GImport::RustFrom { krate, path, items }).boxed()),
        (if cfg.on("import.path.empty") { 1 } else { 0 }, Just(GImport::Empty).boxed()),
    ])
}

pub fn gdecl(cfg: &GsynConfig) -> BS<GDecl> {
    let func = (
        decorators(cfg),
        prob(0.3),
        prob(0.2),
        prob(0.15),
        sel(FUNC_NAMES),
        tparams(cfg.on("fn.type_params=1")),
        params(cfg),
        gtype(cfg),
        body(cfg),
    )
        .prop_map(|(decorators, is_pub, is_async, fn_alias, name, type_params, params, ret, body)| {
            GDecl::Function(GFunc { decorators, is_pub, is_async, fn_alias, name, type_params, params, ret, body })
        });
    let tr = (decorators(cfg), prob(0.3), tname(), tparams(true), vec(method(cfg), 0..3))
        .prop_map(|(decorators, is_pub, name, type_params, methods)| GDecl::Trait(GTrait { decorators, is_pub, name, type_params, methods }));
    let nt_methods = if cfg.on("newtype.methods=1") { vec(method(cfg), 0..3).boxed() } else { Just(Vec::new()).boxed() };
    let nt = (0u8..3, prob(0.3), tname(), gtype(cfg), nt_methods)
        .prop_map(|(spelling, is_pub, name, underlying, methods)| GDecl::Newtype(GNewtype { spelling, is_pub, name, underlying, methods }));
    let variant = (pick(vec![(6, tname()), (1, Just("None".to_string()).boxed())]), vec(gtype(cfg), 0..3));
    let en = (prob(0.3), tname(), tparams(true), vec(variant, 1..4))
        .prop_map(|(is_pub, name, type_params, variants)| GDecl::Enum(GEnum { is_pub, name, type_params, variants }));
    let konst = (prob(0.3), sel(&["MAX", "NAME", "LIMIT_2", "pi", "DEFAULTS"]), opt(gtype(cfg), 0.5), gexpr(cfg))
        .prop_map(|(is_pub, name, ty, value)| GDecl::Const { is_pub, name, ty, value });
    pick(vec![
        (3, import(cfg).prop_map(GDecl::Import).boxed()),
        (2, konst.boxed()),
        (3, class_like(cfg, false).prop_map(GDecl::Model).boxed()),
        (3, class_like(cfg, true).prop_map(GDecl::Class).boxed()),
        (2, tr.boxed()),
        (2, nt.boxed()),
        (2, en.boxed()),
        (7, func.boxed()),
        (cfg.w("decl.docstring", 1), gstr(cfg, StrKind::Docstring).prop_map(GDecl::Docstring).boxed()),
    ])
}

pub(super) fn layout(cfg: &GsynConfig) -> BS<Layout> {
    if !cfg.layout_variation {
        return Just(Layout::canonical()).boxed();
    }
    let indent = pick(vec![
        (6, Just(Indent::Four).boxed()),
        (2, Just(Indent::Two).boxed()),
        (cfg.w("surface.indent.tab", 1), Just(Indent::Tab).boxed()),
    ]);
    (indent, 0u8..4, gated(cfg.on("surface.comment"), 0.2), select(&[1u8, 1, 1, 1, 1, 1, 0, 2][..]), prob(0.1))
        .prop_map(|(indent, blank_lines, comments, final_newlines, leading_blank)| Layout { indent, blank_lines, comments, final_newlines, leading_blank })
        .boxed()
}

pub fn program(cfg: &GsynConfig) -> BS<GProgram> {
    // the empty file is a legal program but a rare one
    let decls = pick(vec![(1, Just(Vec::new()).boxed()), (40, vec(gdecl(cfg), 1..=cfg.max_decls).boxed())]);
    (layout(cfg), decls).prop_map(|(layout, decls)| GProgram { layout, decls }).boxed()
}
