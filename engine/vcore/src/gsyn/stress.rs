//! Size / depth stress classes of G-syn. The ordinary generator keeps programs small (recursion depth 2-3); these
//! classes aim at what only shows up at scale:
//!
//! * `deep(cfg)`  — block nesting of 6..=16 levels mixing `if`/`elif`/`else`, `while`, `for`, `match` arms in both
//!   spellings (two indent levels each), `if` expressions, inside a function or a method of a class / model / trait /
//!   newtype, with sibling statements before and after the nested block at every level (so DEDENTs to every level occur);
//! * `long(cfg)`  — one very long thing per program, far beyond any line length: operator chain, argument list,
//!   list / dict / set / tuple literal, string, f-string, method chain, parameter list, decorator stack;
//! * `many(cfg)`  — 50..=70 declarations in one file.
//!
//! All three are ordinary `Strategy<Value = GProgram>`s: rendering, tags, shrinking and feature switches work as for
//! `gsyn::program_tree`.

use super::strat::*;
use super::tree::*;
use super::GsynConfig;
use proptest::collection::vec;
use proptest::prelude::*;

#[derive(Clone, Debug)]
struct Level {
    kind: u8,
    cond: GExpr,
    pat: GPat,
    /// which branch of an `if` holds the nested block (0 then, 1 elif, 2 else)
    place: u8,
    before: Option<GStmt>,
    after: Option<GStmt>,
    other: GStmt,
}

fn wrap(l: Level, inner: Vec<GStmt>, if_expr_ok: bool) -> Vec<GStmt> {
    let filler = vec![l.other.clone()];
    let nested = match l.kind {
        0 | 1 => {
            let (then, elifs, els) = match l.place {
                0 => (inner, if l.kind == 1 { vec![(l.cond.clone(), filler.clone())] } else { vec![] }, Some(filler)),
                1 => (filler.clone(), vec![(l.cond.clone(), inner)], if l.kind == 1 { Some(filler) } else { None }),
                _ => (filler.clone(), if l.kind == 1 { vec![(l.cond.clone(), filler)] } else { vec![] }, Some(inner)),
            };
            GStmt::If { cond: l.cond, then, elifs, els }
        }
        2 => GStmt::While { cond: l.cond, body: inner },
        3 => GStmt::For { var: "i".into(), iter: l.cond, body: inner },
        4 | 5 => {
            let form = if l.kind == 4 { ArmForm::CaseBlock { guard: None, body: inner } } else { ArmForm::ArrowBlock(inner) };
            let mut arms = vec![GArm { pat: l.pat, form }];
            if l.place != 0 {
                arms.push(GArm { pat: GPat::Wild, form: ArmForm::ArrowInline(GInline::Pass(false)) });
            }
            GStmt::Expr(GTail::Match(Box::new(GMatch { subject: l.cond, arms })))
        }
        _ if if_expr_ok => GStmt::Assign {
            binding: 0,
            name: "v".into(),
            ty: None,
            value: GTail::IfExpr(Box::new(GIfExpr { cond: l.cond, then: inner, els: if l.place == 0 { None } else { Some(filler) } })),
        },
        _ => GStmt::While { cond: l.cond, body: inner },
    };
    let mut out = Vec::new();
    out.extend(l.before);
    out.push(nested);
    out.extend(l.after);
    out
}

fn container(kind: u8, name: String, body: Vec<GStmt>, ret: GType, newtype_ok: bool) -> GDecl {
    let method = |receiver: u8| GMethod {
        decorators: vec![],
        is_async: false,
        fn_alias: false,
        name: name.clone(),
        receiver,
        params: vec![],
        ret: ret.clone(),
        body: GMethodBody::Block(body.clone()),
    };
    let class = |m: GMethod| GClassLike {
        decorators: vec![],
        is_pub: false,
        name: "Deep".into(),
        type_params: vec![],
        extends: None,
        traits: vec![],
        fields: vec![GField { is_pub: false, name: "x".into(), ty: GType::Simple("int".into()), default: None }],
        methods: vec![m],
    };
    match kind {
        1 => GDecl::Class(class(method(1))),
        2 => GDecl::Model(class(method(2))),
        3 => GDecl::Trait(GTrait { decorators: vec![], is_pub: false, name: "Deep".into(), type_params: vec![], methods: vec![method(1)] }),
        4 if newtype_ok => {
            GDecl::Newtype(GNewtype { spelling: 0, is_pub: false, name: "Deep".into(), underlying: GType::Simple("int".into()), methods: vec![method(1)] })
        }
        _ => GDecl::Function(GFunc {
            decorators: vec![],
            is_pub: false,
            is_async: false,
            fn_alias: false,
            name,
            type_params: vec![],
            params: vec![],
            ret,
            body,
        }),
    }
}

/// Deep block nesting (6..=16 nested compound statements; `match` levels count twice in indentation).
pub fn deep(cfg: &GsynConfig) -> BS<GProgram> {
    let simple = simple_stmt(cfg);
    let small = expr_small(cfg);
    let pat = pick(vec![
        (2, Just(GPat::Wild).boxed()),
        (2, bname().prop_map(GPat::Bind).boxed()),
        (2, (0u64..100).prop_map(|v| GPat::Lit(GLit::Int { v, underscores: false })).boxed()),
        (1, (tname(), bname()).prop_map(|(t, b)| GPat::Ctor(t, vec![GPat::Bind(b)])).boxed()),
    ]);
    let level = (0u8..7, small, pat, 0u8..3, opt(simple.clone(), 0.4), opt(simple.clone(), 0.4), simple.clone())
        .prop_map(|(kind, cond, pat, place, before, after, other)| Level { kind, cond, pat, place, before, after, other });
    let if_expr_ok = cfg.on("expr.if") && cfg.on("expr.match");
    let match_ok = cfg.on("expr.match");
    let newtype_ok = cfg.on("newtype.methods=1");
    (layout(cfg), 0u8..5, sel(FUNC_NAMES), gtype(cfg), vec(level, 6..=16), vec(simple, 1..3), opt(gdecl(cfg), 0.3))
        .prop_map(move |(layout, ckind, name, ret, levels, leaf, extra)| {
            let mut body = leaf;
            for mut l in levels.into_iter().rev() {
                if !match_ok && (l.kind == 4 || l.kind == 5) {
                    l.kind = 0;
                }
                body = wrap(l, body, if_expr_ok);
            }
            let mut decls = vec![container(ckind, name, body, ret, newtype_ok)];
            decls.extend(extra);
            GProgram { layout, decls }
        })
        .boxed()
}

/// One very long construct per program.
pub fn long(cfg: &GsynConfig) -> BS<GProgram> {
    let small = expr_small(cfg);
    let many = vec(small.clone(), 30..100).boxed();
    let brl = BrLayout::default();
    let chain = (many.clone(), vec(proptest::sample::select(BINOPS), 100)).prop_map(|(es, ops)| {
        let mut it = es.into_iter();
        let mut acc = it.next().unwrap_or(GExpr::SelfE);
        for (e, op) in it.zip(ops) {
            acc = GExpr::Binary(Box::new(acc), op, Box::new(e));
        }
        acc
    });
    let call = (many.clone(), bname()).prop_map(move |(es, f)| {
        let args = es.into_iter().enumerate().map(|(i, e)| if i % 5 == 4 { GArg::Named(format!("k{i}"), e) } else { GArg::Pos(e) }).collect();
        GExpr::Call(Box::new(GExpr::Ident(f)), args, brl)
    });
    let list = many.clone().prop_map(move |es| GExpr::List(es, brl));
    let tuple = many.clone().prop_map(move |es| GExpr::Tuple(es, brl));
    let set = many.clone().prop_map(move |es| GExpr::Set(es, brl));
    let dict = (many.clone(), many.clone()).prop_map(move |(k, v)| GExpr::Dict(k.into_iter().zip(v).collect(), brl));
    let string = vec(text_piece(), 20..60).prop_map(|ps| GExpr::Lit(GLit::Str(GStr { quote: Quote::D, pieces: ps.into_iter().map(SPiece::Text).collect() })));
    let fstring = vec((text_piece(), bname()), 10..40).prop_map(|ps| {
        let mut parts = Vec::new();
        for (t, n) in ps {
            parts.push(FPart::Text(t));
            parts.push(FPart::Expr(FExpr::Ident(n)));
        }
        GExpr::FStr(GFStr { single: false, parts })
    });
    let methods = (small.clone(), vec((sel(METHOD_NAMES), vec(small.clone(), 0..3)), 10..30)).prop_map(move |(base, calls)| {
        let mut acc = base;
        for (m, args) in calls {
            acc = GExpr::MethodCall(Box::new(acc), m, args.into_iter().map(GArg::Pos).collect(), brl);
        }
        acc
    });
    let nested_parens = (small.clone(), 10usize..40).prop_map(|(e, n)| {
        let mut acc = e;
        for _ in 0..n {
            acc = GExpr::Paren(Box::new(acc));
        }
        acc
    });
    let long_expr = pick(vec![
        (3, chain.boxed()),
        (3, call.boxed()),
        (2, list.boxed()),
        (1, tuple.boxed()),
        (1, set.boxed()),
        (2, dict.boxed()),
        (2, string.boxed()),
        (cfg.w("expr.fstring", 1), fstring.boxed()),
        (2, methods.boxed()),
        (1, nested_parens.boxed()),
    ]);
    let long_params = pick(vec![(3, params(cfg)), (1, vec(params(cfg), 4..9).prop_map(|v| v.into_iter().flatten().collect::<Vec<_>>()).boxed())]);
    let long_decorators = pick(vec![(3, decorators(cfg)), (1, vec(decorator(cfg), 5..12).boxed())]);
    (layout(cfg), long_expr, long_params, long_decorators, sel(FUNC_NAMES), gtype(cfg), 0u8..4, prob(0.3))
        .prop_map(|(layout, e, params, decorators, name, ret, place, with_const)| {
            let stmt = match place {
                0 => GStmt::Return(Some(GTail::E(e.clone()))),
                1 => GStmt::Assign { binding: 1, name: "long_value".into(), ty: None, value: GTail::E(e.clone()) },
                2 => GStmt::If { cond: e.clone(), then: vec![GStmt::Pass(false)], elifs: vec![], els: None },
                _ => GStmt::Expr(GTail::E(e.clone())),
            };
            let mut decls = Vec::new();
            if with_const {
                decls.push(GDecl::Const { is_pub: false, name: "LONG".into(), ty: None, value: e });
            }
            decls.push(GDecl::Function(GFunc {
                decorators,
                is_pub: false,
                is_async: false,
                fn_alias: false,
                name,
                type_params: vec![],
                params,
                ret,
                body: vec![stmt],
            }));
            GProgram { layout, decls }
        })
        .boxed()
}

/// 50..=70 declarations in one file (each kept small).
pub fn many(cfg: &GsynConfig) -> BS<GProgram> {
    let mut small = cfg.clone();
    small.max_body = 2;
    small.expr_depth = 1;
    small.stmt_depth = 1;
    (layout(cfg), vec(gdecl(&small), 50..=70)).prop_map(|(layout, decls)| GProgram { layout, decls }).boxed()
}
