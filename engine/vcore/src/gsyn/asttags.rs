//! Tag vocabulary + scanner over a *real* `incan_syntax::ast::Program`. The same tags describe generated programs and
//! repository seed files, so coverage tables and known-finding predicates share one vocabulary.
//!
//! `name=0` / `name=1` are the two states of an optional field; `surface.*` tags are spellings the AST does not
//! record (emitted by the renderer only).

use super::Tag;
use incan_syntax::ast::*;
use std::collections::BTreeSet;

pub const ALL_TAGS: &[Tag] = &[
    // declarations
    "decl.import.module", "decl.import.from", "decl.import.python", "decl.import.rust_crate", "decl.import.rust_from",
    "import.alias=0", "import.alias=1", "import.item_alias=0", "import.item_alias=1", "import.path.parent", "import.path.absolute",
    "import.path.empty", "import.path.crate_bare", "import.rust_path=0", "import.rust_path=1", "import.python.special",
    "decl.const", "const.pub=0", "const.pub=1", "const.ty=0", "const.ty=1",
    "decl.model", "model.pub=0", "model.pub=1", "model.decorators=0", "model.decorators=1", "model.type_params=0", "model.type_params=1",
    "model.traits=0", "model.traits=1", "model.fields=0", "model.fields=1", "model.methods=0", "model.methods=1",
    "decl.class", "class.pub=0", "class.pub=1", "class.decorators=0", "class.decorators=1", "class.type_params=0", "class.type_params=1",
    "class.extends=0", "class.extends=1", "class.traits=0", "class.traits=1", "class.fields=0", "class.fields=1", "class.methods=0", "class.methods=1",
    "decl.trait", "trait.pub=0", "trait.pub=1", "trait.decorators=0", "trait.decorators=1", "trait.type_params=0", "trait.type_params=1",
    "trait.methods=0", "trait.methods=1",
    "decl.newtype", "newtype.pub=0", "newtype.pub=1", "newtype.methods=0", "newtype.methods=1",
    "decl.enum", "enum.pub=0", "enum.pub=1", "enum.type_params=0", "enum.type_params=1", "variant.fields=0", "variant.fields=1",
    "decl.function", "fn.pub=0", "fn.pub=1", "fn.decorators=0", "fn.decorators=1", "fn.async=0", "fn.async=1", "fn.type_params=0", "fn.type_params=1",
    "fn.params=0", "fn.params=1",
    "decl.docstring", "docstring.multiline", "docstring.empty", "docstring.special",
    "field.pub=0", "field.pub=1", "field.default=0", "field.default=1",
    "method.decorators=0", "method.decorators=1", "method.async=0", "method.async=1", "method.receiver.none", "method.receiver.self",
    "method.receiver.mut_self", "method.params=0", "method.params=1", "method.body=0", "method.body=1",
    "param.mut=0", "param.mut=1", "param.default=0", "param.default=1",
    "decorator.args=0", "decorator.args=1", "decorator.arg.positional", "decorator.arg.named_expr", "decorator.arg.named_type",
    // types
    "type.simple", "type.none_kw", "type.generic", "type.generic.empty", "type.function", "type.unit", "type.tuple", "type.tuple.single", "type.self",
    // statements
    "stmt.assign.inferred", "stmt.assign.let", "stmt.assign.mut", "assign.ty=0", "assign.ty=1", "stmt.field_assign", "stmt.index_assign",
    "assign.compound_target",
    "stmt.return", "return.value=0", "return.value=1", "stmt.if", "if.elif=0", "if.elif=1", "if.else=0", "if.else=1", "stmt.while", "stmt.for",
    "stmt.expr", "stmt.pass", "stmt.break", "stmt.continue",
    "stmt.compound.add", "stmt.compound.sub", "stmt.compound.mul", "stmt.compound.div", "stmt.compound.floordiv", "stmt.compound.mod",
    "stmt.tuple_unpack.inferred", "stmt.tuple_unpack.let", "stmt.tuple_unpack.mut", "stmt.tuple_assign",
    "stmt.chained", "stmt.chained.inferred", "stmt.chained.let", "stmt.chained.mut", "binding.reassign",
    // expressions
    "expr.ident", "expr.literal", "expr.self",
    "expr.binary.add", "expr.binary.sub", "expr.binary.mul", "expr.binary.div", "expr.binary.floordiv", "expr.binary.mod", "expr.binary.pow",
    "expr.binary.eq", "expr.binary.noteq", "expr.binary.lt", "expr.binary.gt", "expr.binary.lteq", "expr.binary.gteq", "expr.binary.and",
    "expr.binary.or", "expr.binary.in", "expr.binary.notin", "expr.binary.is",
    "expr.unary.neg", "expr.unary.not", "expr.call", "call.arg.positional", "call.arg.named", "call.args=0", "expr.index", "expr.slice",
    "slice.start=0", "slice.start=1", "slice.end=0", "slice.end=1", "slice.step=0", "slice.step=1", "slice.step_no_end",
    "expr.field", "expr.field.tuple_index", "expr.method_call", "expr.await", "expr.try", "expr.match", "expr.if", "ifexpr.else=0", "ifexpr.else=1",
    "expr.list_comp", "expr.dict_comp", "comp.filter=0", "comp.filter=1", "expr.closure", "closure.params=0", "closure.params=1",
    "closure.param.typed", "expr.tuple", "tuple.len=0", "tuple.len=1", "tuple.len>1", "expr.list", "expr.dict", "expr.set", "expr.paren",
    "expr.constructor", "expr.fstring", "fstring.part.literal", "fstring.part.expr", "fstring.literal_special", "expr.yield", "yield.value=0",
    "yield.value=1", "expr.range.exclusive", "expr.range.inclusive",
    // literals
    "lit.int", "lit.float", "lit.float.integral", "lit.string", "lit.string.multiline", "lit.string.escapes", "lit.string.non_ascii",
    "lit.bytes", "lit.bytes.special", "lit.bytes.nonprintable", "lit.bool.true", "lit.bool.false", "lit.none",
    // match
    "arm.guard=0", "arm.guard=1", "arm.body.expr", "arm.body.block",
    "pattern.wildcard", "pattern.binding", "pattern.literal", "pattern.constructor", "pattern.qualified", "pattern.ctor.args=0", "pattern.ctor.args=1",
    "pattern.tuple",
    // structure (C09's interaction classes)
    "shape.paren_arm_after_block_arm", "shape.block_expr_ends_file", "shape.nested_block_ends_body", "shape.match_statement", "shape.block_expr_value",
    // surface (renderer only)
    "surface.indent.2", "surface.indent.4", "surface.indent.tab", "surface.final_newline.0", "surface.final_newline.1", "surface.final_newline.2",
    "surface.comment", "surface.int_underscore", "surface.quote.double", "surface.quote.single", "surface.quote.triple_double",
    "surface.quote.triple_single", "surface.string.raw_newline", "surface.bytes.single", "surface.bytes.double", "surface.fstring.single",
    "surface.fstring.double", "surface.fstring.brace_escape", "surface.bool_alias", "surface.type.tuple_parens", "surface.type.paren",
    "surface.trailing_comma", "surface.multiline_brackets", "surface.slice.trailing_colon", "surface.pass_ellipsis", "surface.arm.case_block",
    "surface.arm.case_inline", "surface.arm.arrow_block", "surface.arm.arrow_inline", "surface.compound_on_field", "surface.compound_on_index",
    "surface.decorator.empty_parens", "surface.fn_alias", "surface.method.abstract_newline", "surface.method.abstract_ellipsis",
    "surface.import.dot_sep", "surface.import.dots", "surface.import.super_kw", "surface.newtype.type_newtype", "surface.newtype.newtype_kw",
    "surface.newtype.type_plain",
];

struct S {
    t: BTreeSet<Tag>,
}

fn b(flag: bool, zero: Tag, one: Tag) -> Tag {
    if flag {
        one
    } else {
        zero
    }
}

/// Scan a parsed program.
pub fn ast_tags(p: &Program) -> BTreeSet<Tag> {
    let mut s = S { t: BTreeSet::new() };
    for d in &p.declarations {
        s.decl(&d.node);
    }
    if p.declarations.last().is_some_and(|d| decl_ends_with_block_expr(&d.node)) {
        s.add("shape.block_expr_ends_file");
    }
    s.t
}

/// Is the textually last statement of the declaration (following nested bodies) a `match` / `if` *expression*?
fn decl_ends_with_block_expr(d: &Declaration) -> bool {
    let methods = |m: &[Spanned<MethodDecl>]| m.last().and_then(|m| m.node.body.as_ref()).is_some_and(|b| body_ends_with_block_expr(b));
    match d {
        Declaration::Function(f) => body_ends_with_block_expr(&f.body),
        Declaration::Model(m) => methods(&m.methods),
        Declaration::Class(c) => methods(&c.methods),
        Declaration::Trait(t) => methods(&t.methods),
        Declaration::Newtype(n) => methods(&n.methods),
        Declaration::Const(c) => is_block_expr(&c.value.node),
        _ => false,
    }
}

fn body_ends_with_block_expr(b: &[Spanned<Statement>]) -> bool {
    match b.last().map(|s| &s.node) {
        Some(Statement::If(i)) => {
            let last = i.else_body.as_ref().or_else(|| i.elif_branches.last().map(|(_, b)| b)).unwrap_or(&i.then_body);
            body_ends_with_block_expr(last)
        }
        Some(Statement::While(w)) => body_ends_with_block_expr(&w.body),
        Some(Statement::For(f)) => body_ends_with_block_expr(&f.body),
        Some(s) => stmt_has_block_expr(s),
        None => false,
    }
}

impl S {
    fn add(&mut self, t: Tag) {
        self.t.insert(t);
    }

    fn decl(&mut self, d: &Declaration) {
        match d {
            Declaration::Import(i) => self.import(i),
            Declaration::Const(c) => {
                self.add("decl.const");
                self.add(b(c.visibility == Visibility::Public, "const.pub=0", "const.pub=1"));
                self.add(b(c.ty.is_some(), "const.ty=0", "const.ty=1"));
                if let Some(t) = &c.ty {
                    self.ty(&t.node);
                }
                self.expr(&c.value.node);
            }
            Declaration::Model(m) => {
                self.add("decl.model");
                self.add(b(m.visibility == Visibility::Public, "model.pub=0", "model.pub=1"));
                self.add(b(!m.decorators.is_empty(), "model.decorators=0", "model.decorators=1"));
                self.add(b(!m.type_params.is_empty(), "model.type_params=0", "model.type_params=1"));
                self.add(b(!m.traits.is_empty(), "model.traits=0", "model.traits=1"));
                self.add(b(!m.fields.is_empty(), "model.fields=0", "model.fields=1"));
                self.add(b(!m.methods.is_empty(), "model.methods=0", "model.methods=1"));
                self.decorators(&m.decorators);
                self.members(&m.fields, &m.methods);
            }
            Declaration::Class(c) => {
                self.add("decl.class");
                self.add(b(c.visibility == Visibility::Public, "class.pub=0", "class.pub=1"));
                self.add(b(!c.decorators.is_empty(), "class.decorators=0", "class.decorators=1"));
                self.add(b(!c.type_params.is_empty(), "class.type_params=0", "class.type_params=1"));
                self.add(b(c.extends.is_some(), "class.extends=0", "class.extends=1"));
                self.add(b(!c.traits.is_empty(), "class.traits=0", "class.traits=1"));
                self.add(b(!c.fields.is_empty(), "class.fields=0", "class.fields=1"));
                self.add(b(!c.methods.is_empty(), "class.methods=0", "class.methods=1"));
                self.decorators(&c.decorators);
                self.members(&c.fields, &c.methods);
            }
            Declaration::Trait(t) => {
                self.add("decl.trait");
                self.add(b(t.visibility == Visibility::Public, "trait.pub=0", "trait.pub=1"));
                self.add(b(!t.decorators.is_empty(), "trait.decorators=0", "trait.decorators=1"));
                self.add(b(!t.type_params.is_empty(), "trait.type_params=0", "trait.type_params=1"));
                self.add(b(!t.methods.is_empty(), "trait.methods=0", "trait.methods=1"));
                self.decorators(&t.decorators);
                self.members(&[], &t.methods);
            }
            Declaration::Newtype(n) => {
                self.add("decl.newtype");
                self.add(b(n.visibility == Visibility::Public, "newtype.pub=0", "newtype.pub=1"));
                self.add(b(!n.methods.is_empty(), "newtype.methods=0", "newtype.methods=1"));
                self.ty(&n.underlying.node);
                self.members(&[], &n.methods);
            }
            Declaration::Enum(e) => {
                self.add("decl.enum");
                self.add(b(e.visibility == Visibility::Public, "enum.pub=0", "enum.pub=1"));
                self.add(b(!e.type_params.is_empty(), "enum.type_params=0", "enum.type_params=1"));
                for v in &e.variants {
                    self.add(b(!v.node.fields.is_empty(), "variant.fields=0", "variant.fields=1"));
                    for f in &v.node.fields {
                        self.ty(&f.node);
                    }
                }
            }
            Declaration::Function(f) => {
                self.add("decl.function");
                self.add(b(f.visibility == Visibility::Public, "fn.pub=0", "fn.pub=1"));
                self.add(b(!f.decorators.is_empty(), "fn.decorators=0", "fn.decorators=1"));
                self.add(b(f.is_async, "fn.async=0", "fn.async=1"));
                self.add(b(!f.type_params.is_empty(), "fn.type_params=0", "fn.type_params=1"));
                self.add(b(!f.params.is_empty(), "fn.params=0", "fn.params=1"));
                self.decorators(&f.decorators);
                self.params(&f.params, false);
                self.ty(&f.return_type.node);
                self.body(&f.body);
            }
            Declaration::Docstring(doc) => {
                self.add("decl.docstring");
                let t = doc.trim();
                if t.is_empty() {
                    self.add("docstring.empty");
                }
                if t.contains('\n') {
                    self.add("docstring.multiline");
                }
                if doc.contains('"') || doc.contains('\\') {
                    self.add("docstring.special");
                }
            }
        }
    }

    fn import(&mut self, i: &ImportDecl) {
        let mut path = |s: &mut S, p: &ImportPath| {
            if p.parent_levels > 0 {
                s.add("import.path.parent");
            }
            if p.is_absolute {
                s.add("import.path.absolute");
            }
            if p.segments.is_empty() {
                s.add(if p.is_absolute { "import.path.crate_bare" } else { "import.path.empty" });
            }
        };
        let items = |s: &mut S, items: &[ImportItem]| {
            for it in items {
                s.add(b(it.alias.is_some(), "import.item_alias=0", "import.item_alias=1"));
            }
        };
        match &i.kind {
            ImportKind::Module(p) => {
                self.add("decl.import.module");
                path(self, p);
                self.add(b(i.alias.is_some(), "import.alias=0", "import.alias=1"));
            }
            ImportKind::From { module, items: it } => {
                self.add("decl.import.from");
                path(self, module);
                items(self, it);
            }
            ImportKind::Python(pkg) => {
                self.add("decl.import.python");
                if pkg.contains('"') || pkg.contains('\\') || pkg.contains('\n') {
                    self.add("import.python.special");
                }
                self.add(b(i.alias.is_some(), "import.alias=0", "import.alias=1"));
            }
            ImportKind::RustCrate { path: p, .. } => {
                self.add("decl.import.rust_crate");
                self.add(b(!p.is_empty(), "import.rust_path=0", "import.rust_path=1"));
                self.add(b(i.alias.is_some(), "import.alias=0", "import.alias=1"));
            }
            ImportKind::RustFrom { path: p, items: it, .. } => {
                self.add("decl.import.rust_from");
                self.add(b(!p.is_empty(), "import.rust_path=0", "import.rust_path=1"));
                items(self, it);
            }
        }
    }

    fn decorators(&mut self, ds: &[Spanned<Decorator>]) {
        for d in ds {
            self.add(b(!d.node.args.is_empty(), "decorator.args=0", "decorator.args=1"));
            for a in &d.node.args {
                match a {
                    DecoratorArg::Positional(e) => {
                        self.add("decorator.arg.positional");
                        self.expr(&e.node);
                    }
                    DecoratorArg::Named(_, DecoratorArgValue::Expr(e)) => {
                        self.add("decorator.arg.named_expr");
                        self.expr(&e.node);
                    }
                    DecoratorArg::Named(_, DecoratorArgValue::Type(t)) => {
                        self.add("decorator.arg.named_type");
                        self.ty(&t.node);
                    }
                }
            }
        }
    }

    fn members(&mut self, fields: &[Spanned<FieldDecl>], methods: &[Spanned<MethodDecl>]) {
        for f in fields {
            self.add(b(f.node.visibility == Visibility::Public, "field.pub=0", "field.pub=1"));
            self.add(b(f.node.default.is_some(), "field.default=0", "field.default=1"));
            self.ty(&f.node.ty.node);
            if let Some(d) = &f.node.default {
                self.expr(&d.node);
            }
        }
        for m in methods {
            let m = &m.node;
            self.add(b(!m.decorators.is_empty(), "method.decorators=0", "method.decorators=1"));
            self.add(b(m.is_async, "method.async=0", "method.async=1"));
            self.add(match m.receiver {
                None => "method.receiver.none",
                Some(Receiver::Immutable) => "method.receiver.self",
                Some(Receiver::Mutable) => "method.receiver.mut_self",
            });
            self.add(b(!m.params.is_empty(), "method.params=0", "method.params=1"));
            self.add(b(m.body.is_some(), "method.body=0", "method.body=1"));
            self.decorators(&m.decorators);
            self.params(&m.params, false);
            self.ty(&m.return_type.node);
            if let Some(body) = &m.body {
                self.body(body);
            }
        }
    }

    fn params(&mut self, ps: &[Spanned<Param>], closure: bool) {
        for p in ps {
            if closure {
                if !matches!(&p.node.ty.node, Type::Simple(n) if n == "_") {
                    self.add("closure.param.typed");
                }
                continue;
            }
            self.add(b(p.node.is_mut, "param.mut=0", "param.mut=1"));
            self.add(b(p.node.default.is_some(), "param.default=0", "param.default=1"));
            self.ty(&p.node.ty.node);
            if let Some(d) = &p.node.default {
                self.expr(&d.node);
            }
        }
    }

    fn ty(&mut self, t: &Type) {
        match t {
            Type::Simple(n) => self.add(if n == "None" { "type.none_kw" } else { "type.simple" }),
            Type::Generic(_, args) => {
                self.add("type.generic");
                if args.is_empty() {
                    self.add("type.generic.empty");
                }
                for a in args {
                    self.ty(&a.node);
                }
            }
            Type::Function(ps, r) => {
                self.add("type.function");
                for a in ps {
                    self.ty(&a.node);
                }
                self.ty(&r.node);
            }
            Type::Unit => self.add("type.unit"),
            Type::Tuple(items) => {
                self.add("type.tuple");
                if items.len() == 1 {
                    self.add("type.tuple.single");
                }
                for a in items {
                    self.ty(&a.node);
                }
            }
            Type::SelfType => self.add("type.self"),
        }
    }

    /// a statement list that forms the body of a declaration / compound statement
    fn body(&mut self, stmts: &[Spanned<Statement>]) {
        if let Some(last) = stmts.last() {
            if matches!(last.node, Statement::If(_) | Statement::While(_) | Statement::For(_)) || stmt_has_block_expr(&last.node) {
                self.add("shape.nested_block_ends_body");
            }
        }
        for s in stmts {
            self.stmt(&s.node);
        }
    }

    fn binding(&mut self, k: BindingKind, inferred: Tag, let_: Tag, mut_: Tag) {
        self.add(match k {
            BindingKind::Inferred => inferred,
            BindingKind::Let => let_,
            BindingKind::Mutable => mut_,
            BindingKind::Reassign => "binding.reassign",
        });
    }

    fn stmt(&mut self, s: &Statement) {
        match s {
            Statement::Assignment(a) => {
                self.binding(a.binding, "stmt.assign.inferred", "stmt.assign.let", "stmt.assign.mut");
                self.add(b(a.ty.is_some(), "assign.ty=0", "assign.ty=1"));
                if let Some(t) = &a.ty {
                    self.ty(&t.node);
                }
                if is_block_expr(&a.value.node) {
                    self.add("shape.block_expr_value");
                }
                self.expr(&a.value.node);
            }
            Statement::FieldAssignment(a) => {
                self.add("stmt.field_assign");
                if let Expr::Binary(l, op, r) = &a.value.node {
                    if let Expr::Field(o, f) = &l.node {
                        if *f == a.field && same_shape(&o.node, &a.object.node) && binds_looser(&r.node, *op) {
                            self.add("assign.compound_target");
                        }
                    }
                }
                self.expr(&a.object.node);
                self.expr(&a.value.node);
            }
            Statement::IndexAssignment(a) => {
                self.add("stmt.index_assign");
                if let Expr::Binary(l, op, r) = &a.value.node {
                    if let Expr::Index(o, i) = &l.node {
                        if same_shape(&o.node, &a.object.node) && same_shape(&i.node, &a.index.node) && binds_looser(&r.node, *op) {
                            self.add("assign.compound_target");
                        }
                    }
                }
                self.expr(&a.object.node);
                self.expr(&a.index.node);
                self.expr(&a.value.node);
            }
            Statement::Return(v) => {
                self.add("stmt.return");
                self.add(b(v.is_some(), "return.value=0", "return.value=1"));
                if let Some(v) = v {
                    if is_block_expr(&v.node) {
                        self.add("shape.block_expr_value");
                    }
                    self.expr(&v.node);
                }
            }
            Statement::If(i) => {
                self.add("stmt.if");
                self.add(b(!i.elif_branches.is_empty(), "if.elif=0", "if.elif=1"));
                self.add(b(i.else_body.is_some(), "if.else=0", "if.else=1"));
                self.expr(&i.condition.node);
                self.body(&i.then_body);
                for (c, body) in &i.elif_branches {
                    self.expr(&c.node);
                    self.body(body);
                }
                if let Some(e) = &i.else_body {
                    self.body(e);
                }
            }
            Statement::While(w) => {
                self.add("stmt.while");
                self.expr(&w.condition.node);
                self.body(&w.body);
            }
            Statement::For(f) => {
                self.add("stmt.for");
                self.expr(&f.iter.node);
                self.body(&f.body);
            }
            Statement::Expr(e) => {
                self.add("stmt.expr");
                if matches!(e.node, Expr::Match(..)) {
                    self.add("shape.match_statement");
                }
                self.expr(&e.node);
            }
            Statement::Pass => self.add("stmt.pass"),
            Statement::Break => self.add("stmt.break"),
            Statement::Continue => self.add("stmt.continue"),
            Statement::CompoundAssignment(c) => {
                self.add(match c.op {
                    CompoundOp::Add => "stmt.compound.add",
                    CompoundOp::Sub => "stmt.compound.sub",
                    CompoundOp::Mul => "stmt.compound.mul",
                    CompoundOp::Div => "stmt.compound.div",
                    CompoundOp::FloorDiv => "stmt.compound.floordiv",
                    CompoundOp::Mod => "stmt.compound.mod",
                });
                self.expr(&c.value.node);
            }
            Statement::TupleUnpack(t) => {
                self.binding(t.binding, "stmt.tuple_unpack.inferred", "stmt.tuple_unpack.let", "stmt.tuple_unpack.mut");
                self.expr(&t.value.node);
            }
            Statement::TupleAssign(t) => {
                self.add("stmt.tuple_assign");
                for x in &t.targets {
                    self.expr(&x.node);
                }
                self.expr(&t.value.node);
            }
            Statement::ChainedAssignment(c) => {
                self.add("stmt.chained");
                self.binding(c.binding, "stmt.chained.inferred", "stmt.chained.let", "stmt.chained.mut");
                self.expr(&c.value.node);
            }
        }
    }

    fn args(&mut self, args: &[CallArg]) {
        if args.is_empty() {
            self.add("call.args=0");
        }
        for a in args {
            match a {
                CallArg::Positional(e) => {
                    self.add("call.arg.positional");
                    self.expr(&e.node);
                }
                CallArg::Named(_, e) => {
                    self.add("call.arg.named");
                    self.expr(&e.node);
                }
            }
        }
    }

    fn lit(&mut self, l: &Literal) {
        match l {
            Literal::Int(_) => self.add("lit.int"),
            Literal::Float(f) => {
                self.add("lit.float");
                if f.fract() == 0.0 || !f.is_finite() {
                    self.add("lit.float.integral");
                }
            }
            Literal::String(s) => {
                self.add("lit.string");
                if s.contains('\n') {
                    self.add("lit.string.multiline");
                }
                if s.contains(['\\', '"', '\t', '\r', '\n']) {
                    self.add("lit.string.escapes");
                }
                if !s.is_ascii() {
                    self.add("lit.string.non_ascii");
                }
            }
            Literal::Bytes(v) => {
                self.add("lit.bytes");
                if v.iter().any(|c| *c == b'"' || *c == b'\\') {
                    self.add("lit.bytes.special");
                }
                if v.iter().any(|c| *c < 32 || *c >= 127) {
                    self.add("lit.bytes.nonprintable");
                }
            }
            Literal::Bool(true) => self.add("lit.bool.true"),
            Literal::Bool(false) => self.add("lit.bool.false"),
            Literal::None => self.add("lit.none"),
        }
    }

    fn pat(&mut self, p: &Pattern) {
        match p {
            Pattern::Wildcard => self.add("pattern.wildcard"),
            Pattern::Binding(_) => self.add("pattern.binding"),
            Pattern::Literal(l) => {
                self.add("pattern.literal");
                self.lit(l);
            }
            Pattern::Constructor(name, args) => {
                self.add("pattern.constructor");
                if name.contains("::") {
                    self.add("pattern.qualified");
                } else {
                    self.add(b(!args.is_empty(), "pattern.ctor.args=0", "pattern.ctor.args=1"));
                }
                for a in args {
                    self.pat(&a.node);
                }
            }
            Pattern::Tuple(items) => {
                self.add("pattern.tuple");
                for a in items {
                    self.pat(&a.node);
                }
            }
        }
    }

    fn expr(&mut self, e: &Expr) {
        match e {
            Expr::Ident(_) => self.add("expr.ident"),
            Expr::Literal(l) => {
                self.add("expr.literal");
                self.lit(l);
            }
            Expr::SelfExpr => self.add("expr.self"),
            Expr::Binary(l, op, r) => {
                self.add(match op {
                    BinaryOp::Add => "expr.binary.add",
                    BinaryOp::Sub => "expr.binary.sub",
                    BinaryOp::Mul => "expr.binary.mul",
                    BinaryOp::Div => "expr.binary.div",
                    BinaryOp::FloorDiv => "expr.binary.floordiv",
                    BinaryOp::Mod => "expr.binary.mod",
                    BinaryOp::Pow => "expr.binary.pow",
                    BinaryOp::Eq => "expr.binary.eq",
                    BinaryOp::NotEq => "expr.binary.noteq",
                    BinaryOp::Lt => "expr.binary.lt",
                    BinaryOp::Gt => "expr.binary.gt",
                    BinaryOp::LtEq => "expr.binary.lteq",
                    BinaryOp::GtEq => "expr.binary.gteq",
                    BinaryOp::And => "expr.binary.and",
                    BinaryOp::Or => "expr.binary.or",
                    BinaryOp::In => "expr.binary.in",
                    BinaryOp::NotIn => "expr.binary.notin",
                    BinaryOp::Is => "expr.binary.is",
                });
                self.expr(&l.node);
                self.expr(&r.node);
            }
            Expr::Unary(op, x) => {
                self.add(match op {
                    UnaryOp::Neg => "expr.unary.neg",
                    UnaryOp::Not => "expr.unary.not",
                });
                self.expr(&x.node);
            }
            Expr::Call(f, a) => {
                self.add("expr.call");
                self.expr(&f.node);
                self.args(a);
            }
            Expr::Index(x, i) => {
                self.add("expr.index");
                self.expr(&x.node);
                self.expr(&i.node);
            }
            Expr::Slice(x, s) => {
                self.add("expr.slice");
                self.add(b(s.start.is_some(), "slice.start=0", "slice.start=1"));
                self.add(b(s.end.is_some(), "slice.end=0", "slice.end=1"));
                self.add(b(s.step.is_some(), "slice.step=0", "slice.step=1"));
                if s.step.is_some() && s.end.is_none() {
                    self.add("slice.step_no_end");
                }
                self.expr(&x.node);
                for part in [&s.start, &s.end, &s.step].into_iter().flatten() {
                    self.expr(&part.node);
                }
            }
            Expr::Field(x, name) => {
                self.add("expr.field");
                if name.chars().all(|c| c.is_ascii_digit()) {
                    self.add("expr.field.tuple_index");
                }
                self.expr(&x.node);
            }
            Expr::MethodCall(x, _, a) => {
                self.add("expr.method_call");
                self.expr(&x.node);
                self.args(a);
            }
            Expr::Await(x) => {
                self.add("expr.await");
                self.expr(&x.node);
            }
            Expr::Try(x) => {
                self.add("expr.try");
                self.expr(&x.node);
            }
            Expr::Match(subject, arms) => {
                self.add("expr.match");
                self.expr(&subject.node);
                for w in arms.windows(2) {
                    if matches!(&w[0].node.body, MatchBody::Expr(e) if is_block_expr(&e.node)) && matches!(w[1].node.pattern.node, Pattern::Tuple(_)) {
                        self.add("shape.paren_arm_after_block_arm");
                    }
                }
                for a in arms {
                    self.pat(&a.node.pattern.node);
                    self.add(b(a.node.guard.is_some(), "arm.guard=0", "arm.guard=1"));
                    if let Some(g) = &a.node.guard {
                        self.expr(&g.node);
                    }
                    match &a.node.body {
                        MatchBody::Expr(e) => {
                            self.add("arm.body.expr");
                            self.expr(&e.node);
                        }
                        MatchBody::Block(b) => {
                            self.add("arm.body.block");
                            self.body(b);
                        }
                    }
                }
            }
            Expr::If(i) => {
                self.add("expr.if");
                self.add(b(i.else_body.is_some(), "ifexpr.else=0", "ifexpr.else=1"));
                self.expr(&i.condition.node);
                self.body(&i.then_body);
                if let Some(e) = &i.else_body {
                    self.body(e);
                }
            }
            Expr::ListComp(c) => {
                self.add("expr.list_comp");
                self.add(b(c.filter.is_some(), "comp.filter=0", "comp.filter=1"));
                self.expr(&c.expr.node);
                self.expr(&c.iter.node);
                if let Some(f) = &c.filter {
                    self.expr(&f.node);
                }
            }
            Expr::DictComp(c) => {
                self.add("expr.dict_comp");
                self.add(b(c.filter.is_some(), "comp.filter=0", "comp.filter=1"));
                self.expr(&c.key.node);
                self.expr(&c.value.node);
                self.expr(&c.iter.node);
                if let Some(f) = &c.filter {
                    self.expr(&f.node);
                }
            }
            Expr::Closure(ps, body) => {
                self.add("expr.closure");
                self.add(b(!ps.is_empty(), "closure.params=0", "closure.params=1"));
                self.params(ps, true);
                self.expr(&body.node);
            }
            Expr::Tuple(items) => {
                self.add("expr.tuple");
                self.add(match items.len() {
                    0 => "tuple.len=0",
                    1 => "tuple.len=1",
                    _ => "tuple.len>1",
                });
                for x in items {
                    self.expr(&x.node);
                }
            }
            Expr::List(items) => {
                self.add("expr.list");
                for x in items {
                    self.expr(&x.node);
                }
            }
            Expr::Dict(items) => {
                self.add("expr.dict");
                for (k, v) in items {
                    self.expr(&k.node);
                    self.expr(&v.node);
                }
            }
            Expr::Set(items) => {
                self.add("expr.set");
                for x in items {
                    self.expr(&x.node);
                }
            }
            Expr::Paren(x) => {
                self.add("expr.paren");
                self.expr(&x.node);
            }
            Expr::Constructor(_, a) => {
                self.add("expr.constructor");
                self.args(a);
            }
            Expr::FString(parts) => {
                self.add("expr.fstring");
                for p in parts {
                    match p {
                        FStringPart::Literal(s) => {
                            self.add("fstring.part.literal");
                            if s.contains(['{', '}', '"', '\\', '\n', '\r', '\t']) {
                                self.add("fstring.literal_special");
                            }
                        }
                        FStringPart::Expr(e) => {
                            self.add("fstring.part.expr");
                            self.expr(&e.node);
                        }
                    }
                }
            }
            Expr::Yield(v) => {
                self.add("expr.yield");
                self.add(b(v.is_some(), "yield.value=0", "yield.value=1"));
                if let Some(v) = v {
                    self.expr(&v.node);
                }
            }
            Expr::Range { start, end, inclusive } => {
                self.add(b(*inclusive, "expr.range.exclusive", "expr.range.inclusive"));
                self.expr(&start.node);
                self.expr(&end.node);
            }
        }
    }
}

fn is_block_expr(e: &Expr) -> bool {
    matches!(e, Expr::Match(..) | Expr::If(..))
}

fn stmt_has_block_expr(s: &Statement) -> bool {
    match s {
        Statement::Assignment(a) => is_block_expr(&a.value.node),
        Statement::Return(Some(v)) => is_block_expr(&v.node),
        Statement::Expr(e) => is_block_expr(&e.node),
        _ => false,
    }
}

/// span-insensitive structural equality (via Debug text with spans removed)
fn same_shape(a: &Expr, b: &Expr) -> bool {
    crate::astcanon::strip_spans(&format!("{a:?}")) == crate::astcanon::strip_spans(&format!("{b:?}"))
}

fn expr_level(e: &Expr) -> u8 {
    match e {
        Expr::Closure(..) | Expr::Yield(..) | Expr::Match(..) | Expr::If(..) => 0,
        Expr::Binary(_, op, _) => match op {
            BinaryOp::Or => 1,
            BinaryOp::And => 2,
            BinaryOp::Eq | BinaryOp::NotEq | BinaryOp::Lt | BinaryOp::Gt | BinaryOp::LtEq | BinaryOp::GtEq | BinaryOp::In | BinaryOp::NotIn | BinaryOp::Is => 4,
            BinaryOp::Add | BinaryOp::Sub => 6,
            BinaryOp::Mul | BinaryOp::Div | BinaryOp::FloorDiv | BinaryOp::Mod => 7,
            BinaryOp::Pow => 8,
        },
        Expr::Unary(UnaryOp::Not, _) => 3,
        Expr::Range { .. } => 5,
        Expr::Unary(UnaryOp::Neg, _) | Expr::Await(_) => 9,
        _ => 10,
    }
}

/// would `lhs op rhs`, printed without parentheses, regroup?
fn binds_looser(rhs: &Expr, op: BinaryOp) -> bool {
    let op_level = match op {
        BinaryOp::Add | BinaryOp::Sub => 6,
        _ => 7,
    };
    expr_level(rhs) <= op_level
}
