//! Harness tree -> source text. Parentheses are inserted wherever the parser's precedence ladder needs them, so the
//! text always means the tree (up to the extra `Paren` nodes). Emits `surface.*` tags for spellings the AST erases.

use super::tree::*;
use super::Tag;
use std::collections::BTreeSet;

pub struct R {
    out: String,
    level: usize,
    unit: &'static str,
    pub tags: BTreeSet<Tag>,
    comments: bool,
    counter: usize,
    /// the last line was an abstract method header that needs a NEWLINE token after it
    needs_final_nl: bool,
}

pub fn render_program(p: &GProgram) -> (String, BTreeSet<Tag>) {
    let mut r = R {
        out: String::new(),
        level: 0,
        unit: match p.layout.indent {
            Indent::Two => "  ",
            Indent::Four => "    ",
            Indent::Tab => "\t",
        },
        tags: BTreeSet::new(),
        comments: p.layout.comments,
        counter: 0,
        needs_final_nl: false,
    };
    r.tags.insert(match p.layout.indent {
        Indent::Two => "surface.indent.2",
        Indent::Four => "surface.indent.4",
        Indent::Tab => "surface.indent.tab",
    });
    if p.layout.leading_blank {
        r.out.push('\n');
    }
    for (i, d) in p.decls.iter().enumerate() {
        if i > 0 {
            for _ in 0..p.layout.blank_lines {
                r.out.push('\n');
            }
        }
        r.decl(d);
    }
    while r.out.ends_with('\n') {
        r.out.pop();
    }
    let mut n = p.layout.final_newlines as usize;
    if r.needs_final_nl && n == 0 {
        n = 1;
    }
    if r.out.is_empty() {
        n = n.min(1);
    }
    for _ in 0..n {
        r.out.push('\n');
    }
    match n {
        0 => r.tag("surface.final_newline.0"),
        1 => r.tag("surface.final_newline.1"),
        _ => r.tag("surface.final_newline.2"),
    }
    (r.out, r.tags)
}

impl R {
    fn tag(&mut self, t: Tag) {
        self.tags.insert(t);
    }

    fn pad(&self) -> String {
        self.unit.repeat(self.level)
    }

    fn line(&mut self, s: &str) {
        self.counter += 1;
        if self.comments && self.counter % 5 == 2 {
            let c = format!("{}# note {}\n", self.pad(), self.counter);
            self.out.push_str(&c);
            self.tag("surface.comment");
        }
        let pad = self.pad();
        self.out.push_str(&pad);
        self.out.push_str(s);
        if self.comments && self.counter % 7 == 3 {
            self.out.push_str("  # eol: x = \"1\"");
            self.tag("surface.comment");
        }
        self.out.push('\n');
        self.needs_final_nl = false;
    }

    // ---------------------------------------------------------------------------------------------- literals

    fn int(&mut self, v: u64, underscores: bool) -> String {
        let s = v.to_string();
        if underscores && s.len() > 3 {
            self.tag("surface.int_underscore");
            let mut out = String::new();
            for (i, c) in s.chars().enumerate() {
                if i > 0 && (s.len() - i) % 3 == 0 {
                    out.push('_');
                }
                out.push(c);
            }
            out
        } else {
            s
        }
    }

    pub fn gstr(&mut self, s: &GStr) -> String {
        let (delim, qc, other, triple) = match s.quote {
            Quote::D => ("\"", '"', '\'', false),
            Quote::S => ("'", '\'', '"', false),
            Quote::TD => ("\"\"\"", '"', '\'', true),
            Quote::TS => ("'''", '\'', '"', true),
        };
        self.tag(match s.quote {
            Quote::D => "surface.quote.double",
            Quote::S => "surface.quote.single",
            Quote::TD => "surface.quote.triple_double",
            Quote::TS => "surface.quote.triple_single",
        });
        let mut out = String::from(delim);
        for p in &s.pieces {
            match p {
                SPiece::Text(t) => out.push_str(t),
                SPiece::Esc(c) => {
                    out.push('\\');
                    out.push(*c);
                }
                SPiece::QuoteSame => {
                    out.push('\\');
                    out.push(qc);
                }
                SPiece::QuoteOther => out.push(other),
                SPiece::Unknown(c) => {
                    out.push('\\');
                    out.push(*c);
                }
                SPiece::Newline => {
                    if triple {
                        out.push('\n');
                        self.tag("surface.string.raw_newline");
                    } else {
                        out.push_str("\\n");
                    }
                }
                SPiece::Brace(c) => out.push(*c),
            }
        }
        out.push_str(delim);
        out
    }

    fn gbytes(&mut self, b: &GBytes) -> String {
        let (qc, other) = if b.single { ('\'', '"') } else { ('"', '\'') };
        self.tag(if b.single { "surface.bytes.single" } else { "surface.bytes.double" });
        let mut out = format!("b{qc}");
        for p in &b.pieces {
            match p {
                BPiece::Text(t) => out.push_str(t),
                BPiece::Esc(c) | BPiece::Unknown(c) => {
                    out.push('\\');
                    out.push(*c);
                }
                BPiece::Backslash => out.push_str("\\\\"),
                BPiece::QuoteSame => {
                    out.push('\\');
                    out.push(qc);
                }
                BPiece::QuoteOther => out.push(other),
                BPiece::Hex(h) => out.push_str(&format!("\\x{h:02x}")),
            }
        }
        out.push(qc);
        out
    }

    fn gfstr(&mut self, f: &GFStr) -> String {
        let (qc, other) = if f.single { ('\'', '"') } else { ('"', '\'') };
        self.tag(if f.single { "surface.fstring.single" } else { "surface.fstring.double" });
        let mut out = format!("f{qc}");
        for p in &f.parts {
            match p {
                FPart::Text(t) => out.push_str(t),
                FPart::Esc(c) => {
                    out.push('\\');
                    out.push(*c);
                }
                FPart::Brace(c) => {
                    out.push(*c);
                    out.push(*c);
                    self.tag("surface.fstring.brace_escape");
                }
                FPart::QuoteSame => {
                    out.push('\\');
                    out.push(qc);
                }
                FPart::QuoteOther => out.push(other),
                FPart::Expr(e) => {
                    out.push('{');
                    out.push_str(&match e {
                        FExpr::Ident(a) => a.clone(),
                        FExpr::Field(a, b) => format!("{a}.{b}"),
                        FExpr::Call(f, args) => format!("{f}({})", args.join(", ")),
                        FExpr::Method(a, m) => format!("{a}.{m}()"),
                        FExpr::Add(a, n) => format!("{a} + {n}"),
                        FExpr::Index(a, n) => format!("{a}[{n}]"),
                        FExpr::Key(a, k) => format!("{a}[{other}{k}{other}]"),
                        FExpr::SelfField(x) => format!("self.{x}"),
                    });
                    out.push('}');
                }
            }
        }
        out.push(qc);
        out
    }

    fn lit(&mut self, l: &GLit) -> String {
        match l {
            GLit::Int { v, underscores } => self.int(*v, *underscores),
            GLit::Float { text, .. } => text.clone(),
            GLit::Str(s) => self.gstr(s),
            GLit::Bytes(b) => self.gbytes(b),
            GLit::Bool(v, alias) => {
                if *alias {
                    self.tag("surface.bool_alias");
                }
                match (v, alias) {
                    (true, false) => "true",
                    (false, false) => "false",
                    (true, true) => "True",
                    (false, true) => "False",
                }
                .to_string()
            }
            GLit::None => "None".to_string(),
        }
    }

    // ---------------------------------------------------------------------------------------------- types

    pub fn ty(&mut self, t: &GType) -> String {
        match t {
            GType::Simple(n) => n.clone(),
            GType::NoneKw => "None".into(),
            GType::Unit => "()".into(),
            GType::SelfTy => "Self".into(),
            GType::Generic(n, args) => {
                let a: Vec<String> = args.iter().map(|x| self.ty(x)).collect();
                format!("{n}[{}]", a.join(", "))
            }
            GType::Tuple(items) => {
                self.tag("surface.type.tuple_parens");
                let a: Vec<String> = items.iter().map(|x| self.ty(x)).collect();
                if a.len() == 1 {
                    format!("({},)", a[0])
                } else {
                    format!("({})", a.join(", "))
                }
            }
            GType::Func(params, ret) => {
                let a: Vec<String> = params.iter().map(|x| self.ty(x)).collect();
                let r = self.ty(ret);
                format!("({}) -> {r}", a.join(", "))
            }
            GType::Paren(inner) => {
                self.tag("surface.type.paren");
                format!("({})", self.ty(inner))
            }
        }
    }

    // ---------------------------------------------------------------------------------------------- expressions

    fn bracketed(&mut self, open: &str, close: &str, items: Vec<String>, l: BrLayout, force_comma: bool) -> String {
        if items.is_empty() {
            return format!("{open}{close}");
        }
        let trailing = l.trailing_comma || force_comma;
        if l.trailing_comma {
            self.tag("surface.trailing_comma");
        }
        if l.multiline {
            self.tag("surface.multiline_brackets");
            let pad = format!("{}        ", self.pad());
            let mut s = format!("{open}\n");
            for (i, it) in items.iter().enumerate() {
                s.push_str(&pad);
                s.push_str(it);
                if i + 1 < items.len() || trailing {
                    s.push(',');
                }
                s.push('\n');
            }
            s.push_str(&self.pad());
            s.push_str(close);
            s
        } else {
            format!("{open}{}{}{close}", items.join(", "), if trailing { "," } else { "" })
        }
    }

    fn args(&mut self, args: &[GArg]) -> Vec<String> {
        args.iter()
            .map(|a| match a {
                GArg::Pos(e) => self.expr(e, 0),
                GArg::Named(n, e) => format!("{n}={}", self.expr(e, 0)),
            })
            .collect()
    }

    /// Render `e` so that it can stand where the parser expects an operand of at least level `min`.
    pub fn expr(&mut self, e: &GExpr, min: u8) -> String {
        if e.level() < min {
            return format!("({})", self.expr_raw(e));
        }
        self.expr_raw(e)
    }

    fn expr_raw(&mut self, e: &GExpr) -> String {
        match e {
            GExpr::Ident(n) => n.clone(),
            GExpr::Lit(l) => self.lit(l),
            GExpr::SelfE => "self".into(),
            GExpr::Binary(l, op, r) => {
                let (_, lm, rm) = op.levels();
                let ls = self.expr(l, lm);
                let rs = self.expr(r, rm);
                format!("{ls} {} {rs}", op.text())
            }
            GExpr::Neg(x) => format!("-{}", self.expr(x, 9)),
            GExpr::Not(x) => format!("not {}", self.expr(x, 3)),
            GExpr::Await(x) => format!("await {}", self.expr(x, 9)),
            GExpr::Call(f, a, l) => {
                let fs = self.expr(f, 10);
                let items = self.args(a);
                format!("{fs}{}", self.bracketed("(", ")", items, *l, false))
            }
            GExpr::Index(b, i) => format!("{}[{}]", self.expr(b, 10), self.expr(i, 0)),
            GExpr::Slice(b, s, en, st, trailing) => {
                let bs = self.expr(b, 10);
                let ss = s.as_ref().map(|x| self.expr(x, 0)).unwrap_or_default();
                let es = en.as_ref().map(|x| self.expr(x, 0)).unwrap_or_default();
                match st {
                    Some(x) => {
                        let sts = self.expr(x, 0);
                        // `::` is one token, so an absent end needs a space between the colons
                        if en.is_none() {
                            format!("{bs}[{ss}: :{sts}]")
                        } else {
                            format!("{bs}[{ss}:{es}:{sts}]")
                        }
                    }
                    None if *trailing => {
                        self.tag("surface.slice.trailing_colon");
                        if en.is_none() {
                            format!("{bs}[{ss}: :]")
                        } else {
                            format!("{bs}[{ss}:{es}:]")
                        }
                    }
                    None => format!("{bs}[{ss}:{es}]"),
                }
            }
            GExpr::Field(b, f) => format!("{}.{f}", self.expr(b, 10)),
            GExpr::TupleIndex(b, i) => {
                // `1.0` would lex as a float and `x.0.1` as `x` `.` `0.1`
                let needs = matches!(**b, GExpr::Lit(GLit::Int { .. }) | GExpr::Lit(GLit::Float { .. }) | GExpr::TupleIndex(..));
                let bs = if needs { format!("({})", self.expr(b, 0)) } else { self.expr(b, 10) };
                format!("{bs}.{i}")
            }
            GExpr::MethodCall(b, m, a, l) => {
                let bs = self.expr(b, 10);
                let items = self.args(a);
                format!("{bs}.{m}{}", self.bracketed("(", ")", items, *l, false))
            }
            GExpr::Try(x) => format!("{}?", self.expr(x, 10)),
            GExpr::ListComp { elem, var, iter, filter } => {
                // a bare `yield` before `if` would take the filter as its operand
                let im = if filter.is_some() { 1 } else { 0 };
                let mut s = format!("[{} for {var} in {}", self.expr(elem, 0), self.expr(iter, im));
                if let Some(f) = filter {
                    s.push_str(&format!(" if {}", self.expr(f, 0)));
                }
                s.push(']');
                s
            }
            GExpr::DictComp { key, value, var, iter, filter } => {
                let im = if filter.is_some() { 1 } else { 0 };
                let mut s = format!("{{{}: {} for {var} in {}", self.expr(key, 0), self.expr(value, 0), self.expr(iter, im));
                if let Some(f) = filter {
                    s.push_str(&format!(" if {}", self.expr(f, 0)));
                }
                s.push('}');
                s
            }
            GExpr::Closure(params, body) => format!("({}) => {}", params.join(", "), self.expr(body, 0)),
            GExpr::Tuple(items, l) => {
                let v: Vec<String> = items.iter().map(|x| self.expr(x, 0)).collect();
                let single = v.len() == 1;
                self.bracketed("(", ")", v, *l, single)
            }
            GExpr::List(items, l) => {
                let v: Vec<String> = items.iter().map(|x| self.expr(x, 0)).collect();
                self.bracketed("[", "]", v, *l, false)
            }
            GExpr::Dict(items, l) => {
                let v: Vec<String> = items.iter().map(|(k, val)| format!("{}: {}", self.expr(k, 0), self.expr(val, 0))).collect();
                self.bracketed("{", "}", v, *l, false)
            }
            GExpr::Set(items, l) => {
                let v: Vec<String> = items.iter().map(|x| self.expr(x, 0)).collect();
                self.bracketed("{", "}", v, *l, false)
            }
            GExpr::Paren(x) => format!("({})", self.expr(x, 0)),
            GExpr::FStr(f) => self.gfstr(f),
            GExpr::Yield(None) => "yield".into(),
            // `yield` is not in the parser's expression-start set, so `yield yield x` does not parse
            GExpr::Yield(Some(x)) => format!("yield {}", self.expr(x, 1)),
            GExpr::Range(a, b, inclusive) => {
                format!("{}{}{}", self.expr(a, 6), if *inclusive { "..=" } else { ".." }, self.expr(b, 6))
            }
        }
    }

    // ---------------------------------------------------------------------------------------------- patterns

    fn pat(&mut self, p: &GPat) -> String {
        match p {
            GPat::Wild => "_".into(),
            GPat::Bind(n) => n.clone(),
            GPat::Lit(l) => self.lit(l),
            GPat::Ctor(n, args) => {
                let a: Vec<String> = args.iter().map(|x| self.pat(x)).collect();
                format!("{n}({})", a.join(", "))
            }
            GPat::Qual(t, v, None) => format!("{t}.{v}"),
            GPat::Qual(t, v, Some(args)) => {
                let a: Vec<String> = args.iter().map(|x| self.pat(x)).collect();
                format!("{t}.{v}({})", a.join(", "))
            }
            GPat::Tuple(items) => {
                let a: Vec<String> = items.iter().map(|x| self.pat(x)).collect();
                format!("({})", a.join(", "))
            }
        }
    }

    // ---------------------------------------------------------------------------------------------- statements

    fn block(&mut self, stmts: &[GStmt]) {
        self.level += 1;
        let mut prev_block = false;
        for s in stmts {
            let pos = self.out.len();
            self.stmt(s);
            if prev_block {
                self.guard_continuation(pos);
            }
            prev_block = match s {
                GStmt::Assign { value: t, .. } | GStmt::Return(Some(t)) | GStmt::Expr(t) => !matches!(t, GTail::E(_)),
                _ => false,
            };
        }
        self.level -= 1;
    }

    /// The parser treats `match`/`if` expressions as primaries and keeps looking for postfix/binary operators after
    /// their DEDENT, so a following statement that starts with `(`, `[` or `-` would be glued onto them. Separate the
    /// two with a `pass` statement.
    fn guard_continuation(&mut self, pos: usize) {
        let mut at = pos;
        loop {
            let rest = &self.out[at..];
            let line = rest.lines().next().unwrap_or("");
            let t = line.trim_start();
            if t.starts_with('#') || (t.is_empty() && !rest.is_empty()) {
                at += line.len() + 1;
                if at >= self.out.len() {
                    return;
                }
                continue;
            }
            if t.starts_with(['(', '[', '-']) {
                let pad = &line[..line.len() - t.len()];
                let ins = format!("{pad}pass\n");
                self.out.insert_str(at, &ins);
            }
            return;
        }
    }

    fn tail_line(&mut self, prefix: String, t: &GTail) {
        match t {
            GTail::E(e) => {
                let s = format!("{prefix}{}", self.expr(e, 0));
                self.line(&s);
            }
            GTail::Match(m) => {
                let s = format!("{prefix}match {}:", self.expr(&m.subject, 0));
                self.line(&s);
                self.level += 1;
                let mut prev_block = false;
                for a in &m.arms {
                    self.arm(a, prev_block);
                    prev_block = match &a.form {
                        ArmForm::CaseInline { stmt, .. } | ArmForm::ArrowInline(stmt) => match stmt {
                            GInline::Expr(t) | GInline::Return(Some(t)) => !matches!(t, GTail::E(_)),
                            _ => false,
                        },
                        _ => false,
                    };
                }
                self.level -= 1;
            }
            GTail::IfExpr(i) => {
                let s = format!("{prefix}if {}:", self.expr(&i.cond, 0));
                self.line(&s);
                self.block(&i.then);
                if let Some(e) = &i.els {
                    self.line("else:");
                    self.block(e);
                }
            }
        }
    }

    fn inline(&mut self, prefix: String, s: &GInline) {
        match s {
            GInline::Return(None) => self.line(&format!("{prefix}return")),
            GInline::Return(Some(t)) => self.tail_line(format!("{prefix}return "), t),
            GInline::Pass(ellipsis) => {
                if *ellipsis {
                    self.tag("surface.pass_ellipsis");
                }
                self.line(&format!("{prefix}{}", if *ellipsis { "..." } else { "pass" }))
            }
            GInline::Expr(t) => self.tail_line(prefix, t),
        }
    }

    /// `after_block`: the previous arm ended with a block expression; an arm starting with `(` would be parsed as a
    /// call on it, so it is spelled with `case`.
    fn arm(&mut self, a: &GArm, after_block: bool) {
        let p = self.pat(&a.pat);
        let force_case = after_block && p.starts_with('(');
        let g = |r: &mut R, guard: &Option<GExpr>| guard.as_ref().map(|g| format!(" if {}", r.expr(g, 0))).unwrap_or_default();
        match &a.form {
            ArmForm::CaseBlock { guard, body } => {
                self.tag("surface.arm.case_block");
                let gs = g(self, guard);
                self.line(&format!("case {p}{gs}:"));
                self.block(body);
            }
            ArmForm::CaseInline { guard, stmt } => {
                self.tag("surface.arm.case_inline");
                let gs = g(self, guard);
                self.inline(format!("case {p}{gs}: "), stmt);
            }
            ArmForm::ArrowBlock(body) if force_case => {
                self.tag("surface.arm.case_block");
                self.line(&format!("case {p}:"));
                self.block(body);
            }
            ArmForm::ArrowInline(stmt) if force_case => {
                self.tag("surface.arm.case_inline");
                self.inline(format!("case {p}: "), stmt);
            }
            ArmForm::ArrowBlock(body) => {
                self.tag("surface.arm.arrow_block");
                self.line(&format!("{p} =>"));
                self.block(body);
            }
            ArmForm::ArrowInline(stmt) => {
                self.tag("surface.arm.arrow_inline");
                self.inline(format!("{p} => "), stmt);
            }
        }
    }

    fn binding(b: u8) -> &'static str {
        match b {
            1 => "let ",
            2 => "mut ",
            _ => "",
        }
    }

    pub fn stmt(&mut self, s: &GStmt) {
        match s {
            GStmt::Assign { binding, name, ty, value } => {
                let t = ty.as_ref().map(|t| format!(": {}", self.ty(t))).unwrap_or_default();
                self.tail_line(format!("{}{name}{t} = ", Self::binding(*binding)), value);
            }
            GStmt::FieldAssign { obj, field, op, value } => {
                let o = self.expr(obj, 10);
                let v = self.expr(value, 0);
                let ops = op.map(|o| o.text()).unwrap_or("=");
                if op.is_some() {
                    self.tag("surface.compound_on_field");
                }
                self.line(&format!("{o}.{field} {ops} {v}"));
            }
            GStmt::IndexAssign { obj, index, op, value } => {
                let o = self.expr(obj, 10);
                let i = self.expr(index, 0);
                let v = self.expr(value, 0);
                let ops = op.map(|o| o.text()).unwrap_or("=");
                if op.is_some() {
                    self.tag("surface.compound_on_index");
                }
                self.line(&format!("{o}[{i}] {ops} {v}"));
            }
            GStmt::Return(None) => self.line("return"),
            GStmt::Return(Some(t)) => self.tail_line("return ".into(), t),
            GStmt::If { cond, then, elifs, els } => {
                let c = self.expr(cond, 0);
                self.line(&format!("if {c}:"));
                self.block(then);
                for (c, b) in elifs {
                    let c = self.expr(c, 0);
                    self.line(&format!("elif {c}:"));
                    self.block(b);
                }
                if let Some(b) = els {
                    self.line("else:");
                    self.block(b);
                }
            }
            GStmt::While { cond, body } => {
                let c = self.expr(cond, 0);
                self.line(&format!("while {c}:"));
                self.block(body);
            }
            GStmt::For { var, iter, body } => {
                let i = self.expr(iter, 0);
                self.line(&format!("for {var} in {i}:"));
                self.block(body);
            }
            GStmt::Expr(t) => self.tail_line(String::new(), t),
            GStmt::Pass(ellipsis) => {
                if *ellipsis {
                    self.tag("surface.pass_ellipsis");
                }
                self.line(if *ellipsis { "..." } else { "pass" })
            }
            GStmt::Break => self.line("break"),
            GStmt::Continue => self.line("continue"),
            GStmt::Compound { name, op, value } => {
                let v = self.expr(value, 0);
                self.line(&format!("{name} {} {v}", op.text()));
            }
            GStmt::TupleUnpack { binding, names, value } => {
                let v = self.expr(value, 0);
                self.line(&format!("{}{} = {v}", Self::binding(*binding), names.join(", ")));
            }
            GStmt::TupleAssign { targets, value } => {
                let t: Vec<String> = targets.iter().map(|x| self.expr(x, 0)).collect();
                let v = self.expr(value, 0);
                self.line(&format!("{} = {v}", t.join(", ")));
            }
            GStmt::Chained { binding, targets, value } => {
                let v = self.expr(value, 0);
                self.line(&format!("{}{} = {v}", Self::binding(*binding), targets.join(" = ")));
            }
        }
    }

    // ---------------------------------------------------------------------------------------------- declarations

    fn decorators(&mut self, ds: &[GDecorator]) {
        for d in ds {
            let s = match &d.args {
                None => format!("@{}", d.name),
                Some(args) => {
                    if args.is_empty() {
                        self.tag("surface.decorator.empty_parens");
                    }
                    let a: Vec<String> = args
                        .iter()
                        .map(|a| match a {
                            GDecArg::Pos(e) => self.expr(e, 0),
                            GDecArg::NamedExpr(n, e) => format!("{n}={}", self.expr(e, 0)),
                            GDecArg::NamedType(n, t) => format!("{n}: {}", self.ty(t)),
                        })
                        .collect();
                    format!("@{}({})", d.name, a.join(", "))
                }
            };
            self.line(&s);
        }
    }

    fn params(&mut self, ps: &[GParam]) -> Vec<String> {
        ps.iter()
            .map(|p| {
                let d = p.default.as_ref().map(|e| format!(" = {}", self.expr(e, 0))).unwrap_or_default();
                format!("{}{}: {}{d}", if p.is_mut { "mut " } else { "" }, p.name, self.ty(&p.ty))
            })
            .collect()
    }

    fn tparams(tp: &[String]) -> String {
        if tp.is_empty() {
            String::new()
        } else {
            format!("[{}]", tp.join(", "))
        }
    }

    fn def_kw(&mut self, alias: bool) -> &'static str {
        if alias {
            self.tag("surface.fn_alias");
            "fn"
        } else {
            "def"
        }
    }

    fn method(&mut self, m: &GMethod) {
        self.decorators(&m.decorators);
        let mut ps: Vec<String> = Vec::new();
        match m.receiver {
            1 => ps.push("self".into()),
            2 => ps.push("mut self".into()),
            _ => {}
        }
        ps.extend(self.params(&m.params));
        let head = format!(
            "{}{} {}({}) -> {}",
            if m.is_async { "async " } else { "" },
            self.def_kw(m.fn_alias),
            m.name,
            ps.join(", "),
            self.ty(&m.ret)
        );
        match &m.body {
            GMethodBody::AbstractNewline => {
                self.tag("surface.method.abstract_newline");
                self.line(&head);
                self.needs_final_nl = true;
            }
            GMethodBody::AbstractEllipsis => {
                self.tag("surface.method.abstract_ellipsis");
                self.line(&format!("{head}: ..."));
            }
            GMethodBody::Block(b) => {
                self.line(&format!("{head}:"));
                self.block(b);
            }
        }
    }

    fn class_like(&mut self, kw: &str, c: &GClassLike) {
        self.decorators(&c.decorators);
        let mut head = format!("{}{kw} {}{}", if c.is_pub { "pub " } else { "" }, c.name, Self::tparams(&c.type_params));
        if let Some(b) = &c.extends {
            head.push_str(&format!(" extends {b}"));
        }
        if !c.traits.is_empty() {
            head.push_str(&format!(" with {}", c.traits.join(", ")));
        }
        head.push(':');
        self.line(&head);
        self.level += 1;
        for f in &c.fields {
            let d = f.default.as_ref().map(|e| format!(" = {}", self.expr(e, 0))).unwrap_or_default();
            let s = format!("{}{}: {}{d}", if f.is_pub { "pub " } else { "" }, f.name, self.ty(&f.ty));
            self.line(&s);
        }
        for m in &c.methods {
            self.method(m);
        }
        self.level -= 1;
    }

    fn path(&mut self, p: &GPath) -> String {
        let sep = if p.dot_sep { "." } else { "::" };
        if p.dot_sep && p.segments.len() > 1 {
            self.tag("surface.import.dot_sep");
        }
        match p.style {
            1 => {
                self.tag("surface.import.dots");
                // `....` would lex as `...` `.`: separate the levels with a space
                format!("{}{}", vec![".."; p.levels as usize].join(" "), p.segments.join(sep))
            }
            2 => {
                self.tag("surface.import.super_kw");
                let mut parts: Vec<String> = (0..p.levels).map(|_| "super".to_string()).collect();
                parts.extend(p.segments.iter().cloned());
                parts.join(sep)
            }
            3 => format!("crate{sep}{}", p.segments.join(sep)),
            _ => p.segments.join(sep),
        }
    }

    fn items(items: &[(String, Option<String>)]) -> String {
        items.iter().map(|(n, a)| a.as_ref().map(|a| format!("{n} as {a}")).unwrap_or_else(|| n.clone())).collect::<Vec<_>>().join(", ")
    }

    pub fn decl(&mut self, d: &GDecl) {
        let alias = |a: &Option<String>| a.as_ref().map(|a| format!(" as {a}")).unwrap_or_default();
        match d {
            GDecl::Import(i) => {
                let s = match i {
                    GImport::Module { path, alias: a } => format!("import {}{}", self.path(path), alias(a)),
                    GImport::From { path, items } => format!("from {} import {}", self.path(path), Self::items(items)),
                    GImport::Python { pkg, alias: a } => format!("import python {}{}", self.gstr(pkg), alias(a)),
                    GImport::RustCrate { krate, path, alias: a } => {
                        let mut s = format!("import rust::{krate}");
                        for p in path {
                            s.push_str("::");
                            s.push_str(p);
                        }
                        s + &alias(a)
                    }
                    GImport::RustFrom { krate, path, items } => {
                        let mut s = format!("from rust::{krate}");
                        for p in path {
                            s.push_str("::");
                            s.push_str(p);
                        }
                        format!("{s} import {}", Self::items(items))
                    }
                    GImport::Empty => "import".to_string(),
                };
                self.line(&s);
                // `import super` at end of file needs the NEWLINE token (the parser does not accept EOF there)
                self.needs_final_nl = true;
            }
            GDecl::Const { is_pub, name, ty, value } => {
                let t = ty.as_ref().map(|t| format!(": {}", self.ty(t))).unwrap_or_default();
                let v = self.expr(value, 0);
                self.line(&format!("{}const {name}{t} = {v}", if *is_pub { "pub " } else { "" }));
            }
            GDecl::Model(c) => self.class_like("model", c),
            GDecl::Class(c) => self.class_like("class", c),
            GDecl::Trait(t) => {
                self.decorators(&t.decorators);
                self.line(&format!("{}trait {}{}:", if t.is_pub { "pub " } else { "" }, t.name, Self::tparams(&t.type_params)));
                self.level += 1;
                if t.methods.is_empty() {
                    self.line("pass");
                }
                for m in &t.methods {
                    self.method(m);
                }
                self.level -= 1;
            }
            GDecl::Newtype(n) => {
                let u = self.ty(&n.underlying);
                let p = if n.is_pub { "pub " } else { "" };
                let mut head = match n.spelling {
                    0 => {
                        self.tag("surface.newtype.type_newtype");
                        format!("{p}type {} = newtype {u}", n.name)
                    }
                    1 => {
                        self.tag("surface.newtype.newtype_kw");
                        format!("{p}newtype {} = {u}", n.name)
                    }
                    _ => {
                        self.tag("surface.newtype.type_plain");
                        format!("{p}type {} = {u}", n.name)
                    }
                };
                if !n.methods.is_empty() {
                    head.push(':');
                }
                self.line(&head);
                self.level += 1;
                for m in &n.methods {
                    self.method(m);
                }
                self.level -= 1;
            }
            GDecl::Enum(e) => {
                self.line(&format!("{}enum {}{}:", if e.is_pub { "pub " } else { "" }, e.name, Self::tparams(&e.type_params)));
                self.level += 1;
                for (name, fields) in &e.variants {
                    if fields.is_empty() {
                        self.line(name);
                    } else {
                        let f: Vec<String> = fields.iter().map(|t| self.ty(t)).collect();
                        self.line(&format!("{name}({})", f.join(", ")));
                    }
                }
                self.level -= 1;
            }
            GDecl::Function(f) => {
                self.decorators(&f.decorators);
                let ps = self.params(&f.params);
                let head = format!(
                    "{}{}{} {}{}({}) -> {}:",
                    if f.is_pub { "pub " } else { "" },
                    if f.is_async { "async " } else { "" },
                    self.def_kw(f.fn_alias),
                    f.name,
                    Self::tparams(&f.type_params),
                    ps.join(", "),
                    self.ty(&f.ret)
                );
                self.line(&head);
                self.block(&f.body);
            }
            GDecl::Docstring(s) => {
                let t = self.gstr(s);
                self.line(&t);
            }
        }
    }
}
