//! Build farm: write a generated project, run the real `incan` CLI on it (`--check`, `build`), run the
//! produced binary with a watchdog, collect everything, clean up.
//!
//! Each worker has a private CARGO_TARGET_DIR (`/verif/work/tgt<k>`) so the runtime crates are compiled once
//! per worker (setup pre-warms them). Each case has its own project directory, hence its own cargo package
//! id, so a stale artifact can never be mistaken for the case's binary; the case's artifacts are removed from
//! the shared target directory afterwards.

use rayon::prelude::*;
use std::io::Read;
use std::path::{Path, PathBuf};
use std::process::{Command, Stdio};
use std::sync::atomic::{AtomicU64, Ordering};
use std::sync::Mutex;
use std::time::{Duration, Instant};

#[derive(Clone, Debug, Default)]
pub struct Project {
    /// file stem of the entry file = package/binary name
    pub name: String,
    /// (relative path, contents); the entry must be among them
    pub files: Vec<(String, String)>,
    /// relative path of the entry file
    pub entry: String,
    /// arguments for the produced binary
    pub run_args: Vec<String>,
}

impl Project {
    pub fn single(name: &str, source: &str) -> Project {
        Project {
            name: name.to_string(),
            files: vec![(format!("{name}.incn"), source.to_string())],
            entry: format!("{name}.incn"),
            run_args: vec![],
        }
    }
}

#[derive(Clone, Copy, Debug, PartialEq, Eq)]
pub enum Mode {
    /// `incan --check` only
    Check,
    /// `incan build` with a stub cargo: generate the Rust project, do not compile it
    Generate,
    /// `incan build` (real cargo)
    Build,
    /// build and run the binary
    BuildRun,
    /// `incan --check`, then build and run
    CheckBuildRun,
    /// `incan --check`, then build (the binary is not run)
    CheckBuild,
}

#[derive(Clone, Debug, Default)]
pub struct CmdOut {
    pub status: Option<i32>,
    pub stdout: String,
    pub stderr: String,
    pub timed_out: bool,
    pub signal: Option<i32>,
}

impl CmdOut {
    pub fn ok(&self) -> bool {
        self.status == Some(0) && !self.timed_out
    }
}

#[derive(Clone, Debug, Default)]
pub struct FarmOut {
    pub check: Option<CmdOut>,
    pub build: Option<CmdOut>,
    pub run: Option<CmdOut>,
    /// generated files (Cargo.toml, src/**) relative to the output dir — filled in Generate mode, and
    /// src/main.rs always when it exists
    pub generated: Vec<(String, String)>,
    /// tool trouble (spawn failure, watchdog on the compiler): the case is inconclusive
    pub infra_error: Option<String>,
}

pub struct Farm {
    pub incan: PathBuf,
    pub workers: usize,
    pub work: PathBuf,
    free: Mutex<Vec<usize>>,
    counter: AtomicU64,
    pub run_timeout: Duration,
    pub build_timeout: Duration,
    pool: rayon::ThreadPool,
    pub keep_projects: bool,
}

pub fn incan_bin() -> PathBuf {
    if let Ok(p) = std::env::var("VERIF_INCAN") {
        return PathBuf::from(p);
    }
    crate::verif_root().join("engine/target/release/incan")
}

pub fn default_workers() -> usize {
    std::env::var("VERIF_WORKERS")
        .ok()
        .and_then(|s| s.parse().ok())
        .unwrap_or(12)
}

impl Farm {
    pub fn new(tag: &str) -> Farm {
        Farm::with_workers(tag, default_workers())
    }

    pub fn with_workers(tag: &str, workers: usize) -> Farm {
        let work = crate::verif_root().join("work").join(tag);
        let _ = std::fs::remove_dir_all(&work);
        let _ = std::fs::create_dir_all(&work);
        let pool = rayon::ThreadPoolBuilder::new()
            .num_threads(workers)
            .build()
            .expect("thread pool");
        Farm {
            incan: incan_bin(),
            workers,
            work,
            free: Mutex::new((0..workers).rev().collect()),
            counter: AtomicU64::new(0),
            run_timeout: Duration::from_secs(std::env::var("VERIF_RUN_TIMEOUT_S").ok().and_then(|s| s.parse().ok()).unwrap_or(60)),
            build_timeout: Duration::from_secs(600),
            pool,
            keep_projects: false,
        }
    }

    pub fn target_dir(k: usize) -> PathBuf {
        let base: usize = std::env::var("VERIF_TGT_BASE").ok().and_then(|s| s.parse().ok()).unwrap_or(0);
        crate::verif_root().join("work").join(format!("tgt{}", k + base))
    }

    /// Directory holding a stub `cargo` that succeeds without doing anything.
    pub fn stub_cargo_dir() -> PathBuf {
        let dir = crate::verif_root().join("work").join("stubbin");
        let _ = std::fs::create_dir_all(&dir);
        let p = dir.join("cargo");
        if !p.exists() {
            let _ = std::fs::write(&p, "#!/bin/sh\nexit 0\n");
            #[cfg(unix)]
            {
                use std::os::unix::fs::PermissionsExt;
                let _ = std::fs::set_permissions(&p, std::fs::Permissions::from_mode(0o755));
            }
        }
        dir
    }

    pub fn run_many(&self, projects: &[Project], mode: Mode) -> Vec<FarmOut> {
        self.pool
            .install(|| projects.par_iter().map(|p| self.run_one(p, mode)).collect())
    }

    /// Map arbitrary items in parallel on the farm's pool (for checks that drive the CLI themselves).
    pub fn par_map<T: Sync, R: Send>(&self, items: &[T], f: impl Fn(&T) -> R + Sync + Send) -> Vec<R> {
        self.pool.install(|| items.par_iter().map(|t| f(t)).collect())
    }

    /// Run every project once on every worker (warms each private target dir). Returns the number of
    /// failed builds.
    pub fn warm(&self, projects: &[Project], mode: Mode) -> usize {
        // build on worker 0 first, then clone its target dir for workers that have none (cargo fingerprints do
        // not depend on the target dir's location), then run everywhere (a no-op rebuild where cloned)
        let mut bad0 = 0;
        for p in projects {
            let o = self.run_one_on(p, mode, 0);
            if !o.build.as_ref().is_some_and(|b| b.ok()) {
                eprintln!("warm worker 0 project {}: {:?}", p.name, o.build.as_ref().map(|b| crate::util::truncate(&b.stderr, 2000)));
                bad0 += 1;
            }
        }
        if bad0 > 0 {
            return bad0;
        }
        for k in 1..self.workers {
            let d = Self::target_dir(k);
            if !d.exists() {
                let _ = Command::new("cp").arg("-a").arg(Self::target_dir(0)).arg(&d).status();
            }
        }
        let ks: Vec<usize> = (0..self.workers).collect();
        let bad: Vec<usize> = self.pool.install(|| {
            ks.par_iter()
                .map(|&k| {
                    let mut bad = 0;
                    for p in projects {
                        let o = self.run_one_on(p, mode, k);
                        let ok = o.build.as_ref().is_some_and(|b| b.ok()) && o.run.as_ref().is_none_or(|r| r.ok());
                        if !ok {
                            eprintln!("warm worker {k} project {}: {:?}", p.name, o.build.as_ref().map(|b| crate::util::truncate(&b.stderr, 2000)));
                            bad += 1;
                        }
                    }
                    bad
                })
                .collect()
        });
        bad.iter().sum()
    }

    fn acquire(&self) -> usize {
        loop {
            if let Some(k) = self.free.lock().unwrap().pop() {
                return k;
            }
            std::thread::sleep(Duration::from_millis(5));
        }
    }
    fn release(&self, k: usize) {
        self.free.lock().unwrap().push(k);
    }

    /// Fresh private directory for one case.
    pub fn case_dir(&self) -> PathBuf {
        let id = self.counter.fetch_add(1, Ordering::SeqCst);
        let d = self.work.join(format!("p{id}"));
        let _ = std::fs::remove_dir_all(&d);
        let _ = std::fs::create_dir_all(&d);
        d
    }

    pub fn write_project(dir: &Path, p: &Project) {
        for (rel, content) in &p.files {
            let path = dir.join(rel);
            if let Some(parent) = path.parent() {
                let _ = std::fs::create_dir_all(parent);
            }
            let _ = std::fs::write(path, content);
        }
    }

    pub fn run_one(&self, p: &Project, mode: Mode) -> FarmOut {
        let k = self.acquire();
        let out = self.run_one_on(p, mode, k);
        self.release(k);
        out
    }

    fn run_one_on(&self, p: &Project, mode: Mode, k: usize) -> FarmOut {
        // several checks may run at the same time and share the worker target dirs: hold an exclusive file
        // lock on the worker for build + run + clean-up (released when `_guard` is dropped)
        let _guard = {
            let lock_path = Self::target_dir(k).with_extension("lock");
            std::fs::OpenOptions::new().create(true).write(true).truncate(false).open(&lock_path).ok().and_then(|f| f.lock().ok().map(|_| f))
        };
        let mut out = FarmOut::default();
        let dir = self.case_dir();
        Self::write_project(&dir, p);
        let tgt = Self::target_dir(k);
        let entry = dir.join(&p.entry);
        let entry_dir = entry.parent().unwrap_or(&dir).to_path_buf();
        let entry_file = entry.file_name().unwrap().to_string_lossy().to_string();

        if matches!(mode, Mode::Check | Mode::CheckBuildRun | Mode::CheckBuild) {
            let mut c = Command::new(&self.incan);
            c.arg("--check").arg(&entry_file).current_dir(&entry_dir);
            let r = run_cmd(c, self.build_timeout);
            if r.timed_out {
                out.infra_error = Some("watchdog: incan --check".into());
            }
            let ok = r.ok();
            out.check = Some(r);
            if mode == Mode::Check || !ok {
                self.cleanup(&dir, &tgt, &p.name);
                return out;
            }
        }

        let outdir = dir.join("out");
        let mut c = Command::new(&self.incan);
        c.arg("build").arg(&entry_file).arg(&outdir).current_dir(&entry_dir);
        c.env("CARGO_TARGET_DIR", &tgt).env("CARGO_NET_OFFLINE", "true");
        if mode == Mode::Generate {
            let path = std::env::var("PATH").unwrap_or_default();
            c.env("PATH", format!("{}:{}", Self::stub_cargo_dir().display(), path));
        }
        let b = run_cmd(c, self.build_timeout);
        if b.timed_out {
            out.infra_error = Some("watchdog: incan build".into());
        }
        let built = b.ok();
        out.build = Some(b);
        collect_generated(&outdir, mode == Mode::Generate, &mut out.generated);

        if built && matches!(mode, Mode::BuildRun | Mode::CheckBuildRun) {
            let bin = tgt.join("release").join(&p.name);
            if !bin.exists() {
                out.infra_error = Some(format!("binary missing: {}", bin.display()));
            } else {
                let mut c = Command::new(&bin);
                c.args(&p.run_args).current_dir(&dir);
                out.run = Some(run_cmd(c, self.run_timeout));
            }
        }
        self.cleanup(&dir, &tgt, &p.name);
        out
    }

    fn cleanup(&self, dir: &Path, tgt: &Path, name: &str) {
        if !self.keep_projects {
            let _ = std::fs::remove_dir_all(dir);
        }
        clean_artifacts(tgt, name);
    }
}

/// Remove the binary artifacts of package `name` from a shared target dir (never touches library artifacts).
pub fn clean_artifacts(tgt: &Path, name: &str) {
    let rel = tgt.join("release");
    let _ = std::fs::remove_file(rel.join(name));
    let _ = std::fs::remove_file(rel.join(format!("{name}.d")));
    let prefix = format!("{name}-");
    let deps = rel.join("deps");
    if let Ok(rd) = std::fs::read_dir(&deps) {
        let names: Vec<String> = rd.flatten().map(|e| e.file_name().to_string_lossy().to_string()).collect();
        for f in &names {
            if let Some(rest) = f.strip_prefix(&prefix) {
                let hash = rest.split('.').next().unwrap_or("");
                if hash.len() != 16 || !hash.chars().all(|c| c.is_ascii_hexdigit()) {
                    continue;
                }
                let libpref = format!("lib{name}-{hash}.");
                if names.iter().any(|n| n.starts_with(&libpref)) {
                    continue;
                }
                let _ = std::fs::remove_file(deps.join(f));
            }
        }
    }
    let fp = rel.join(".fingerprint");
    if let Ok(rd) = std::fs::read_dir(&fp) {
        for e in rd.flatten() {
            let f = e.file_name().to_string_lossy().to_string();
            if f.starts_with(&prefix) {
                let d = e.path();
                if d.join(format!("bin-{name}")).exists() || d.join(format!("bin-{name}.json")).exists() {
                    let _ = std::fs::remove_dir_all(d);
                }
            }
        }
    }
}

fn collect_generated(outdir: &Path, all: bool, out: &mut Vec<(String, String)>) {
    fn walk(base: &Path, dir: &Path, out: &mut Vec<(String, String)>) {
        let Ok(rd) = std::fs::read_dir(dir) else { return };
        let mut es: Vec<_> = rd.flatten().map(|e| e.path()).collect();
        es.sort();
        for p in es {
            if p.is_dir() {
                if p.file_name().is_some_and(|n| n == "target") {
                    continue;
                }
                walk(base, &p, out);
            } else if let Ok(s) = std::fs::read_to_string(&p) {
                let rel = p.strip_prefix(base).unwrap_or(&p).to_string_lossy().to_string();
                if rel != "Cargo.lock" {
                    out.push((rel, s));
                }
            }
        }
    }
    if all {
        walk(outdir, outdir, out);
    } else if let Ok(s) = std::fs::read_to_string(outdir.join("src/main.rs")) {
        out.push(("src/main.rs".into(), s));
    }
}

/// Run a command with a wall-clock watchdog (the watchdog only ever yields "inconclusive", never a verdict).
pub fn run_cmd(mut c: Command, timeout: Duration) -> CmdOut {
    c.stdin(Stdio::null()).stdout(Stdio::piped()).stderr(Stdio::piped());
    let mut child = match c.spawn() {
        Ok(ch) => ch,
        Err(e) => {
            return CmdOut {
                status: None,
                stdout: String::new(),
                stderr: format!("spawn failed: {e}"),
                timed_out: false,
                signal: None,
            }
        }
    };
    let mut so = child.stdout.take().unwrap();
    let mut se = child.stderr.take().unwrap();
    let t1 = std::thread::spawn(move || {
        let mut b = Vec::new();
        let _ = so.read_to_end(&mut b);
        b
    });
    let t2 = std::thread::spawn(move || {
        let mut b = Vec::new();
        let _ = se.read_to_end(&mut b);
        b
    });
    let start = Instant::now();
    let mut timed_out = false;
    let status = loop {
        match child.try_wait() {
            Ok(Some(st)) => break Some(st),
            Ok(None) => {
                if start.elapsed() > timeout {
                    let _ = child.kill();
                    timed_out = true;
                    break child.wait().ok();
                }
                std::thread::sleep(Duration::from_millis(2));
            }
            Err(_) => break None,
        }
    };
    let stdout = String::from_utf8_lossy(&t1.join().unwrap_or_default()).to_string();
    let stderr = String::from_utf8_lossy(&t2.join().unwrap_or_default()).to_string();
    #[cfg(unix)]
    let signal = {
        use std::os::unix::process::ExitStatusExt;
        status.and_then(|s| s.signal())
    };
    #[cfg(not(unix))]
    let signal = None;
    CmdOut {
        status: status.and_then(|s| s.code()),
        stdout,
        stderr,
        timed_out,
        signal,
    }
}
