use std::hash::{Hash, Hasher};
use std::panic::{self, AssertUnwindSafe};
use std::sync::Mutex;

/// FNV-1a 64 — stable across processes (unlike std's RandomState).
pub struct Fnv(pub u64);
impl Default for Fnv {
    fn default() -> Self {
        Fnv(0xcbf29ce484222325)
    }
}
impl Hasher for Fnv {
    fn finish(&self) -> u64 {
        self.0
    }
    fn write(&mut self, bytes: &[u8]) {
        for b in bytes {
            self.0 ^= *b as u64;
            self.0 = self.0.wrapping_mul(0x100000001b3);
        }
    }
}

pub fn hash_of<T: Hash + ?Sized>(t: &T) -> u64 {
    let mut h = Fnv::default();
    t.hash(&mut h);
    h.finish()
}

pub fn hash_str(s: &str) -> u64 {
    let mut h = Fnv::default();
    h.write(s.as_bytes());
    h.finish()
}

/// splitmix64 finaliser
pub fn mix(mut z: u64) -> u64 {
    z = z.wrapping_add(0x9E37_79B9_7F4A_7C15);
    z = (z ^ (z >> 30)).wrapping_mul(0xBF58_476D_1CE4_E5B9);
    z = (z ^ (z >> 27)).wrapping_mul(0x94D0_49BB_1331_11EB);
    z ^ (z >> 31)
}

static PANIC_MSG: Mutex<Option<String>> = Mutex::new(None);
thread_local! {
    static TL_PANIC: std::cell::RefCell<Option<String>> = const { std::cell::RefCell::new(None) };
}

/// Install a quiet panic hook that records the message + location per thread.
pub fn install_quiet_panic_hook() {
    panic::set_hook(Box::new(|info| {
        let msg = if let Some(s) = info.payload().downcast_ref::<&str>() {
            s.to_string()
        } else if let Some(s) = info.payload().downcast_ref::<String>() {
            s.clone()
        } else {
            "<non-string panic>".to_string()
        };
        let loc = info
            .location()
            .map(|l| format!("{}:{}", l.file(), l.line()))
            .unwrap_or_default();
        let full = format!("{msg} @ {loc}");
        TL_PANIC.with(|c| *c.borrow_mut() = Some(full.clone()));
        if let Ok(mut g) = PANIC_MSG.lock() {
            *g = Some(full);
        }
    }));
}

/// Run `f`, returning Err(panic message "msg @ file:line") if it panicked.
/// Requires `install_quiet_panic_hook()` for the message to be captured.
pub fn catch<R>(f: impl FnOnce() -> R) -> Result<R, String> {
    TL_PANIC.with(|c| *c.borrow_mut() = None);
    match panic::catch_unwind(AssertUnwindSafe(f)) {
        Ok(r) => Ok(r),
        Err(p) => {
            let from_hook = TL_PANIC.with(|c| c.borrow_mut().take());
            let msg = from_hook.unwrap_or_else(|| {
                if let Some(s) = p.downcast_ref::<&str>() {
                    s.to_string()
                } else if let Some(s) = p.downcast_ref::<String>() {
                    s.clone()
                } else {
                    "<non-string panic>".to_string()
                }
            });
            Err(msg)
        }
    }
}

/// Strip " @ file:line" from a captured panic message.
pub fn panic_text(full: &str) -> &str {
    match full.rfind(" @ ") {
        Some(i) => &full[..i],
        None => full,
    }
}

pub fn truncate(s: &str, n: usize) -> String {
    if s.len() <= n {
        s.to_string()
    } else {
        let mut e = n;
        while !s.is_char_boundary(e) {
            e -= 1;
        }
        format!("{}…[{} bytes]", &s[..e], s.len())
    }
}

/// All `.incn` files below the repo's examples/, tests/ and docs (seed corpus), sorted.
pub fn repo_seed_files() -> Vec<std::path::PathBuf> {
    fn walk(dir: &std::path::Path, out: &mut Vec<std::path::PathBuf>) {
        let Ok(rd) = std::fs::read_dir(dir) else { return };
        let mut entries: Vec<_> = rd.flatten().map(|e| e.path()).collect();
        entries.sort();
        for p in entries {
            if p.is_dir() {
                let name = p.file_name().and_then(|n| n.to_str()).unwrap_or("");
                if name == "target" || name.starts_with('.') {
                    continue;
                }
                walk(&p, out);
            } else if p.extension().is_some_and(|e| e == "incn" || e == "incan") {
                out.push(p);
            }
        }
    }
    let mut out = Vec::new();
    for sub in ["examples", "tests", "benchmarks", "stdlib", "workspaces"] {
        walk(&crate::repo_root().join(sub), &mut out);
    }
    out
}
