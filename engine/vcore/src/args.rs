use std::path::PathBuf;

#[derive(Clone, Copy, Debug, PartialEq, Eq)]
pub enum Tier {
    Quick,
    Thorough,
}

impl Tier {
    pub fn name(self) -> &'static str {
        match self {
            Tier::Quick => "quick",
            Tier::Thorough => "thorough",
        }
    }
    /// pick a work amount by tier
    pub fn pick<T>(self, quick: T, thorough: T) -> T {
        match self {
            Tier::Quick => quick,
            Tier::Thorough => thorough,
        }
    }
}

#[derive(Clone, Debug)]
pub struct Args {
    pub prop: String,
    pub tier: Tier,
    pub seed: u64,
    pub replay: Option<PathBuf>,
    /// free-form extra flags (`--flag value` pairs not understood here)
    pub extra: Vec<(String, String)>,
}

impl Args {
    /// Parse `--tier quick|thorough --seed N --replay PATH`; seed falls back to VERIF_SEED then 1.
    pub fn parse(prop: &str) -> Args {
        let mut tier = match std::env::var("VERIF_TIER").ok().as_deref() {
            Some("thorough") => Tier::Thorough,
            _ => Tier::Quick,
        };
        let mut seed: u64 = std::env::var("VERIF_SEED")
            .ok()
            .and_then(|s| s.trim().parse::<i128>().ok())
            .map(|v| v as u64)
            .unwrap_or(1);
        let mut replay = None;
        let mut extra = Vec::new();
        let argv: Vec<String> = std::env::args().skip(1).collect();
        let mut i = 0;
        while i < argv.len() {
            let a = argv[i].as_str();
            let val = argv.get(i + 1).cloned();
            match a {
                "--tier" => {
                    tier = match val.as_deref() {
                        Some("thorough") => Tier::Thorough,
                        _ => Tier::Quick,
                    };
                    i += 2;
                }
                "--seed" => {
                    if let Some(v) = val.and_then(|s| s.parse::<i128>().ok()) {
                        seed = v as u64;
                    }
                    i += 2;
                }
                "--replay" => {
                    replay = val.map(PathBuf::from);
                    i += 2;
                }
                _ if a.starts_with("--") => {
                    extra.push((a.trim_start_matches("--").to_string(), val.unwrap_or_default()));
                    i += 2;
                }
                _ => {
                    i += 1;
                }
            }
        }
        Args {
            prop: prop.to_string(),
            tier,
            seed,
            replay,
            extra,
        }
    }

    pub fn flag(&self, name: &str) -> Option<&str> {
        self.extra.iter().find(|(k, _)| k == name).map(|(_, v)| v.as_str())
    }

    /// Sub-seed for an independent generator stream.
    pub fn subseed(&self, stream: u64) -> u64 {
        crate::util::mix(self.seed ^ stream.wrapping_mul(0x9E37_79B9_7F4A_7C15))
    }
}
