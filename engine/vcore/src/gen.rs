//! proptest plumbing. Every random choice of every check goes through a proptest `TestRunner` seeded from
//! VERIF_SEED, so a run is a pure function of (code, seed). Checks own the evaluation loop (so they can go on
//! behind a failure and evaluate batches in parallel); proptest owns generation and shrinking.

use proptest::strategy::{Strategy, ValueTree};
use proptest::test_runner::{Config, RngAlgorithm, TestRng, TestRunner};

pub fn runner(seed: u64) -> TestRunner {
    let mut bytes = [0u8; 32];
    let mut z = seed;
    for chunk in bytes.chunks_mut(8) {
        z = crate::util::mix(z);
        chunk.copy_from_slice(&z.to_le_bytes());
    }
    let config = Config {
        failure_persistence: None,
        cases: 0,
        max_shrink_iters: 0,
        ..Config::default()
    };
    TestRunner::new_with_rng(config, TestRng::from_seed(RngAlgorithm::ChaCha, &bytes))
}

/// Generate `n` value trees.
pub fn batch<S: Strategy>(s: &S, runner: &mut TestRunner, n: usize) -> Vec<S::Tree> {
    let mut out = Vec::with_capacity(n);
    let mut rejects = 0usize;
    while out.len() < n {
        match s.new_tree(runner) {
            Ok(t) => out.push(t),
            Err(_) => {
                rejects += 1;
                if rejects > n * 10 + 1000 {
                    break;
                }
            }
        }
    }
    out
}

/// One value.
pub fn one<S: Strategy>(s: &S, runner: &mut TestRunner) -> Option<S::Value> {
    for _ in 0..1000 {
        if let Ok(t) = s.new_tree(runner) {
            return Some(t.current());
        }
    }
    None
}

/// Bounded shrinking driven by hand: returns the smallest value found for which `fails` holds.
/// `fails(current)` must hold on entry.
pub fn shrink<T: ValueTree>(tree: &mut T, max_iters: usize, mut fails: impl FnMut(&T::Value) -> bool) -> T::Value {
    let mut last_fail = tree.current();
    if !tree.simplify() {
        return last_fail;
    }
    let mut iters = 0;
    loop {
        iters += 1;
        if iters > max_iters {
            break;
        }
        let v = tree.current();
        if fails(&v) {
            last_fail = v;
            if !tree.simplify() {
                break;
            }
        } else if !tree.complicate() {
            break;
        }
    }
    last_fail
}

/// Monotone index mapping (keeps shrinking effective): maps a u16 onto 0..len.
pub fn idx(raw: u16, len: usize) -> usize {
    if len == 0 {
        0
    } else {
        ((raw as usize) * len) >> 16
    }
}
