//! vcore — shared pieces of the /verif engine.
//!
//! * `args`      — command line / environment plumbing (`--tier`, `--seed`, `--replay`, VERIF_SEED)
//! * `evidence`  — evidence/<id>.json writer (counts are measured here, never constants)
//! * `known`     — known-findings.txt registry (read-only at run time)
//! * `outcome`   — VIOLATION / KNOWN-FINDING / INCONCLUSIVE protocol and exit codes
//! * `gen`       — proptest plumbing: seeded batches of value trees and bounded manual shrinking
//! * `farm`      — parallel "write project -> incan build -> run binary" workers
//! * `util`      — hashing, panic capture, small helpers
//! * `cargoproj` — reader for generated Cargo.toml + scanner for external crate roots in generated Rust (C12/C15)

pub mod args;
pub mod cargoproj;
pub mod astcanon;
pub mod evidence;
pub mod farm;
pub mod fmtoracle;
pub mod gen;
pub mod gsyn;
pub mod gprog;
pub mod gprog_gen;
pub mod gprog_matrix;
pub mod gprog_run;
pub mod gprog_check;
pub mod known;
pub mod front;
pub mod fuzzrun;
pub mod layout;
pub mod outcome;
pub mod pymodel;
pub mod util;

pub use args::{Args, Tier};
pub use evidence::Evidence;
pub use known::Known;
pub use outcome::Outcome;

/// Root of the verification tree (evidence/, replay/, work/, known-findings.txt). `VERIF_ROOT` overrides it
/// (used only by tools/mutant_run.sh to run a check against a scratch copy of the repository).
pub fn verif_root() -> std::path::PathBuf {
    std::path::PathBuf::from(std::env::var("VERIF_ROOT").unwrap_or_else(|_| "/verif".to_string()))
}
/// Root of the repository under test (seed corpus, docs). `VERIF_REPO` overrides it.
pub fn repo_root() -> std::path::PathBuf {
    std::path::PathBuf::from(std::env::var("VERIF_REPO").unwrap_or_else(|_| "/repo".to_string()))
}
