//! vcore — shared pieces of the /verif engine.
//!
//! * `args`      — command line / environment plumbing (`--tier`, `--seed`, `--replay`, VERIF_SEED)
//! * `evidence`  — evidence/<id>.json writer (counts are measured here, never constants)
//! * `known`     — known-findings.txt registry (read-only at run time)
//! * `outcome`   — VIOLATION / KNOWN-FINDING / INCONCLUSIVE protocol and exit codes
//! * `gen`       — proptest plumbing: seeded batches of value trees and bounded manual shrinking
//! * `farm`      — parallel "write project -> incan build -> run binary" workers
//! * `util`      — hashing, panic capture, small helpers

pub mod args;
pub mod evidence;
pub mod farm;
pub mod gen;
pub mod known;
pub mod outcome;
pub mod util;

pub use args::{Args, Tier};
pub use evidence::Evidence;
pub use known::Known;
pub use outcome::Outcome;

pub const VERIF_ROOT: &str = "/verif";
pub const REPO_ROOT: &str = "/repo";
