//! Layout edits and span-erased syntax-tree comparison (property C10; reused by the `fz_layout` fuzz target).
//!
//! * `Analysis` — the real lexer's tokens of a text plus a physical-line table, used only to *aim* edits at positions
//!   outside string / f-string / byte-string tokens and to know bracket depth and block depth at each position.
//! * `Edit` — one concrete meaning-preserving layout edit (the kinds named in the property statement).
//! * `RawEdit` — the generator-side form (raw selectors mapped monotonically onto the admissible positions), used by
//!   proptest scripts and by the fuzz target.
//! * `ast_fingerprint` / `ast_dump` — `{:?}` of the tree with every `Span { .. }` erased while streaming.
//! * `program_strategy` — small generator of nested-block programs (base programs besides the repository seeds).

use incan_syntax::ast::Program;
use incan_syntax::lexer::{self, Token, TokenKind};
use incan_syntax::parser;
use incan_core::lang::keywords::KeywordId;
use incan_core::lang::punctuation::PunctuationId;
use proptest::prelude::*;
use std::fmt::Write as _;

// ------------------------------------------------------------------------------------------------------------
// span-erased dump / fingerprint
// ------------------------------------------------------------------------------------------------------------

/// `fmt::Write` adaptor that drops every `Span { start: N, end: M }` produced by `#[derive(Debug)]`
/// (pieces arrive as "Span", " { ", "start", ": ", digits, ", ", "end", ": ", digits, " }").
struct Eraser<F: FnMut(&str)> {
    state: u8,
    sink: F,
}

impl<F: FnMut(&str)> std::fmt::Write for Eraser<F> {
    fn write_str(&mut self, s: &str) -> std::fmt::Result {
        match self.state {
            0 => {
                if s == "Span" {
                    self.state = 1;
                } else {
                    (self.sink)(s);
                }
            }
            1 => {
                if s == " { " {
                    self.state = 2;
                } else {
                    (self.sink)("Span");
                    self.state = 0;
                    return self.write_str(s);
                }
            }
            2 => {
                if s == "start" {
                    self.state = 3;
                } else {
                    (self.sink)("Span");
                    (self.sink)(" { ");
                    self.state = 0;
                    return self.write_str(s);
                }
            }
            _ => {
                if s == " }" {
                    self.state = 0;
                    (self.sink)("_");
                }
            }
        }
        Ok(())
    }
}

/// Stable 64-bit fingerprint of the syntax tree with spans erased.
pub fn ast_fingerprint(p: &Program) -> u64 {
    let mut h: u64 = 0xcbf29ce484222325;
    {
        let mut e = Eraser {
            state: 0,
            sink: |s: &str| {
                for b in s.as_bytes() {
                    h ^= *b as u64;
                    h = h.wrapping_mul(0x100000001b3);
                }
                // piece separator, so that ("ab","c") and ("a","bc") differ
                h ^= 0xff;
                h = h.wrapping_mul(0x100000001b3);
            },
        };
        let _ = write!(e, "{:?}", p);
    }
    h
}

/// Span-erased dump (one declaration per line), for reports.
pub fn ast_dump(p: &Program) -> String {
    let mut out = String::new();
    for d in &p.declarations {
        let mut e = Eraser { state: 0, sink: |s: &str| out.push_str(s) };
        let _ = write!(e, "{:?}", d.node);
        out.push('\n');
    }
    out
}

/// Self-test of the eraser against the real parser: trees that differ only in spans agree, different trees differ.
pub fn eraser_self_check() -> Result<(), String> {
    let a = lex_parse("def f(a: int) -> int:\n    return g(a, [1, 2])\n").map_err(|e| format!("self-check parse: {e}"))?;
    let b = lex_parse("\n\n# c\ndef f(a: int) -> int:\n\n    return g(a, [1,\n 2])\n").map_err(|e| format!("self-check parse: {e}"))?;
    let c = lex_parse("def f(a: int) -> int:\n    return g(a, [1, 3])\n").map_err(|e| format!("self-check parse: {e}"))?;
    if a.1 == b.1 {
        return Err("self-check: shifted program has identical spans?".into());
    }
    if ast_fingerprint(&a.1) != ast_fingerprint(&b.1) || ast_dump(&a.1) != ast_dump(&b.1) {
        return Err(format!("span eraser leaves position data behind:\n{}\n{}", ast_dump(&a.1), ast_dump(&b.1)));
    }
    if ast_fingerprint(&a.1) == ast_fingerprint(&c.1) {
        return Err("span eraser erases too much (different literals agree)".into());
    }
    if ast_dump(&a.1).contains("start:") {
        return Err("span eraser: dump still contains a span".into());
    }
    Ok(())
}

/// lex + parse with the real front end; the error text is the first diagnostic.
pub fn lex_parse(src: &str) -> Result<(Vec<Token>, Program), String> {
    let tokens = lexer::lex(src).map_err(|e| format!("lex: {}", e.first().map(|x| format!("{} @{}..{}", x.message, x.span.start, x.span.end)).unwrap_or_default()))?;
    let ast = parser::parse(&tokens).map_err(|e| format!("parse: {}", e.first().map(|x| format!("{} @{}..{}", x.message, x.span.start, x.span.end)).unwrap_or_default()))?;
    Ok((tokens, ast))
}

/// Token kinds without spans, for reports ("the token stream differs at index i").
pub fn first_token_difference(a: &[Token], b: &[Token]) -> Option<(usize, String, String)> {
    let n = a.len().min(b.len());
    for i in 0..n {
        if a[i].kind != b[i].kind {
            return Some((i, format!("{:?}", a[i].kind), format!("{:?}", b[i].kind)));
        }
    }
    if a.len() != b.len() {
        let g = |t: &[Token]| t.get(n).map(|x| format!("{:?}", x.kind)).unwrap_or_else(|| "<end>".into());
        return Some((n, g(a), g(b)));
    }
    None
}

// ------------------------------------------------------------------------------------------------------------
// the oracle
// ------------------------------------------------------------------------------------------------------------

#[derive(Debug, Clone)]
pub struct Fail {
    pub key: String,
    pub what: String,
}

/// First line of a diagnostic message with numbers and bracketed payloads collapsed (signature material).
pub fn norm_msg(m: &str) -> String {
    let mut out = String::new();
    let mut in_paren = 0usize;
    let mut last_digit = false;
    for c in m.lines().next().unwrap_or("").chars() {
        match c {
            '(' => {
                in_paren += 1;
                if in_paren == 1 {
                    out.push_str("(..)");
                }
            }
            ')' => in_paren = in_paren.saturating_sub(1),
            _ if in_paren > 0 => {}
            '0'..='9' => {
                if !last_digit {
                    out.push('N');
                }
                last_digit = true;
                continue;
            }
            ' ' => out.push('_'),
            _ if c.is_ascii_graphic() => out.push(c),
            _ => out.push('?'),
        }
        last_digit = false;
    }
    out.truncate(90);
    out
}

fn panic_loc(p: &str) -> String {
    match p.rfind(" @ ") {
        Some(i) => {
            let parts: Vec<&str> = p[i + 3..].rsplit('/').take(2).collect();
            parts.into_iter().rev().collect::<Vec<_>>().join("/")
        }
        None => "?".into(),
    }
}

/// Judge one edited text against the fingerprint of its base. `kind` is the edit kind that produced it; the
/// signature is `<edit kind>:<failure mode>[:<message class>]`.
pub fn judge(base_fp: u64, edited: &str, kind: &str) -> Result<(), Fail> {
    let toks = match crate::util::catch(|| lexer::lex(edited)) {
        Err(p) => return Err(Fail { key: format!("{kind}:lex-panic:{}", panic_loc(&p)), what: format!("lexer panicked: {p}") }),
        Ok(Err(errs)) => {
            let (m, s, e) = errs.first().map(|e| (e.message.clone(), e.span.start, e.span.end)).unwrap_or_default();
            return Err(Fail { key: format!("{kind}:lex-error:{}", norm_msg(&m)), what: format!("edited text does not lex: {m} at {s}..{e}") });
        }
        Ok(Ok(t)) => t,
    };
    let ast = match crate::util::catch(|| parser::parse(&toks)) {
        Err(p) => return Err(Fail { key: format!("{kind}:parse-panic:{}", panic_loc(&p)), what: format!("parser panicked: {p}") }),
        Ok(Err(errs)) => {
            let (m, s, e) = errs.first().map(|e| (e.message.clone(), e.span.start, e.span.end)).unwrap_or_default();
            return Err(Fail {
                key: format!("{kind}:parse-error:{}", norm_msg(&m)),
                what: format!("edited text does not parse: {m} at {s}..{e} ({} error(s))", errs.len()),
            });
        }
        Ok(Ok(a)) => a,
    };
    if ast_fingerprint(&ast) != base_fp {
        return Err(Fail { key: format!("{kind}:ast-differs"), what: "edited text parses to a different syntax tree".into() });
    }
    Ok(())
}

/// Construct predicates of the recorded known findings (generator-side avoidance). Returns the key of the open
/// finding whose construct this (text, edit) pair exercises. `open_keys` = keys of the open entries for C10.
pub fn known_construct(a: &Analysis, e: &Edit, open_keys: &[String]) -> Option<&'static str> {
    KNOWN_PREDICATES.iter().find(|(key, pred)| open_keys.iter().any(|k| k == key) && pred(a, e)).map(|(k, _)| *k)
}

type Pred = fn(&Analysis, &Edit) -> bool;
/// One entry per open C10 finding: (signature, construct predicate). See /verif/work/findings/C10.md.
const KNOWN_PREDICATES: &[(&str, Pred)] = &[
    // (none open. The two findings of the first runs — a body-less method declaration / `import super` as the last line
    // without a final newline — were repaired in the repository (6cf089e); their canonical inputs are now regression
    // inputs under known/C10. A new entry pairs the signature with a predicate built from the helpers below.)
];

#[allow(dead_code)]
fn real_tokens(a: &Analysis) -> impl DoubleEndedIterator<Item = &Token> {
    a.tokens.iter().filter(|t| !matches!(t.kind, TokenKind::Newline | TokenKind::Indent | TokenKind::Dedent | TokenKind::Eof))
}

/// The last code token is followed by nothing but the final newline (no blank / comment lines behind it), and the
/// logical line it ends starts with one of the keywords.
#[allow(dead_code)]
fn last_line_starts_with_keyword(a: &Analysis, kws: &[KeywordId]) -> bool {
    let Some(last) = real_tokens(a).next_back() else { return false };
    if a.text[last.span.end..].matches('\n').count() != 1 {
        return false;
    }
    let Some(line) = a.lines.iter().rev().find(|l| l.logical && l.start <= last.span.start) else { return false };
    match real_tokens(a).find(|t| t.span.start >= line.start) {
        Some(t) => kws.iter().any(|k| t.kind == TokenKind::Keyword(*k)),
        None => false,
    }
}

#[allow(dead_code)]
fn last_real_token_is(a: &Analysis, p: PunctuationId) -> bool {
    real_tokens(a).next_back().is_some_and(|t| t.kind == TokenKind::Punctuation(p))
}

// ------------------------------------------------------------------------------------------------------------
// analysis of a text
// ------------------------------------------------------------------------------------------------------------

#[derive(Clone, Copy, Debug, PartialEq, Eq)]
pub enum LineKind {
    Blank,
    Comment,
    Code,
}

#[derive(Clone, Debug)]
pub struct Line {
    /// byte offset of the first byte of the line
    pub start: usize,
    /// byte offset of the end of the content (before `\r\n` / `\n`)
    pub end: usize,
    /// length of the terminator: 0 (last line without newline), 1 (`\n`), 2 (`\r\n`)
    pub term: usize,
    pub kind: LineKind,
    /// leading whitespace: bytes and columns (space = 1, tab = 4)
    pub indent_bytes: usize,
    pub indent_cols: usize,
    /// bracket depth at the start of the line (from the lexer's tokens)
    pub brackets: usize,
    /// start / end of the line lie strictly inside a string-like token
    pub start_in_string: bool,
    pub end_in_string: bool,
    /// block depth of this line if it starts a logical line (Code, brackets == 0, not in a string)
    pub depth: usize,
    pub logical: bool,
    /// depth differs from the neighbouring logical line (INDENT/DEDENT boundary)
    pub boundary: bool,
}

pub struct Analysis {
    pub text: String,
    pub tokens: Vec<Token>,
    /// string-like tokens (String, FString, Bytes): byte ranges
    pub strings: Vec<(usize, usize)>,
    /// bracket depth after token i
    pub depth_after: Vec<usize>,
    pub lines: Vec<Line>,
    /// a string-like token spans more than one line
    pub multiline_string: bool,
    /// the harness's own indentation model is consistent (every dedent returns to an open level)
    pub indent_model_ok: bool,
    /// block depth of the last logical line (> 0: blocks are open at EOF)
    pub last_depth: usize,
    /// token indices after which a line break may be inserted (bracket depth >= 1 after the token)
    pub break_points: Vec<usize>,
}

fn in_ranges_strict(r: &[(usize, usize)], off: usize) -> bool {
    // ranges are sorted and disjoint
    let i = r.partition_point(|&(s, _)| s < off);
    i > 0 && off < r[i - 1].1
}

impl Analysis {
    /// `None` when the text does not lex.
    pub fn new(text: &str) -> Option<Analysis> {
        let tokens = lexer::lex(text).ok()?;
        Some(Self::with_tokens(text, tokens))
    }

    pub fn with_tokens(text: &str, tokens: Vec<Token>) -> Analysis {
        let mut strings = Vec::new();
        let mut depth_after = Vec::with_capacity(tokens.len());
        let mut break_points = Vec::new();
        let mut d = 0usize;
        // (offset, depth after) for tokens that change the depth
        let mut depth_changes: Vec<(usize, usize)> = Vec::new();
        for (i, t) in tokens.iter().enumerate() {
            match &t.kind {
                TokenKind::String(_) | TokenKind::FString(_) | TokenKind::Bytes(_) => strings.push((t.span.start, t.span.end)),
                TokenKind::Punctuation(PunctuationId::LParen | PunctuationId::LBracket | PunctuationId::LBrace) => {
                    d += 1;
                    depth_changes.push((t.span.end, d));
                }
                TokenKind::Punctuation(PunctuationId::RParen | PunctuationId::RBracket | PunctuationId::RBrace) => {
                    d = d.saturating_sub(1);
                    // a line that *starts* with the closer is still inside the brackets at its first byte
                    depth_changes.push((t.span.end, d));
                }
                _ => {}
            }
            depth_after.push(d);
            let real = !matches!(t.kind, TokenKind::Newline | TokenKind::Indent | TokenKind::Dedent | TokenKind::Eof);
            if d >= 1 && real && t.span.end > t.span.start {
                break_points.push(i);
            }
        }
        let multiline_string = strings.iter().any(|&(s, e)| text[s..e].contains('\n'));
        let brackets_at = |off: usize| -> usize {
            let i = depth_changes.partition_point(|&(o, _)| o <= off);
            if i == 0 {
                0
            } else {
                depth_changes[i - 1].1
            }
        };

        let mut lines = Vec::new();
        let bytes = text.as_bytes();
        let mut start = 0usize;
        while start < text.len() {
            let nl = text[start..].find('\n').map(|i| start + i);
            let (end_raw, term) = match nl {
                Some(p) => (p, 1usize),
                None => (text.len(), 0usize),
            };
            let (end, term) = if term == 1 && end_raw > start && bytes[end_raw - 1] == b'\r' { (end_raw - 1, 2) } else { (end_raw, term) };
            let mut ib = 0usize;
            let mut ic = 0usize;
            for &b in &bytes[start..end] {
                match b {
                    b' ' => {
                        ib += 1;
                        ic += 1;
                    }
                    b'\t' => {
                        ib += 1;
                        ic += 4;
                    }
                    _ => break,
                }
            }
            let rest = &text[start + ib..end];
            let kind = if rest.trim_matches(|c| c == ' ' || c == '\t' || c == '\r').is_empty() {
                LineKind::Blank
            } else if rest.starts_with('#') {
                LineKind::Comment
            } else {
                LineKind::Code
            };
            lines.push(Line {
                start,
                end,
                term,
                kind,
                indent_bytes: ib,
                indent_cols: ic,
                brackets: brackets_at(start),
                start_in_string: in_ranges_strict(&strings, start),
                end_in_string: in_ranges_strict(&strings, end),
                depth: 0,
                logical: false,
                boundary: false,
            });
            start = end + term;
            if term == 0 {
                break;
            }
        }

        // the harness's own indentation model (Python's rule): a stack of column widths
        let mut stack: Vec<usize> = vec![0];
        let mut ok = true;
        let mut last_depth = 0usize;
        let mut prev_logical: Option<usize> = None;
        for i in 0..lines.len() {
            let l = &lines[i];
            if l.kind != LineKind::Code || l.brackets > 0 || l.start_in_string {
                continue;
            }
            let w = l.indent_cols;
            let top = *stack.last().unwrap();
            if w > top {
                stack.push(w);
            } else if w < top {
                while *stack.last().unwrap() > w {
                    stack.pop();
                }
                if *stack.last().unwrap() != w {
                    ok = false;
                    stack.push(w);
                }
            }
            let depth = stack.len() - 1;
            lines[i].depth = depth;
            lines[i].logical = true;
            if let Some(p) = prev_logical {
                if lines[p].depth != depth {
                    lines[p].boundary = true;
                    lines[i].boundary = true;
                }
            }
            prev_logical = Some(i);
            last_depth = depth;
        }
        // non-logical lines inherit the depth of the next logical line (for the non-triviality rule only)
        let mut next_depth = last_depth;
        for i in (0..lines.len()).rev() {
            if lines[i].logical {
                next_depth = lines[i].depth;
            } else {
                lines[i].depth = next_depth;
            }
        }

        Analysis {
            text: text.to_string(),
            tokens,
            strings,
            depth_after,
            lines,
            multiline_string,
            indent_model_ok: ok,
            last_depth,
            break_points,
        }
    }

    pub fn ends_with_newline(&self) -> bool {
        self.text.ends_with('\n')
    }

    /// Cross-check of the harness's indentation model against the lexer, line by line: the block depth the lexer's
    /// INDENT/DEDENT tokens give to the first token of every logical line equals the model's depth, and the lexer starts
    /// a logical line exactly where the model does. Bases on which they disagree (e.g. a stray `\r` inside leading
    /// whitespace, which the lexer skips without counting) are never re-indented: the layout is one the documentation does
    /// not define, so the case is discarded, not judged.
    pub fn model_agrees_with_lexer(&self) -> bool {
        if !self.indent_model_ok {
            return false;
        }
        let mut d = 0usize;
        let mut seen_line = vec![false; self.lines.len()];
        for t in &self.tokens {
            match t.kind {
                TokenKind::Indent => d += 1,
                TokenKind::Dedent => d = d.saturating_sub(1),
                TokenKind::Newline | TokenKind::Eof => {}
                _ => {
                    let li = self.lines.partition_point(|l| l.start <= t.span.start).saturating_sub(1);
                    let Some(l) = self.lines.get(li) else { return false };
                    if seen_line[li] {
                        continue;
                    }
                    seen_line[li] = true;
                    if l.logical {
                        // first token of a logical line: same depth, and it sits right after the leading whitespace
                        if l.depth != d || t.span.start != l.start + l.indent_bytes {
                            return false;
                        }
                    }
                }
            }
        }
        // every logical line of the model carries a token
        self.lines.iter().zip(seen_line.iter()).all(|(l, s)| !l.logical || *s)
    }
}

// ------------------------------------------------------------------------------------------------------------
// edits
// ------------------------------------------------------------------------------------------------------------

/// Comment texts (after the `#`): brackets, quotes, keywords, colons, non-ASCII — none of it may matter.
pub const COMMENT_BODIES: [&str; 14] = [
    "",
    " c",
    "#",
    " (",
    " )]}",
    " \"unclosed",
    " '''",
    " \"\"\"",
    " if x:",
    "\t",
    " é😀 ",
    " trailing   ",
    " f\"{",
    " \\",
];

/// Whitespace fillers for blank lines / trailing whitespace / continuation indentation.
pub const WS: [&str; 12] = ["", " ", "  ", "   ", "    ", "     ", "        ", "\t", "\t\t", " \t", "\t ", "             "];

#[derive(Clone, Copy, Debug, PartialEq, Eq, Hash)]
pub enum Unit {
    Two,
    Four,
    Tab,
    /// per line, each level is a tab or four spaces (tabs count as 4 columns)
    TabMix(u16),
    /// other widths: block structure depends only on relative indentation
    Other(u8),
}

#[derive(Clone, Debug, PartialEq, Eq, Hash)]
pub enum Edit {
    /// `<gap># body` appended to physical line `line`
    EolComment { line: usize, gap: usize, body: usize },
    /// a comment line inserted before physical line `line` (== lines.len(): at end of file)
    OwnComment { line: usize, ws: usize, body: usize },
    /// a blank / whitespace-only line inserted before physical line `line`
    Blank { line: usize, ws: usize },
    /// spaces/tabs appended to physical line `line`
    Trailing { line: usize, ws: usize },
    AddFinalNewline,
    RemoveFinalNewline,
    /// LF -> CRLF on all lines (salt 0) or on a salt-dependent subset
    Crlf { salt: u16 },
    /// line break (+ continuation indentation) after token `tok` inside brackets
    Break { tok: usize, ws: usize },
    Reindent { unit: Unit },
    /// at end of file, while blocks are open: comment / blank lines at column `ws`, with or without final newline
    EofTail { ws: usize, body: Option<usize>, final_newline: bool },
}

impl Edit {
    pub fn kind(&self) -> &'static str {
        match self {
            Edit::EolComment { .. } => "eol-comment",
            Edit::OwnComment { .. } => "own-line-comment",
            Edit::Blank { .. } => "blank-line",
            Edit::Trailing { .. } => "trailing-ws",
            Edit::AddFinalNewline => "add-final-newline",
            Edit::RemoveFinalNewline => "remove-final-newline",
            Edit::Crlf { salt: 0 } => "crlf-all",
            Edit::Crlf { .. } => "crlf-some",
            Edit::Break { .. } => "bracket-break",
            Edit::Reindent { unit: Unit::Two } => "reindent-2",
            Edit::Reindent { unit: Unit::Four } => "reindent-4",
            Edit::Reindent { unit: Unit::Tab } => "reindent-tab",
            Edit::Reindent { unit: Unit::TabMix(_) } => "reindent-tab-mix",
            Edit::Reindent { unit: Unit::Other(_) } => "reindent-other",
            Edit::EofTail { .. } => "eof-tail",
        }
    }

    /// Non-triviality (DESIGN §2 C10): the edit lands at block depth >= 1, next to an INDENT/DEDENT boundary,
    /// inside brackets, or at end of file with open blocks. Whole-file edits count when the file has a block.
    pub fn nontrivial(&self, a: &Analysis) -> bool {
        let has_block = a.lines.iter().any(|l| l.logical && l.depth > 0);
        let at = |line: usize| -> bool {
            match a.lines.get(line) {
                Some(l) => l.depth >= 1 || l.boundary || l.brackets > 0,
                None => a.last_depth > 0,
            }
        };
        match self {
            Edit::EolComment { line, .. } | Edit::Trailing { line, .. } => at(*line) || a.lines.get(*line).is_some_and(|l| brackets_at_end(a, l) > 0),
            Edit::OwnComment { line, .. } | Edit::Blank { line, .. } => at(*line) || (*line > 0 && a.lines[*line - 1].boundary),
            Edit::AddFinalNewline | Edit::RemoveFinalNewline | Edit::EofTail { .. } => a.last_depth > 0,
            Edit::Crlf { .. } | Edit::Reindent { .. } => has_block,
            Edit::Break { .. } => true,
        }
    }
}

fn brackets_at_end(a: &Analysis, l: &Line) -> usize {
    // depth after the last token that ends at or before the end of the line
    let i = a.tokens.partition_point(|t| t.span.end <= l.end);
    if i == 0 {
        0
    } else {
        a.depth_after[i - 1]
    }
}

fn crlf_pick(salt: u16, line: usize) -> bool {
    salt == 0 || crate::util::mix((salt as u64) << 32 | line as u64) & 1 == 1
}

/// Apply one edit. `None`: the position is not admissible (inside a string token, nothing to do, ...).
pub fn apply(a: &Analysis, e: &Edit) -> Option<String> {
    let t = &a.text;
    match e {
        Edit::EolComment { line, gap, body } => {
            let l = a.lines.get(*line)?;
            if l.end_in_string {
                return None;
            }
            let mut s = String::with_capacity(t.len() + 16);
            s.push_str(&t[..l.end]);
            // a comment glued to the last token is still a comment (`x = 1# c`)
            s.push_str(WS[*gap % WS.len()]);
            s.push('#');
            s.push_str(COMMENT_BODIES[*body % COMMENT_BODIES.len()]);
            s.push_str(&t[l.end..]);
            Some(s)
        }
        Edit::OwnComment { line, ws, body } => insert_line(a, *line, &format!("{}#{}", WS[*ws % WS.len()], COMMENT_BODIES[*body % COMMENT_BODIES.len()])),
        Edit::Blank { line, ws } => insert_line(a, *line, WS[*ws % WS.len()]),
        Edit::Trailing { line, ws } => {
            let l = a.lines.get(*line)?;
            let w = WS[*ws % WS.len()];
            if l.end_in_string || w.is_empty() {
                return None;
            }
            Some(format!("{}{}{}", &t[..l.end], w, &t[l.end..]))
        }
        Edit::AddFinalNewline => {
            if t.is_empty() {
                return None;
            }
            Some(format!("{t}\n"))
        }
        Edit::RemoveFinalNewline => {
            let s = t.strip_suffix('\n')?;
            let s = s.strip_suffix('\r').unwrap_or(s);
            Some(s.to_string())
        }
        Edit::Crlf { salt } => {
            let mut s = String::with_capacity(t.len() + a.lines.len());
            let mut changed = false;
            for (i, l) in a.lines.iter().enumerate() {
                s.push_str(&t[l.start..l.end]);
                match l.term {
                    0 => {}
                    1 if !l.end_in_string && crlf_pick(*salt, i) => {
                        s.push_str("\r\n");
                        changed = true;
                    }
                    1 => s.push('\n'),
                    _ => s.push_str("\r\n"),
                }
            }
            changed.then_some(s)
        }
        Edit::Break { tok, ws } => {
            if a.break_points.binary_search(tok).is_err() {
                return None;
            }
            let p = a.tokens[*tok].span.end;
            Some(format!("{}\n{}{}", &t[..p], WS[*ws % WS.len()], &t[p..]))
        }
        Edit::Reindent { unit } => {
            if !a.model_agrees_with_lexer() {
                return None;
            }
            let mut s = String::with_capacity(t.len());
            for (i, l) in a.lines.iter().enumerate() {
                if l.logical {
                    for lvl in 0..l.depth {
                        match unit {
                            Unit::Two => s.push_str("  "),
                            Unit::Four => s.push_str("    "),
                            Unit::Tab => s.push('\t'),
                            Unit::TabMix(salt) => {
                                if crate::util::mix((*salt as u64) << 40 | (i as u64) << 8 | lvl as u64) & 1 == 1 {
                                    s.push('\t')
                                } else {
                                    s.push_str("    ")
                                }
                            }
                            Unit::Other(n) => {
                                for _ in 0..(*n).clamp(1, 12) {
                                    s.push(' ');
                                }
                            }
                        }
                    }
                    s.push_str(&t[l.start + l.indent_bytes..l.end + l.term]);
                } else {
                    // lines inside string tokens or brackets, comment-only and blank lines stay as they are
                    s.push_str(&t[l.start..l.end + l.term]);
                }
            }
            (s != *t).then_some(s)
        }
        Edit::EofTail { ws, body, final_newline } => {
            let mut s = t.clone();
            if !s.is_empty() && !s.ends_with('\n') {
                s.push('\n');
            }
            s.push_str(WS[*ws % WS.len()]);
            if let Some(b) = body {
                s.push('#');
                s.push_str(COMMENT_BODIES[*b % COMMENT_BODIES.len()]);
            }
            if *final_newline {
                s.push('\n');
            }
            (s != *t).then_some(s)
        }
    }
}

fn insert_line(a: &Analysis, line: usize, content: &str) -> Option<String> {
    let t = &a.text;
    if line < a.lines.len() {
        let l = &a.lines[line];
        if l.start_in_string {
            return None;
        }
        // use the terminator style of the following line? no: a bare LF is always a line end
        Some(format!("{}{}\n{}", &t[..l.start], content, &t[l.start..]))
    } else if line == a.lines.len() {
        if t.is_empty() || t.ends_with('\n') {
            Some(format!("{t}{content}\n"))
        } else {
            Some(format!("{t}\n{content}\n"))
        }
    } else {
        None
    }
}

/// Every admissible edit of the given kind classes for one text (exhaustive leg).
/// `variants` bounds the number of filler/comment variants per position (1 = one representative).
pub fn enumerate_edits(a: &Analysis, variants: usize) -> Vec<Edit> {
    let mut out = Vec::new();
    let n = a.lines.len();
    let v = variants.max(1);
    for line in 0..n {
        for k in 0..v {
            out.push(Edit::EolComment { line, gap: (line + k) % 5, body: (line * 3 + k * 5) % COMMENT_BODIES.len() });
            out.push(Edit::Trailing { line, ws: 1 + (line + k * 3) % (WS.len() - 1) });
        }
    }
    for line in 0..=n {
        // own-line comments: column 0, the block's column, deeper, a tab; blank lines: empty and whitespace-only
        for (k, ws) in [0usize, 4, 6, 7, 2, 11].iter().enumerate().take(2 + 2 * v) {
            out.push(Edit::OwnComment { line, ws: *ws, body: (line + k * 3) % COMMENT_BODIES.len() });
        }
        for ws in [0usize, 4, 7, 1].iter().take(1 + v) {
            out.push(Edit::Blank { line, ws: *ws });
        }
    }
    out.push(Edit::AddFinalNewline);
    out.push(Edit::RemoveFinalNewline);
    out.push(Edit::Crlf { salt: 0 });
    for s in 1..=(2 * v as u16) {
        out.push(Edit::Crlf { salt: s });
    }
    for &tok in &a.break_points {
        for k in 0..v {
            out.push(Edit::Break { tok, ws: (tok + k * 5) % WS.len() });
        }
    }
    for unit in [Unit::Two, Unit::Four, Unit::Tab, Unit::TabMix(1), Unit::TabMix(2), Unit::TabMix(3), Unit::Other(1), Unit::Other(3), Unit::Other(8)] {
        out.push(Edit::Reindent { unit });
    }
    for ws in [0usize, 2, 4, 6, 7] {
        for body in [None, Some(1usize), Some(5)] {
            for final_newline in [true, false] {
                out.push(Edit::EofTail { ws, body, final_newline });
            }
        }
    }
    out
}

/// Generator-side edit: raw selectors, resolved against the current text.
#[derive(Clone, Debug, PartialEq, Eq, Hash)]
pub struct RawEdit {
    pub kind: u8,
    pub pos: u16,
    pub a: u8,
    pub b: u8,
}

pub const RAW_KINDS: u8 = 14;

impl RawEdit {
    pub fn resolve(&self, an: &Analysis) -> Edit {
        let n = an.lines.len();
        let line = crate::gen::idx(self.pos, n.max(1));
        let line_incl = crate::gen::idx(self.pos, n + 1);
        match self.kind % RAW_KINDS {
            0 => Edit::EolComment { line, gap: self.a as usize % 5, body: self.b as usize },
            1 => Edit::OwnComment { line: line_incl, ws: self.a as usize, body: self.b as usize },
            2 => Edit::Blank { line: line_incl, ws: self.a as usize },
            3 => Edit::Trailing { line, ws: 1 + self.a as usize % (WS.len() - 1) },
            4 => Edit::AddFinalNewline,
            5 => Edit::RemoveFinalNewline,
            6 => Edit::Crlf { salt: if self.a % 3 == 0 { 0 } else { self.pos | 1 } },
            7 | 8 => {
                let bp = &an.break_points;
                if bp.is_empty() {
                    Edit::Blank { line: line_incl, ws: self.a as usize }
                } else {
                    Edit::Break { tok: bp[crate::gen::idx(self.pos, bp.len())], ws: self.a as usize }
                }
            }
            9 => Edit::Reindent { unit: Unit::Two },
            10 => Edit::Reindent { unit: if self.a % 2 == 0 { Unit::Tab } else { Unit::Four } },
            11 => Edit::Reindent { unit: Unit::TabMix(self.pos | 1) },
            12 => Edit::Reindent { unit: Unit::Other(1 + self.a % 8) },
            _ => Edit::EofTail { ws: self.a as usize, body: if self.b % 3 == 0 { None } else { Some(self.b as usize) }, final_newline: self.b % 2 == 0 },
        }
    }
}

/// Structured input of the `fz_layout` fuzz target: `[n, n x (kind, pos_lo, pos_hi, a, b), base program text...]`.
pub fn decode_fuzz_input(data: &[u8]) -> Option<(String, Vec<RawEdit>)> {
    let (&n, rest) = data.split_first()?;
    let n = 1 + (n as usize % 6);
    if rest.len() < n * 5 {
        return None;
    }
    let mut script = Vec::with_capacity(n);
    for c in rest[..n * 5].chunks(5) {
        script.push(RawEdit { kind: c[0], pos: u16::from_le_bytes([c[1], c[2]]), a: c[3], b: c[4] });
    }
    let text = std::str::from_utf8(&rest[n * 5..]).ok()?;
    Some((text.to_string(), script))
}

pub fn encode_fuzz_input(text: &str, script: &[RawEdit]) -> Vec<u8> {
    let n = script.len().clamp(1, 6);
    let mut out = vec![(n - 1) as u8];
    for i in 0..n {
        let r = script.get(i).cloned().unwrap_or(RawEdit { kind: 2, pos: 0, a: 0, b: 0 });
        out.push(r.kind);
        out.extend_from_slice(&r.pos.to_le_bytes());
        out.push(r.a);
        out.push(r.b);
    }
    out.extend_from_slice(text.as_bytes());
    out
}

pub fn raw_edit_strategy() -> impl Strategy<Value = RawEdit> {
    (0u8..RAW_KINDS, any::<u16>(), any::<u8>(), any::<u8>()).prop_map(|(kind, pos, a, b)| RawEdit { kind, pos, a, b })
}

// ------------------------------------------------------------------------------------------------------------
// generator of nested-block base programs
// ------------------------------------------------------------------------------------------------------------
//
// Output only has to parse. The grammar walked here is a deliberately small slice (functions, if/elif/else,
// while/for, match with all arm spellings, classes/models/traits/enums with methods, calls / lists / dicts / tuples /
// comprehensions / subscripts spanning brackets); the full grammar generator is `vcore::gsyn` (plugged in by the check).

#[derive(Clone, Debug)]
pub enum GExpr {
    Atom(u8),
    Call(u8, Vec<GExpr>),
    Method(Box<GExpr>, u8, Vec<GExpr>),
    List(Vec<GExpr>),
    Dict(Vec<(GExpr, GExpr)>),
    Tuple(Vec<GExpr>),
    Index(Box<GExpr>, Box<GExpr>),
    Bin(Box<GExpr>, u8, Box<GExpr>),
    Paren(Box<GExpr>),
    Comp(Box<GExpr>, u8, Box<GExpr>, Option<Box<GExpr>>),
    Ctor(u8, Vec<(u8, GExpr)>),
}

#[derive(Clone, Debug)]
pub enum GStmt {
    Assign(u8, u8, GExpr),
    Expr(GExpr),
    Return(Option<GExpr>),
    Pass,
    Break,
    Continue,
    Compound(u8, u8, GExpr),
    FieldSet(u8, GExpr),
    IndexSet(GExpr, GExpr),
    If(GExpr, Vec<GStmt>, Vec<(GExpr, Vec<GStmt>)>, Option<Vec<GStmt>>),
    While(GExpr, Vec<GStmt>),
    For(u8, GExpr, Vec<GStmt>),
    /// arms: (pattern id, guard, form, body) — form 0: `case P:` block, 1: `case P: stmt` inline, 2: `P =>` inline, 3: `P =>` block
    Match(GExpr, Vec<(u8, Option<GExpr>, u8, Vec<GStmt>)>),
}

#[derive(Clone, Debug)]
pub enum GDecl {
    Func { name: u8, params: u8, body: Vec<GStmt>, decorated: bool, is_async: bool },
    Class { kind: u8, name: u8, fields: u8, methods: Vec<(u8, bool, Vec<GStmt>)>, decorated: bool },
    Trait { name: u8, abstract_methods: u8, methods: Vec<(u8, Vec<GStmt>)> },
    Enum { name: u8, variants: u8 },
    Const(u8, GExpr),
    Import(u8),
    Docstring(bool),
}

const NAMES: [&str; 12] = ["a", "b", "total", "items", "x1", "value", "idx", "acc", "name", "cfg", "node", "res"];
const FUNCS: [&str; 6] = ["f", "compute", "len", "println", "make_item", "range"];
const TYPES: [&str; 8] = ["int", "str", "bool", "float", "List[int]", "Dict[str, int]", "Option[int]", "Result[int, str]"];
const TNAMES: [&str; 6] = ["Point", "Shape", "Config", "Node", "Color", "Event"];
const ATOMS: [&str; 16] = [
    "1", "0", "42", "2.5", "\"s\"", "'q'", "True", "False", "None", "a", "total", "items", "self.x", "f\"v={a}\"", "b\"ab\"", "-3",
];
const BINOPS: [&str; 12] = ["+", "-", "*", "/", "//", "%", "==", "!=", "<", ">=", "and", "or"];
const PATTERNS: [&str; 8] = ["0", "1", "_", "Some(n)", "None", "Ok(v)", "Err(e)", "\"k\""];

fn gexpr() -> impl Strategy<Value = GExpr> {
    let leaf = any::<u8>().prop_map(GExpr::Atom);
    leaf.prop_recursive(4, 24, 4, |inner| {
        prop_oneof![
            3 => (any::<u8>(), proptest::collection::vec(inner.clone(), 0..4)).prop_map(|(f, a)| GExpr::Call(f, a)),
            2 => (inner.clone(), any::<u8>(), proptest::collection::vec(inner.clone(), 0..3)).prop_map(|(o, m, a)| GExpr::Method(Box::new(o), m, a)),
            2 => proptest::collection::vec(inner.clone(), 0..4).prop_map(GExpr::List),
            2 => proptest::collection::vec((inner.clone(), inner.clone()), 0..3).prop_map(GExpr::Dict),
            1 => proptest::collection::vec(inner.clone(), 2..4).prop_map(GExpr::Tuple),
            2 => (inner.clone(), inner.clone()).prop_map(|(a, b)| GExpr::Index(Box::new(a), Box::new(b))),
            3 => (inner.clone(), any::<u8>(), inner.clone()).prop_map(|(a, o, b)| GExpr::Bin(Box::new(a), o, Box::new(b))),
            1 => inner.clone().prop_map(|a| GExpr::Paren(Box::new(a))),
            1 => (inner.clone(), any::<u8>(), inner.clone(), proptest::option::of(inner.clone()))
                .prop_map(|(e, v, it, c)| GExpr::Comp(Box::new(e), v, Box::new(it), c.map(Box::new))),
            1 => (any::<u8>(), proptest::collection::vec((any::<u8>(), inner), 0..3)).prop_map(|(t, f)| GExpr::Ctor(t, f)),
        ]
    })
}

fn gblock(depth: u32) -> BoxedStrategy<Vec<GStmt>> {
    proptest::collection::vec(gstmt(depth), 1..4).boxed()
}

fn gstmt(depth: u32) -> BoxedStrategy<GStmt> {
    let simple = prop_oneof![
        4 => (any::<u8>(), any::<u8>(), gexpr()).prop_map(|(k, n, e)| GStmt::Assign(k, n, e)),
        3 => gexpr().prop_map(GStmt::Expr),
        2 => proptest::option::of(gexpr()).prop_map(GStmt::Return),
        1 => Just(GStmt::Pass),
        1 => Just(GStmt::Break),
        1 => Just(GStmt::Continue),
        1 => (any::<u8>(), any::<u8>(), gexpr()).prop_map(|(n, o, e)| GStmt::Compound(n, o, e)),
        1 => (any::<u8>(), gexpr()).prop_map(|(n, e)| GStmt::FieldSet(n, e)),
        1 => (gexpr(), gexpr()).prop_map(|(i, e)| GStmt::IndexSet(i, e)),
    ];
    if depth == 0 {
        return simple.boxed();
    }
    let d = depth - 1;
    prop_oneof![
        5 => simple,
        3 => (gexpr(), gblock(d), proptest::collection::vec((gexpr(), gblock(d)), 0..3), proptest::option::of(gblock(d)))
            .prop_map(|(c, t, e, o)| GStmt::If(c, t, e, o)),
        1 => (gexpr(), gblock(d)).prop_map(|(c, b)| GStmt::While(c, b)),
        2 => (any::<u8>(), gexpr(), gblock(d)).prop_map(|(v, i, b)| GStmt::For(v, i, b)),
        2 => (gexpr(), proptest::collection::vec((any::<u8>(), proptest::option::weighted(0.2, gexpr()), 0u8..4, gblock(d)), 1..4))
            .prop_map(|(s, arms)| GStmt::Match(s, arms)),
    ]
    .boxed()
}

fn gdecl() -> impl Strategy<Value = GDecl> {
    prop_oneof![
        6 => (any::<u8>(), 0u8..4, gblock(3), any::<bool>(), proptest::bool::weighted(0.1))
            .prop_map(|(name, params, body, decorated, is_async)| GDecl::Func { name, params, body, decorated, is_async }),
        3 => (0u8..2, any::<u8>(), 0u8..4, proptest::collection::vec((any::<u8>(), any::<bool>(), gblock(2)), 0..3), any::<bool>())
            .prop_map(|(kind, name, fields, methods, decorated)| GDecl::Class { kind, name, fields, methods, decorated }),
        1 => (any::<u8>(), 0u8..3, proptest::collection::vec((any::<u8>(), gblock(1)), 0..2))
            .prop_map(|(name, abstract_methods, methods)| GDecl::Trait { name, abstract_methods, methods }),
        1 => (any::<u8>(), 1u8..4).prop_map(|(name, variants)| GDecl::Enum { name, variants }),
        1 => (any::<u8>(), gexpr()).prop_map(|(n, e)| GDecl::Const(n, e)),
        1 => any::<u8>().prop_map(GDecl::Import),
        1 => any::<bool>().prop_map(GDecl::Docstring),
    ]
}

/// Strategy for whole programs (1..5 declarations), rendered with 4-space indentation.
pub fn program_strategy() -> impl Strategy<Value = String> {
    proptest::collection::vec(gdecl(), 1..5).prop_map(|ds| render_program(&ds))
}

fn pick<'a>(t: &'a [&'a str], i: u8) -> &'a str {
    t[i as usize % t.len()]
}

fn rexpr(e: &GExpr, out: &mut String) {
    match e {
        GExpr::Atom(i) => out.push_str(pick(&ATOMS, *i)),
        GExpr::Call(f, args) => {
            out.push_str(pick(&FUNCS, *f));
            rargs(args, out);
        }
        GExpr::Method(o, m, args) => {
            rpostfix_base(o, out);
            out.push('.');
            out.push_str(pick(&["append", "get", "upper", "push", "area"], *m));
            rargs(args, out);
        }
        GExpr::List(xs) => {
            out.push('[');
            rlist(xs, out);
            out.push(']');
        }
        GExpr::Dict(kv) => {
            out.push('{');
            for (i, (k, v)) in kv.iter().enumerate() {
                if i > 0 {
                    out.push_str(", ");
                }
                rexpr(k, out);
                out.push_str(": ");
                rexpr(v, out);
            }
            out.push('}');
        }
        GExpr::Tuple(xs) => {
            out.push('(');
            rlist(xs, out);
            out.push(')');
        }
        GExpr::Index(a, b) => {
            rpostfix_base(a, out);
            out.push('[');
            rexpr(b, out);
            out.push(']');
        }
        GExpr::Bin(a, o, b) => {
            rexpr(a, out);
            out.push(' ');
            out.push_str(pick(&BINOPS, *o));
            out.push(' ');
            rexpr(b, out);
        }
        GExpr::Paren(a) => {
            out.push('(');
            rexpr(a, out);
            out.push(')');
        }
        GExpr::Comp(e, v, it, c) => {
            out.push('[');
            rexpr_p(e, out);
            out.push_str(" for ");
            out.push_str(pick(&NAMES, *v));
            out.push_str(" in ");
            rexpr_p(it, out);
            if let Some(c) = c {
                out.push_str(" if ");
                rexpr_p(c, out);
            }
            out.push(']');
        }
        GExpr::Ctor(t, fields) => {
            out.push_str(pick(&TNAMES, *t));
            out.push('(');
            for (i, (n, v)) in fields.iter().enumerate() {
                if i > 0 {
                    out.push_str(", ");
                }
                out.push_str(pick(&NAMES, *n));
                out.push('=');
                rexpr(v, out);
            }
            out.push(')');
        }
    }
}

/// operand position where a bare binary expression / comprehension clause would be ambiguous: parenthesise
fn rexpr_p(e: &GExpr, out: &mut String) {
    if matches!(e, GExpr::Bin(..)) {
        out.push('(');
        rexpr(e, out);
        out.push(')');
    } else {
        rexpr(e, out);
    }
}

fn rpostfix_base(e: &GExpr, out: &mut String) {
    match e {
        GExpr::Atom(i) if !pick(&ATOMS, *i).starts_with(|c: char| c.is_ascii_digit() || c == '-') => rexpr(e, out),
        GExpr::Call(..) | GExpr::Index(..) | GExpr::Method(..) | GExpr::List(..) | GExpr::Ctor(..) => rexpr(e, out),
        _ => {
            out.push('(');
            rexpr(e, out);
            out.push(')');
        }
    }
}

fn rlist(xs: &[GExpr], out: &mut String) {
    for (i, x) in xs.iter().enumerate() {
        if i > 0 {
            out.push_str(", ");
        }
        rexpr(x, out);
    }
}

fn rargs(args: &[GExpr], out: &mut String) {
    out.push('(');
    rlist(args, out);
    out.push(')');
}

fn ind(out: &mut String, d: usize) {
    for _ in 0..d {
        out.push_str("    ");
    }
}

fn rblock(b: &[GStmt], d: usize, out: &mut String) {
    for s in b {
        rstmt(s, d, out);
    }
}

fn rstmt_inline(s: &GStmt, out: &mut String) {
    match s {
        GStmt::Return(e) => {
            out.push_str("return");
            if let Some(e) = e {
                out.push(' ');
                rexpr(e, out);
            }
        }
        GStmt::Pass => out.push_str("pass"),
        GStmt::Expr(e) => rexpr(e, out),
        _ => out.push_str("pass"),
    }
}

fn rstmt(s: &GStmt, d: usize, out: &mut String) {
    ind(out, d);
    match s {
        GStmt::Assign(k, n, e) => {
            match k % 5 {
                0 => out.push_str("let "),
                1 => out.push_str("mut "),
                _ => {}
            }
            out.push_str(pick(&NAMES, *n));
            if k % 3 == 0 {
                out.push_str(": ");
                out.push_str(pick(&TYPES, *n / 3));
            }
            out.push_str(" = ");
            rexpr(e, out);
            out.push('\n');
        }
        GStmt::Expr(e) => {
            rexpr(e, out);
            out.push('\n');
        }
        GStmt::Return(e) => {
            out.push_str("return");
            if let Some(e) = e {
                out.push(' ');
                rexpr(e, out);
            }
            out.push('\n');
        }
        GStmt::Pass => out.push_str("pass\n"),
        GStmt::Break => out.push_str("break\n"),
        GStmt::Continue => out.push_str("continue\n"),
        GStmt::Compound(n, o, e) => {
            out.push_str(pick(&NAMES, *n));
            out.push(' ');
            out.push_str(pick(&["+=", "-=", "*=", "/=", "//=", "%="], *o));
            out.push(' ');
            rexpr(e, out);
            out.push('\n');
        }
        GStmt::FieldSet(n, e) => {
            out.push_str("self.");
            out.push_str(pick(&NAMES, *n));
            out.push_str(" = ");
            rexpr(e, out);
            out.push('\n');
        }
        GStmt::IndexSet(i, e) => {
            out.push_str("items[");
            rexpr(i, out);
            out.push_str("] = ");
            rexpr(e, out);
            out.push('\n');
        }
        GStmt::If(c, t, elifs, els) => {
            out.push_str("if ");
            rexpr(c, out);
            out.push_str(":\n");
            rblock(t, d + 1, out);
            for (c, b) in elifs {
                ind(out, d);
                out.push_str("elif ");
                rexpr(c, out);
                out.push_str(":\n");
                rblock(b, d + 1, out);
            }
            if let Some(b) = els {
                ind(out, d);
                out.push_str("else:\n");
                rblock(b, d + 1, out);
            }
        }
        GStmt::While(c, b) => {
            out.push_str("while ");
            rexpr(c, out);
            out.push_str(":\n");
            rblock(b, d + 1, out);
        }
        GStmt::For(v, it, b) => {
            out.push_str("for ");
            out.push_str(pick(&NAMES, *v));
            out.push_str(" in ");
            rexpr(it, out);
            out.push_str(":\n");
            rblock(b, d + 1, out);
        }
        GStmt::Match(subj, arms) => {
            out.push_str("match ");
            rexpr(subj, out);
            out.push_str(":\n");
            for (p, guard, form, body) in arms {
                ind(out, d + 1);
                let pat = pick(&PATTERNS, *p);
                match form % 4 {
                    0 | 1 => {
                        out.push_str("case ");
                        out.push_str(pat);
                        if let Some(g) = guard {
                            out.push_str(" if ");
                            rexpr(g, out);
                        }
                        out.push(':');
                        if form % 4 == 0 {
                            out.push('\n');
                            rblock(body, d + 2, out);
                        } else {
                            out.push(' ');
                            rstmt_inline(&body[0], out);
                            out.push('\n');
                        }
                    }
                    2 => {
                        out.push_str(pat);
                        out.push_str(" => ");
                        rstmt_inline(&body[0], out);
                        out.push('\n');
                    }
                    _ => {
                        out.push_str(pat);
                        out.push_str(" =>\n");
                        rblock(body, d + 2, out);
                    }
                }
            }
        }
    }
}

fn rparams(n: u8, receiver: Option<bool>, out: &mut String) {
    out.push('(');
    let mut first = true;
    if let Some(m) = receiver {
        out.push_str(if m { "mut self" } else { "self" });
        first = false;
    }
    for i in 0..n {
        if !first {
            out.push_str(", ");
        }
        first = false;
        out.push_str(pick(&NAMES, i));
        out.push_str(": ");
        out.push_str(pick(&TYPES, i * 3 + n));
        if i == 3 {
            out.push_str(" = 1");
        }
    }
    out.push(')');
}

pub fn render_program(ds: &[GDecl]) -> String {
    let mut out = String::new();
    for (k, d) in ds.iter().enumerate() {
        if k > 0 {
            out.push('\n');
        }
        match d {
            GDecl::Func { name, params, body, decorated, is_async } => {
                if *decorated {
                    out.push_str("@route(\"/x\", methods=[\"GET\"])\n");
                }
                if *is_async {
                    out.push_str("async ");
                }
                out.push_str("def ");
                out.push_str(pick(&FUNCS, *name));
                out.push_str(&format!("_{k}"));
                rparams(*params, None, &mut out);
                out.push_str(" -> ");
                out.push_str(pick(&TYPES, *name));
                out.push_str(":\n");
                rblock(body, 1, &mut out);
            }
            GDecl::Class { kind, name, fields, methods, decorated } => {
                if *decorated {
                    out.push_str("@derive(Debug, Clone)\n");
                }
                out.push_str(if *kind == 0 { "class " } else { "model " });
                out.push_str(pick(&TNAMES, *name));
                out.push_str(":\n");
                for i in 0..*fields {
                    out.push_str("    ");
                    out.push_str(pick(&NAMES, i + *name));
                    out.push_str(": ");
                    out.push_str(pick(&TYPES, i + *name));
                    if i == 2 {
                        out.push_str(" = 0");
                    }
                    out.push('\n');
                }
                if *fields == 0 && methods.is_empty() {
                    out.push_str("    x: int\n");
                }
                for (j, (m, mutself, body)) in methods.iter().enumerate() {
                    if j > 0 || *fields > 0 {
                        out.push('\n');
                    }
                    out.push_str("    def ");
                    out.push_str(pick(&["area", "get", "update", "reset"], *m));
                    rparams(*m % 3, Some(*mutself), &mut out);
                    out.push_str(" -> ");
                    out.push_str(pick(&TYPES, *m));
                    out.push_str(":\n");
                    rblock(body, 2, &mut out);
                }
            }
            GDecl::Trait { name, abstract_methods, methods } => {
                out.push_str("trait ");
                out.push_str(pick(&TNAMES, *name));
                out.push_str(":\n");
                for i in 0..*abstract_methods {
                    out.push_str(&format!("    def req_{i}(self) -> {}", pick(&TYPES, i)));
                    if i % 2 == 1 {
                        out.push_str(": ...");
                    }
                    out.push('\n');
                }
                for (m, body) in methods {
                    out.push_str("    def ");
                    out.push_str(pick(&["describe", "show"], *m));
                    out.push_str("(self) -> str:\n");
                    rblock(body, 2, &mut out);
                }
                if *abstract_methods == 0 && methods.is_empty() {
                    out.push_str("    def only(self) -> int\n");
                }
            }
            GDecl::Enum { name, variants } => {
                out.push_str("enum ");
                out.push_str(pick(&TNAMES, *name));
                out.push_str(":\n");
                for i in 0..*variants {
                    out.push_str(&format!("    V{i}"));
                    if i % 2 == 1 {
                        out.push_str("(int, str)");
                    }
                    out.push('\n');
                }
            }
            GDecl::Const(n, e) => {
                out.push_str(&format!("const C{}: int = ", n % 7));
                rexpr(e, &mut out);
                out.push('\n');
            }
            GDecl::Import(i) => {
                out.push_str(pick(
                    &[
                        "import util\n",
                        "from models import Point, Shape\n",
                        "import rust::std::fs\n",
                        "from ..lib import helper as h\n",
                        "import super\n",
                        "from super::models import A\n",
                        "import crate::util as u\n",
                        "import ..sibling\n",
                        "from rust::serde_json import Value, Map\n",
                        "import python \"numpy\" as np\n",
                    ],
                    *i,
                ));
            }
            GDecl::Docstring(multi) => {
                out.push_str(if *multi { "\"\"\"Doc\n\n    indented text # not a comment\n\"\"\"\n" } else { "\"\"\"One line\"\"\"\n" });
            }
        }
    }
    out
}
