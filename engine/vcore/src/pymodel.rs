//! Independent reference models of the Python-coincident core used by C04 (arithmetic) and C05 (indexing,
//! slicing, range). Nothing here calls into the code under test; everything is computed in i128 / on raw
//! IEEE-754 bit patterns, and the thorough tiers cross-check these models against CPython.

// ------------------------------------------------------------------------------------------------
// integers
// ------------------------------------------------------------------------------------------------

/// floor(a / b) and a - floor(a/b)*b in i128 (b != 0).
pub fn int_divmod(a: i64, b: i64) -> (i128, i128) {
    let (a, b) = (a as i128, b as i128);
    let mut q = a / b;
    // truncation rounded toward zero; step down when the exact quotient is negative and inexact
    if (a % b != 0) && ((a < 0) != (b < 0)) {
        q -= 1;
    }
    let r = a - q * b;
    (q, r)
}

// ------------------------------------------------------------------------------------------------
// floats
// ------------------------------------------------------------------------------------------------

/// Decompose a finite non-zero |x| into (mantissa, exponent) with |x| == mantissa * 2^exponent, mantissa < 2^53.
fn decompose(x: f64) -> (u64, i32) {
    let bits = x.to_bits() & 0x7fff_ffff_ffff_ffff;
    let e = (bits >> 52) as i32;
    let m = bits & ((1u64 << 52) - 1);
    if e == 0 {
        (m, -1074)
    } else {
        (m | (1u64 << 52), e - 1075)
    }
}

/// Exact m * 2^e as f64 for m < 2^53 when the result is representable (always the case for fmod results).
fn compose(m: u64, e: i32) -> f64 {
    fn pow2(k: i32) -> f64 {
        debug_assert!((-1022..=1023).contains(&k));
        f64::from_bits(((k + 1023) as u64) << 52)
    }
    let mut v = m as f64;
    let mut e = e;
    // scale in steps that keep every intermediate exact (see the call sites: the final value is representable)
    while e > 1000 {
        v *= pow2(1000);
        e -= 1000;
    }
    while e < -1000 {
        v *= pow2(-1000);
        e += 1000;
    }
    v * pow2(e)
}

/// C `fmod(a, b)` for finite a and finite non-zero b, computed exactly with integer arithmetic on the
/// mantissas (the result of fmod is always exactly representable). Sign of the result is the sign of `a`.
pub fn fmod_exact(a: f64, b: f64) -> f64 {
    debug_assert!(a.is_finite() && b.is_finite() && b != 0.0);
    if a == 0.0 {
        return a;
    }
    let neg = a.is_sign_negative();
    let (aa, ab) = (a.abs(), b.abs());
    if aa < ab {
        return a;
    }
    let (ma, ea) = decompose(a);
    let (mb, eb) = decompose(b);
    let mag = if ea >= eb {
        // (ma * 2^(ea-eb)) mod mb, 64 bits of shift at a time
        let mb128 = mb as u128;
        let mut r: u128 = (ma as u128) % mb128;
        let mut shift = (ea - eb) as u32;
        while shift > 0 {
            let s = shift.min(64);
            r = (r << s) % mb128;
            shift -= s;
        }
        compose(r as u64, eb)
    } else {
        // |a| >= |b| with a smaller exponent: eb - ea < 53 and mb << (eb-ea) <= ma
        let d = (eb - ea) as u32;
        let mbs = (mb as u128) << d;
        let r = (ma as u128) % mbs;
        compose(r as u64, ea)
    };
    if neg {
        -mag
    } else {
        mag
    }
}

/// CPython `float_rem` (Objects/floatobject.c): fmod, then add the divisor when the signs differ; a zero
/// result takes the sign of the divisor.
pub fn float_rem(a: f64, b: f64) -> f64 {
    let mut m = fmod_exact(a, b);
    if m != 0.0 {
        if (b < 0.0) != (m < 0.0) {
            m += b;
        }
    } else {
        m = 0.0f64.copysign(b);
    }
    m
}

/// floor() written on the bit level (no libm): largest integral value <= x.
pub fn floor_exact(x: f64) -> f64 {
    if !x.is_finite() {
        return x;
    }
    let bits = x.to_bits();
    let e = ((bits >> 52) & 0x7ff) as i32 - 1023;
    if e >= 52 {
        return x; // already integral
    }
    if e < 0 {
        // |x| < 1
        return if x == 0.0 {
            x
        } else if x.is_sign_negative() {
            -1.0
        } else {
            0.0
        };
    }
    let frac_mask: u64 = (1u64 << (52 - e)) - 1;
    if bits & frac_mask == 0 {
        return x;
    }
    let trunc = f64::from_bits(bits & !frac_mask);
    if x.is_sign_negative() {
        trunc - 1.0
    } else {
        trunc
    }
}

/// Equality that treats +0.0 and -0.0 as equal and is bit-exact otherwise (NaN equals NaN).
pub fn same_f64(x: f64, y: f64) -> bool {
    if x == 0.0 && y == 0.0 {
        return true;
    }
    if x.is_nan() && y.is_nan() {
        return true;
    }
    x.to_bits() == y.to_bits()
}

// ------------------------------------------------------------------------------------------------
// sequences
// ------------------------------------------------------------------------------------------------

/// Python `seq[i]`: position of the element, or None when out of range.
pub fn index_pos(len: usize, i: i64) -> Option<usize> {
    let n = len as i128;
    let mut k = i as i128;
    if k < 0 {
        k += n;
    }
    if k < 0 || k >= n {
        None
    } else {
        Some(k as usize)
    }
}

#[derive(Clone, Debug, PartialEq, Eq)]
pub struct SlicePlan {
    pub start: i128,
    pub stop: i128,
    pub step: i128,
    pub len: i128,
}

impl SlicePlan {
    /// positions visited, in order
    pub fn positions(&self) -> Vec<usize> {
        (0..self.len).map(|k| (self.start + k * self.step) as usize).collect()
    }
}

/// CPython `PySlice_Unpack` + `PySlice_AdjustIndices` in i128. Err(()) for step == 0.
pub fn slice_plan(len: usize, start: Option<i64>, stop: Option<i64>, step: Option<i64>) -> Result<SlicePlan, ()> {
    let n = len as i128;
    let step = step.map(|s| s as i128).unwrap_or(1);
    if step == 0 {
        return Err(());
    }
    let adjust = |v: Option<i64>, is_start: bool| -> i128 {
        match v {
            None => {
                if is_start {
                    if step < 0 {
                        n - 1
                    } else {
                        0
                    }
                } else if step < 0 {
                    -1
                } else {
                    n
                }
            }
            Some(v) => {
                let mut v = v as i128;
                if v < 0 {
                    v += n;
                    if v < 0 {
                        v = if step < 0 { -1 } else { 0 };
                    }
                } else if v >= n {
                    v = if step < 0 { n - 1 } else { n };
                }
                v
            }
        }
    };
    let start = adjust(start, true);
    let stop = adjust(stop, false);
    let len = if step < 0 {
        if stop < start {
            (start - stop - 1) / (-step) + 1
        } else {
            0
        }
    } else if start < stop {
        (stop - start - 1) / step + 1
    } else {
        0
    };
    Ok(SlicePlan { start, stop, step, len })
}

/// Python `len(range(a, b, c))` (CPython compute_range_length) in i128. Err(()) for c == 0.
pub fn range_len(a: i64, b: i64, c: i64) -> Result<i128, ()> {
    let (a, b, c) = (a as i128, b as i128, c as i128);
    if c == 0 {
        return Err(());
    }
    Ok(if c > 0 && a < b {
        1 + (b - 1 - a) / c
    } else if c < 0 && a > b {
        1 + (a - 1 - b) / (-c)
    } else {
        0
    })
}

/// k-th element of Python `range(a, b, c)` (k < range_len).
pub fn range_at(a: i64, c: i64, k: i128) -> i128 {
    a as i128 + k * c as i128
}

#[cfg(test)]
mod tests {
    use super::*;

    #[test]
    fn fmod_matches_libm_on_samples() {
        let xs = [
            1.0, -1.0, 0.5, 3.0, 7.0, -7.0, 1e308, -1e308, 5e-324, 2.2250738585072014e-308, 9007199254740993.0, 0.1, 1e-20,
            123456.789, f64::MAX, f64::MIN_POSITIVE,
        ];
        for &a in &xs {
            for &b in &xs {
                assert_eq!(fmod_exact(a, b).to_bits(), (a % b).to_bits(), "{a} {b}");
            }
        }
    }

    #[test]
    fn floor_matches() {
        for x in [0.0, -0.0, 0.5, -0.5, 1.5, -1.5, 4503599627370495.5, -4503599627370495.5, 1e300, -1e300, 2.0, -2.0] {
            assert_eq!(floor_exact(x).to_bits(), f64::floor(x).to_bits(), "{x}");
        }
    }

    #[test]
    fn slices() {
        let p = slice_plan(5, None, None, Some(-1)).unwrap();
        assert_eq!(p.positions(), vec![4, 3, 2, 1, 0]);
        let p = slice_plan(5, Some(1), Some(10), None).unwrap();
        assert_eq!(p.positions(), vec![1, 2, 3, 4]);
        assert_eq!(range_len(5, 0, -2), Ok(3));
    }
}
