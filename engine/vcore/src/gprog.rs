//! G-prog: type-directed generator of well-typed Incan programs + R-interp, an independent reference
//! interpreter for them (never calls compiler or runtime code).
//!
//! Generation is driven by a *choice tape* (`Vec<u32>` produced by a proptest strategy): the generator consumes
//! choices left to right and maps 0 to the simplest alternative, so proptest's generic shrinking of the tape
//! (shorter, smaller numbers) yields simpler programs, and every random decision stays inside proptest.
//!
//! Semantics implemented by the interpreter are the documented ones (docs-site `language/reference/
//! numeric_semantics.md`, `strings.md`, `explanation/scopes_and_name_resolution.md`, `control_flow.md`, book
//! chapters): Python-style `// %`, `/` always float, int/float promotion, `**` typing rule, short-circuit
//! `and`/`or`, block scoping with `let`/`mut`/inferred assignment, Python indexing/slicing on Unicode scalars,
//! documented panic texts. Anything the docs do not pin down (float text, bool spelling, len() of a non-ASCII
//! string, dict order) is either not generated or compared loosely by the caller.
//!
//! Names are symbolic; `Names` maps them to identifiers at render time (C13 renames through it).

use std::collections::{BTreeMap, BTreeSet};

// ------------------------------------------------------------------------------------------------
// switches: one per open known finding (false = construct is not generated)
// ------------------------------------------------------------------------------------------------

macro_rules! switches {
    ($($name:ident),* $(,)?) => {
        #[derive(Clone, Debug)]
        pub struct Switches { $(pub $name: bool),* }
        impl Switches {
            pub fn all(v: bool) -> Switches { Switches { $($name: v),* } }
            pub fn names() -> Vec<&'static str> { vec![$(stringify!($name)),*] }
            pub fn set(&mut self, name: &str, v: bool) -> bool {
                match name { $(stringify!($name) => { self.$name = v; true })* _ => false }
            }
            pub fn get(&self, name: &str) -> Option<bool> {
                match name { $(stringify!($name) => Some(self.$name),)* _ => None }
            }
        }
    };
}

switches! {
    paren,              // parenthesised sub-expression where grouping matters
    not_over_cmp,       // `not a == b`
    pow_let_base,       // `**` whose base is a local variable (not a parameter)
    pow_lit_base,       // `**` whose base is an integer literal
    pow_float,          // `**` producing float
    mixed_lt_int_left,  // `int < float`
    str_concat,         // `s + t` with a non-literal operand
    str_cmp_var,        // `==`/`!=`/`<` between strings where an operand is a variable
    default_args,       // calls omitting defaulted parameters
    named_args,         // calls with named arguments
    dict,               // Dict[str, int]
    for_str,            // for ch in <str>
    slice_step,         // a[x:y:z]
    method_named_get,   // (C13) user method called `get`
    len_str,            // len(<str>)
    str_methods,
    fstring,
    list_str,
    comprehension,
    models,
    enums,
    option_result,
    shadow,
    runtime_errors,
    float_ops,
    tuple,
    compound_operands,      // compound expression as operand of abs/len/int/float/str/unary minus/index base/receiver
    lt_after_cast,          // `<` whose left operand is not a plain variable/literal of the same type
    result_literal_binding, // `x: Result[..] = Ok(..)` / Option literal bound by let
    empty_list,             // `[]`
    str_join,
    str_reassign,           // `s = "lit"` on a mut str
    self_str_ops,           // index/slice/method on a str field through self
    noncopy_var_arg,        // passing a str/list/model variable as call argument
    mixed_compound_int,     // int operand of a mixed int/float operation that is not a variable/literal
    big_ints,               // integer literals beyond i32 range (unannotated locals are inferred as i32 by rustc)
    fstring_brace_escape,   // `{{`/`}}` in f-string literal parts
    method_on_let_int,      // abs()/`**` on a let-bound (unannotated) int local
    elif,                   // `elif` arms (not type-checked: lowering has no expression types there)
    noncopy_var_move,       // `y = x` / field / element initialised from a bare str/list/model variable
    ctor_arg_index,         // index/slice expression as constructor argument
    enum_str_payload,       // str payload in enum variants (pattern-bound strs have no type in lowering)
    aug_compound_rhs,       // `x -= a + b`: compound right-hand side of a compound assignment
    setindex_self_ref,      // `xs[xs[0]] = v`: index expression reading the list being written
    field_list_neg_index,   // reading `obj.field[-1]`: negative index on a list reached through a field
    dict_var_key,           // `d[k]` with a str variable key
    dict_inline_literal,    // dict literal in expression position (not the initializer of an annotated binding)
    dict_in_nested_block,   // dict literal bound inside a nested block (HashMap import is only detected at function top level)
    list_builtins,          // sum/min/max/sorted over List[int]
    recursion,
    shadow_param_mut,       // `mut p = ..` in a nested block shadowing a parameter p (the parameter becomes `&mut` in the emitted signature)
}

impl Default for Switches {
    fn default() -> Self {
        let mut s = Switches::all(true);
        // not findings: the docs do not define `{{`/`}}` inside f-strings
        s.fstring_brace_escape = false;
        s
    }
}

#[derive(Clone, Debug)]
pub struct Cfg {
    pub sw: Switches,
    pub max_fns: usize,
    pub max_stmts: usize,
    pub max_depth: u32,
    pub max_block: usize,
}

impl Default for Cfg {
    fn default() -> Self {
        Cfg {
            sw: Switches::default(),
            max_fns: 3,
            max_stmts: 14,
            max_depth: 3,
            max_block: 4,
        }
    }
}

// ------------------------------------------------------------------------------------------------
// tape
// ------------------------------------------------------------------------------------------------

pub struct Tape<'a> {
    data: &'a [u32],
    pos: usize,
}

impl<'a> Tape<'a> {
    pub fn new(data: &'a [u32]) -> Self {
        Tape { data, pos: 0 }
    }
    pub fn next(&mut self) -> u32 {
        let v = self.data.get(self.pos).copied().unwrap_or(0);
        self.pos += 1;
        v
    }
    /// uniform-ish in 0..n, monotone in the raw value (0 -> 0)
    pub fn below(&mut self, n: usize) -> usize {
        if n <= 1 {
            let _ = self.next();
            return 0;
        }
        ((self.next() as u64 * n as u64) >> 32) as usize
    }
    pub fn chance(&mut self, num: u32, den: u32) -> bool {
        // true with probability num/den; raw 0 -> false (simplest)
        let v = self.below(den as usize) as u32;
        v >= den - num
    }
    pub fn exhausted(&self) -> bool {
        self.pos >= self.data.len()
    }
    /// weighted choice; index 0 is the simplest alternative
    pub fn weighted(&mut self, weights: &[u32]) -> usize {
        let total: u32 = weights.iter().sum();
        if total == 0 {
            return 0;
        }
        let mut v = self.below(total as usize) as u32;
        for (i, w) in weights.iter().enumerate() {
            if v < *w {
                return i;
            }
            v -= w;
        }
        weights.len() - 1
    }
}

// ------------------------------------------------------------------------------------------------
// AST
// ------------------------------------------------------------------------------------------------

#[derive(Clone, Debug, PartialEq, Eq, Hash, PartialOrd, Ord)]
pub enum Ty {
    Int,
    Float,
    Bool,
    Str,
    List(Box<Ty>),
    Dict, // Dict[str, int]
    Opt(Box<Ty>),
    Res(Box<Ty>), // Result[T, str]
    Model(usize),
    Enum(usize),
    Tuple(Vec<Ty>),
    Unit,
}

impl Ty {
    pub fn list(t: Ty) -> Ty {
        Ty::List(Box::new(t))
    }
    pub fn is_num(&self) -> bool {
        matches!(self, Ty::Int | Ty::Float)
    }
    pub fn printable(&self) -> bool {
        matches!(self, Ty::Int | Ty::Float | Ty::Bool | Ty::Str)
    }
}

#[derive(Clone, Copy, Debug, PartialEq, Eq, Hash)]
pub enum BinOp {
    Add,
    Sub,
    Mul,
    Div,
    FloorDiv,
    Mod,
    Pow,
    Eq,
    Ne,
    Lt,
    Le,
    Gt,
    Ge,
    And,
    Or,
}

impl BinOp {
    pub fn text(self) -> &'static str {
        match self {
            BinOp::Add => "+",
            BinOp::Sub => "-",
            BinOp::Mul => "*",
            BinOp::Div => "/",
            BinOp::FloorDiv => "//",
            BinOp::Mod => "%",
            BinOp::Pow => "**",
            BinOp::Eq => "==",
            BinOp::Ne => "!=",
            BinOp::Lt => "<",
            BinOp::Le => "<=",
            BinOp::Gt => ">",
            BinOp::Ge => ">=",
            BinOp::And => "and",
            BinOp::Or => "or",
        }
    }
    /// parser precedence level (higher binds tighter)
    pub fn prec(self) -> u8 {
        match self {
            BinOp::Or => 1,
            BinOp::And => 2,
            BinOp::Eq | BinOp::Ne | BinOp::Lt | BinOp::Le | BinOp::Gt | BinOp::Ge => 4,
            BinOp::Add | BinOp::Sub => 6,
            BinOp::Mul | BinOp::Div | BinOp::FloorDiv | BinOp::Mod => 7,
            BinOp::Pow => 8,
        }
    }
    pub fn is_cmp(self) -> bool {
        self.prec() == 4
    }
}

pub const P_NOT: u8 = 3;
pub const P_CMP: u8 = 4;
pub const P_UNARY: u8 = 9;
pub const P_ATOM: u8 = 10;

#[derive(Clone, Copy, Debug, PartialEq, Eq, Hash)]
pub enum StrM {
    Upper,
    Lower,
    Strip,
    Replace,
    Contains,
}

#[derive(Clone, Debug, PartialEq)]
pub enum Expr {
    Int(i64),
    Float(f64),
    Bool(bool),
    Str(String),
    Var(u32),
    SelfField(usize),
    Bin(BinOp, Box<Expr>, Box<Expr>),
    Neg(Box<Expr>),
    Not(Box<Expr>),
    /// user function call: (fn index, positional args, named arg order if named)
    Call(usize, Vec<Expr>, bool),
    StrMethod(StrM, Box<Expr>, Vec<Expr>),
    Join(Box<Expr>, Box<Expr>),
    Len(Box<Expr>),
    Abs(Box<Expr>),
    ToInt(Box<Expr>),
    ToFloat(Box<Expr>),
    ToStr(Box<Expr>),
    Index(Box<Expr>, Box<Expr>),
    Slice(Box<Expr>, Option<Box<Expr>>, Option<Box<Expr>>, Option<Box<Expr>>),
    ListLit(Vec<Expr>, Ty),
    /// [elem for var in iter if cond]
    Comp(Box<Expr>, u32, Box<Expr>, Option<Box<Expr>>),
    DictLit(Vec<(String, Expr)>),
    In(Box<Expr>, Box<Expr>, bool),
    Field(Box<Expr>, usize, usize), // (receiver, model, field)
    New(usize, Vec<Expr>),          // model constructor, all fields by keyword (defaults may be omitted: None)
    NewPartial(usize, Vec<Option<Expr>>),
    Variant(usize, usize, Vec<Expr>),
    Method(Box<Expr>, usize, usize, Vec<Expr>), // (receiver, model, method, args)
    SomeE(Box<Expr>),
    NoneE,
    OkE(Box<Expr>),
    ErrE(Box<Expr>),
    Try(Box<Expr>),
    FStr(Vec<FPart>),
    Paren(Box<Expr>),
    TupleLit(Vec<Expr>),
    TupleIdx(Box<Expr>, usize),
    /// lvalue-style access path: root variable followed by field / index steps
    Path(u32, Vec<Step>),
    /// sum / min / max of a List[int]
    ListFn(ListFn, Box<Expr>),
    /// sorted(List[int])
    Sorted(Box<Expr>),
    /// recursive call of the function being defined: (fn index, args)
    SelfCall(usize, Vec<Expr>),
}

#[derive(Clone, Copy, Debug, PartialEq, Eq, Hash)]
pub enum ListFn {
    Sum,
    Min,
    Max,
}

#[derive(Clone, Debug, PartialEq)]
pub enum Step {
    Field(usize, usize),
    Index(Box<Expr>),
}

#[derive(Clone, Debug, PartialEq)]
pub enum FPart {
    Lit(String),
    E(Expr),
}

#[derive(Clone, Copy, Debug, PartialEq, Eq)]
pub enum LetKind {
    Let,   // let x = e
    Mut,   // mut x = e
    Plain, // x = e   (inferred new binding)
}

#[derive(Clone, Debug, PartialEq)]
pub enum Pat {
    Variant(usize, usize, Vec<u32>),
    SomeP(u32),
    NoneP,
    OkP(u32),
    ErrP(u32),
    Wild,
}

#[derive(Clone, Copy, Debug, PartialEq, Eq)]
pub enum ArmStyle {
    CaseBlock,  // case P:\n    body
    CaseInline, // case P: stmt
    FatArrow,   // P => stmt
}

#[derive(Clone, Debug, PartialEq)]
pub enum Stmt {
    Let { name: u32, ty: Ty, annotated: bool, kind: LetKind, e: Expr },
    Assign { name: u32, e: Expr },
    Aug { name: u32, op: BinOp, e: Expr },
    Print(Expr),
    If { arms: Vec<(Expr, Vec<Stmt>)>, els: Option<Vec<Stmt>> },
    /// `while c < bound [and extra]:` with `c += 1` as first body statement
    While { counter: u32, bound: i64, extra: Option<Expr>, body: Vec<Stmt> },
    ForRange { var: u32, args: Vec<Expr>, body: Vec<Stmt> },
    ForIn { var: u32, iter: Expr, body: Vec<Stmt> },
    Break,
    Continue,
    Return(Option<Expr>),
    ExprStmt(Expr),
    Append { name: u32, e: Expr },
    SetIndex { name: u32, idx: Expr, e: Expr },
    DictSet { name: u32, key: Expr, e: Expr },
    FieldSet { name: u32, model: usize, field: usize, e: Expr },
    SelfFieldSet { field: usize, e: Expr },
    SelfFieldAug { field: usize, op: BinOp, e: Expr },
    Match { scrut: Expr, arms: Vec<(Pat, Vec<Stmt>)>, style: ArmStyle },
    /// `root.step.step <op>= e`
    PathSet { root: u32, path: Vec<Step>, op: Option<BinOp>, e: Expr },
    Pass,
}

#[derive(Clone, Debug, PartialEq)]
pub struct FnDef {
    pub params: Vec<(u32, Ty, Option<Expr>)>, // (name, type, default literal)
    pub ret: Ty,
    pub body: Vec<Stmt>,
}

#[derive(Clone, Debug, PartialEq)]
pub struct MethodDef {
    pub mut_self: bool,
    pub params: Vec<(u32, Ty)>,
    pub ret: Ty,
    pub body: Vec<Stmt>,
}

#[derive(Clone, Debug, PartialEq)]
pub struct ModelDef {
    pub is_class: bool,
    pub fields: Vec<(Ty, Option<Expr>)>,
    pub methods: Vec<MethodDef>,
}

#[derive(Clone, Debug, PartialEq)]
pub struct EnumDef {
    pub variants: Vec<Vec<Ty>>,
}

#[derive(Clone, Debug, PartialEq, Default)]
pub struct Program {
    pub enums: Vec<EnumDef>,
    pub models: Vec<ModelDef>,
    pub fns: Vec<FnDef>,
    pub main: Vec<Stmt>,
    pub tags: BTreeSet<&'static str>,
}

// ------------------------------------------------------------------------------------------------
// names + renderer
// ------------------------------------------------------------------------------------------------

#[derive(Clone, Debug, PartialEq, Eq, Hash, PartialOrd, Ord)]
pub enum NameKey {
    Var(u32),
    Fn(usize),
    Model(usize),
    Field(usize, usize),
    Method(usize, usize),
    Enum(usize),
    Variant(usize, usize),
}

#[derive(Clone, Debug, Default)]
pub struct Names {
    pub map: BTreeMap<NameKey, String>,
}

impl Names {
    pub fn get(&self, k: &NameKey) -> String {
        if let Some(s) = self.map.get(k) {
            return s.clone();
        }
        match k {
            NameKey::Var(i) => format!("v{i}"),
            NameKey::Fn(i) => format!("fun{i}"),
            NameKey::Model(i) => format!("Mod{i}"),
            NameKey::Field(_, f) => format!("fld{f}"),
            NameKey::Method(_, m) => format!("meth{m}"),
            NameKey::Enum(i) => format!("En{i}"),
            NameKey::Variant(_, v) => format!("Var{v}"),
        }
    }
}

pub fn ty_text(t: &Ty, n: &Names) -> String {
    match t {
        Ty::Int => "int".into(),
        Ty::Float => "float".into(),
        Ty::Bool => "bool".into(),
        Ty::Str => "str".into(),
        Ty::List(e) => format!("List[{}]", ty_text(e, n)),
        Ty::Dict => "Dict[str, int]".into(),
        Ty::Opt(e) => format!("Option[{}]", ty_text(e, n)),
        Ty::Res(e) => format!("Result[{}, str]", ty_text(e, n)),
        Ty::Model(i) => n.get(&NameKey::Model(*i)),
        Ty::Enum(i) => n.get(&NameKey::Enum(*i)),
        Ty::Tuple(ts) => format!("Tuple[{}]", ts.iter().map(|t| ty_text(t, n)).collect::<Vec<_>>().join(", ")),
        Ty::Unit => "None".into(),
    }
}

pub fn str_lit(s: &str) -> String {
    let mut o = String::from("\"");
    for c in s.chars() {
        match c {
            '"' => o.push_str("\\\""),
            '\\' => o.push_str("\\\\"),
            '\n' => o.push_str("\\n"),
            '\t' => o.push_str("\\t"),
            c => o.push(c),
        }
    }
    o.push('"');
    o
}

pub fn float_lit(f: f64) -> String {
    let s = format!("{:?}", f);
    if s.contains('e') || s.contains("inf") || s.contains("NaN") {
        // keep to plain decimal literals
        format!("{:.1}", f)
    } else {
        s
    }
}

fn expr_prec(e: &Expr) -> u8 {
    match e {
        Expr::Bin(op, _, _) => op.prec(),
        Expr::Not(_) => P_NOT,
        Expr::In(..) => P_CMP,
        Expr::Neg(_) => P_UNARY,
        Expr::Int(v) if *v < 0 => P_UNARY,
        Expr::Float(v) if *v < 0.0 => P_UNARY,
        _ => P_ATOM,
    }
}

pub struct Renderer<'a> {
    pub names: &'a Names,
    pub prog: &'a Program,
}

impl<'a> Renderer<'a> {
    pub fn expr(&self, e: &Expr) -> String {
        let n = self.names;
        match e {
            Expr::Int(v) => v.to_string(),
            Expr::Float(v) => float_lit(*v),
            Expr::Bool(b) => if *b { "true".into() } else { "false".into() },
            Expr::Str(s) => str_lit(s),
            Expr::Var(v) => n.get(&NameKey::Var(*v)),
            Expr::SelfField(f) => format!("self.{}", n.get(&NameKey::Field(usize::MAX, *f))),
            Expr::Bin(op, l, r) => format!("{} {} {}", self.expr(l), op.text(), self.expr(r)),
            Expr::Neg(x) => format!("-{}", self.expr(x)),
            Expr::Not(x) => format!("not {}", self.expr(x)),
            Expr::Call(f, args, named) => {
                let fd = &self.prog.fns[*f];
                let mut parts: Vec<String> = Vec::new();
                if *named {
                    // named arguments in reverse declaration order (order of evaluation is left to right as written)
                    for (i, a) in args.iter().enumerate().rev() {
                        parts.push(format!("{}={}", n.get(&NameKey::Var(fd.params[i].0)), self.expr(a)));
                    }
                } else {
                    for a in args {
                        parts.push(self.expr(a));
                    }
                }
                format!("{}({})", n.get(&NameKey::Fn(*f)), parts.join(", "))
            }
            Expr::StrMethod(m, recv, args) => {
                let name = match m {
                    StrM::Upper => "upper",
                    StrM::Lower => "lower",
                    StrM::Strip => "strip",
                    StrM::Replace => "replace",
                    StrM::Contains => "contains",
                };
                format!("{}.{}({})", self.expr(recv), name, args.iter().map(|a| self.expr(a)).collect::<Vec<_>>().join(", "))
            }
            Expr::Join(sep, xs) => format!("{}.join({})", self.expr(sep), self.expr(xs)),
            Expr::Len(x) => format!("len({})", self.expr(x)),
            Expr::Abs(x) => format!("abs({})", self.expr(x)),
            Expr::ToInt(x) => format!("int({})", self.expr(x)),
            Expr::ToFloat(x) => format!("float({})", self.expr(x)),
            Expr::ToStr(x) => format!("str({})", self.expr(x)),
            Expr::Index(b, i) => format!("{}[{}]", self.expr(b), self.expr(i)),
            Expr::Slice(b, s, e2, st) => {
                let f = |o: &Option<Box<Expr>>| o.as_ref().map(|x| self.expr(x)).unwrap_or_default();
                if st.is_some() {
                    format!("{}[{}:{}:{}]", self.expr(b), f(s), f(e2), f(st))
                } else {
                    format!("{}[{}:{}]", self.expr(b), f(s), f(e2))
                }
            }
            Expr::ListLit(xs, _) => format!("[{}]", xs.iter().map(|a| self.expr(a)).collect::<Vec<_>>().join(", ")),
            Expr::Comp(el, v, it, cond) => {
                let c = cond.as_ref().map(|c| format!(" if {}", self.expr(c))).unwrap_or_default();
                format!("[{} for {} in {}{}]", self.expr(el), n.get(&NameKey::Var(*v)), self.expr(it), c)
            }
            Expr::DictLit(kvs) => format!(
                "{{{}}}",
                kvs.iter().map(|(k, v)| format!("{}: {}", str_lit(k), self.expr(v))).collect::<Vec<_>>().join(", ")
            ),
            Expr::In(x, c, neg) => format!("{} {} {}", self.expr(x), if *neg { "not in" } else { "in" }, self.expr(c)),
            Expr::Field(r, m, f) => format!("{}.{}", self.expr(r), n.get(&NameKey::Field(*m, *f))),
            Expr::New(m, args) => {
                let parts: Vec<String> = args
                    .iter()
                    .enumerate()
                    .map(|(i, a)| format!("{}={}", n.get(&NameKey::Field(*m, i)), self.expr(a)))
                    .collect();
                format!("{}({})", n.get(&NameKey::Model(*m)), parts.join(", "))
            }
            Expr::NewPartial(m, args) => {
                let parts: Vec<String> = args
                    .iter()
                    .enumerate()
                    .filter_map(|(i, a)| a.as_ref().map(|a| format!("{}={}", n.get(&NameKey::Field(*m, i)), self.expr(a))))
                    .collect();
                format!("{}({})", n.get(&NameKey::Model(*m)), parts.join(", "))
            }
            Expr::Variant(en, v, args) => {
                let base = format!("{}.{}", n.get(&NameKey::Enum(*en)), n.get(&NameKey::Variant(*en, *v)));
                if args.is_empty() {
                    base
                } else {
                    format!("{}({})", base, args.iter().map(|a| self.expr(a)).collect::<Vec<_>>().join(", "))
                }
            }
            Expr::Method(r, m, me, args) => format!(
                "{}.{}({})",
                self.expr(r),
                n.get(&NameKey::Method(*m, *me)),
                args.iter().map(|a| self.expr(a)).collect::<Vec<_>>().join(", ")
            ),
            Expr::SomeE(x) => format!("Some({})", self.expr(x)),
            Expr::NoneE => "None".into(),
            Expr::OkE(x) => format!("Ok({})", self.expr(x)),
            Expr::ErrE(x) => format!("Err({})", self.expr(x)),
            Expr::Try(x) => format!("{}?", self.expr(x)),
            Expr::FStr(parts) => {
                let mut o = String::from("f\"");
                for p in parts {
                    match p {
                        FPart::Lit(s) => {
                            for c in s.chars() {
                                match c {
                                    '"' => o.push_str("\\\""),
                                    '\\' => o.push_str("\\\\"),
                                    '{' => o.push_str("{{"),
                                    '}' => o.push_str("}}"),
                                    c => o.push(c),
                                }
                            }
                        }
                        FPart::E(e) => {
                            o.push('{');
                            o.push_str(&self.expr(e));
                            o.push('}');
                        }
                    }
                }
                o.push('"');
                o
            }
            Expr::Paren(x) => format!("({})", self.expr(x)),
            Expr::TupleLit(xs) => format!("({})", xs.iter().map(|a| self.expr(a)).collect::<Vec<_>>().join(", ")),
            Expr::TupleIdx(t, i) => format!("{}.{}", self.expr(t), i),
            Expr::Path(root, steps) => self.path(*root, steps),
            Expr::ListFn(f, x) => format!(
                "{}({})",
                match f {
                    ListFn::Sum => "sum",
                    ListFn::Min => "min",
                    ListFn::Max => "max",
                },
                self.expr(x)
            ),
            Expr::Sorted(x) => format!("sorted({})", self.expr(x)),
            Expr::SelfCall(f, args) => format!("{}({})", n.get(&NameKey::Fn(*f)), args.iter().map(|a| self.expr(a)).collect::<Vec<_>>().join(", ")),
        }
    }

    pub fn path(&self, root: u32, steps: &[Step]) -> String {
        let mut o = self.names.get(&NameKey::Var(root));
        for st in steps {
            match st {
                Step::Field(m, f) => {
                    o.push('.');
                    o.push_str(&self.names.get(&NameKey::Field(*m, *f)));
                }
                Step::Index(i) => {
                    o.push('[');
                    o.push_str(&self.expr(i));
                    o.push(']');
                }
            }
        }
        o
    }

    fn block(&self, body: &[Stmt], ind: usize, out: &mut String) {
        if body.is_empty() {
            out.push_str(&format!("{}pass\n", "    ".repeat(ind)));
        }
        for s in body {
            self.stmt(s, ind, out);
        }
    }

    pub fn stmt(&self, s: &Stmt, ind: usize, out: &mut String) {
        let n = self.names;
        let pad = "    ".repeat(ind);
        match s {
            Stmt::Let { name, ty, annotated, kind, e } => {
                let kw = match kind {
                    LetKind::Let => "let ",
                    LetKind::Mut => "mut ",
                    LetKind::Plain => "",
                };
                let ann = if *annotated { format!(": {}", ty_text(ty, n)) } else { String::new() };
                out.push_str(&format!("{pad}{kw}{}{ann} = {}\n", n.get(&NameKey::Var(*name)), self.expr(e)));
            }
            Stmt::Assign { name, e } => out.push_str(&format!("{pad}{} = {}\n", n.get(&NameKey::Var(*name)), self.expr(e))),
            Stmt::Aug { name, op, e } => {
                out.push_str(&format!("{pad}{} {}= {}\n", n.get(&NameKey::Var(*name)), op.text(), self.expr(e)))
            }
            Stmt::Print(e) => out.push_str(&format!("{pad}println({})\n", self.expr(e))),
            Stmt::If { arms, els } => {
                for (i, (c, b)) in arms.iter().enumerate() {
                    out.push_str(&format!("{pad}{} {}:\n", if i == 0 { "if" } else { "elif" }, self.expr(c)));
                    self.block(b, ind + 1, out);
                }
                if let Some(b) = els {
                    out.push_str(&format!("{pad}else:\n"));
                    self.block(b, ind + 1, out);
                }
            }
            Stmt::While { counter, bound, extra, body } => {
                let c = n.get(&NameKey::Var(*counter));
                let ex = extra.as_ref().map(|e| format!(" and {}", self.expr(e))).unwrap_or_default();
                out.push_str(&format!("{pad}while {c} < {bound}{ex}:\n"));
                out.push_str(&format!("{pad}    {c} += 1\n"));
                for s in body {
                    self.stmt(s, ind + 1, out);
                }
            }
            Stmt::ForRange { var, args, body } => {
                out.push_str(&format!(
                    "{pad}for {} in range({}):\n",
                    n.get(&NameKey::Var(*var)),
                    args.iter().map(|a| self.expr(a)).collect::<Vec<_>>().join(", ")
                ));
                self.block(body, ind + 1, out);
            }
            Stmt::ForIn { var, iter, body } => {
                out.push_str(&format!("{pad}for {} in {}:\n", n.get(&NameKey::Var(*var)), self.expr(iter)));
                self.block(body, ind + 1, out);
            }
            Stmt::Break => out.push_str(&format!("{pad}break\n")),
            Stmt::Continue => out.push_str(&format!("{pad}continue\n")),
            Stmt::Return(None) => out.push_str(&format!("{pad}return\n")),
            Stmt::Return(Some(e)) => out.push_str(&format!("{pad}return {}\n", self.expr(e))),
            Stmt::ExprStmt(e) => out.push_str(&format!("{pad}{}\n", self.expr(e))),
            Stmt::Append { name, e } => out.push_str(&format!("{pad}{}.append({})\n", n.get(&NameKey::Var(*name)), self.expr(e))),
            Stmt::SetIndex { name, idx, e } => {
                out.push_str(&format!("{pad}{}[{}] = {}\n", n.get(&NameKey::Var(*name)), self.expr(idx), self.expr(e)))
            }
            Stmt::DictSet { name, key, e } => {
                out.push_str(&format!("{pad}{}[{}] = {}\n", n.get(&NameKey::Var(*name)), self.expr(key), self.expr(e)))
            }
            Stmt::FieldSet { name, model, field, e } => out.push_str(&format!(
                "{pad}{}.{} = {}\n",
                n.get(&NameKey::Var(*name)),
                n.get(&NameKey::Field(*model, *field)),
                self.expr(e)
            )),
            Stmt::SelfFieldSet { field, e } => {
                out.push_str(&format!("{pad}self.{} = {}\n", n.get(&NameKey::Field(usize::MAX, *field)), self.expr(e)))
            }
            Stmt::SelfFieldAug { field, op, e } => out.push_str(&format!(
                "{pad}self.{} {}= {}\n",
                n.get(&NameKey::Field(usize::MAX, *field)),
                op.text(),
                self.expr(e)
            )),
            Stmt::Match { scrut, arms, style } => {
                out.push_str(&format!("{pad}match {}:\n", self.expr(scrut)));
                for (p, body) in arms {
                    let pt = self.pat(p);
                    let inline_ok = body.len() == 1 && matches!(body[0], Stmt::Print(_) | Stmt::Return(_) | Stmt::Assign { .. } | Stmt::Aug { .. } | Stmt::ExprStmt(_) | Stmt::Pass);
                    match style {
                        ArmStyle::CaseInline if inline_ok => {
                            let mut b = String::new();
                            self.stmt(&body[0], 0, &mut b);
                            out.push_str(&format!("{pad}    case {pt}: {}", b));
                        }
                        ArmStyle::FatArrow if inline_ok => {
                            let mut b = String::new();
                            self.stmt(&body[0], 0, &mut b);
                            out.push_str(&format!("{pad}    {pt} => {}", b));
                        }
                        _ => {
                            out.push_str(&format!("{pad}    case {pt}:\n"));
                            self.block(body, ind + 2, out);
                        }
                    }
                }
            }
            Stmt::PathSet { root, path, op, e } => {
                let o = op.map(|o| o.text()).unwrap_or("");
                out.push_str(&format!("{pad}{} {o}= {}\n", self.path(*root, path), self.expr(e)));
            }
            Stmt::Pass => out.push_str(&format!("{pad}pass\n")),
        }
    }

    fn pat(&self, p: &Pat) -> String {
        let n = self.names;
        match p {
            Pat::Variant(e, v, bs) => {
                let base = format!("{}.{}", n.get(&NameKey::Enum(*e)), n.get(&NameKey::Variant(*e, *v)));
                if bs.is_empty() {
                    base
                } else {
                    format!("{}({})", base, bs.iter().map(|b| n.get(&NameKey::Var(*b))).collect::<Vec<_>>().join(", "))
                }
            }
            Pat::SomeP(b) => format!("Some({})", n.get(&NameKey::Var(*b))),
            Pat::NoneP => "None".into(),
            Pat::OkP(b) => format!("Ok({})", n.get(&NameKey::Var(*b))),
            Pat::ErrP(b) => format!("Err({})", n.get(&NameKey::Var(*b))),
            Pat::Wild => "_".into(),
        }
    }

    pub fn program(&self) -> String {
        let n = self.names;
        let p = self.prog;
        let mut out = String::new();
        for (i, e) in p.enums.iter().enumerate() {
            out.push_str(&format!("enum {}:\n", n.get(&NameKey::Enum(i))));
            for (vi, payload) in e.variants.iter().enumerate() {
                if payload.is_empty() {
                    out.push_str(&format!("    {}\n", n.get(&NameKey::Variant(i, vi))));
                } else {
                    out.push_str(&format!(
                        "    {}({})\n",
                        n.get(&NameKey::Variant(i, vi)),
                        payload.iter().map(|t| ty_text(t, n)).collect::<Vec<_>>().join(", ")
                    ));
                }
            }
            out.push('\n');
        }
        for (i, m) in p.models.iter().enumerate() {
            // inside a model, `self.<field>` resolves against this model's field names
            let mut local = n.clone();
            for f in 0..m.fields.len() {
                local.map.insert(NameKey::Field(usize::MAX, f), n.get(&NameKey::Field(i, f)));
            }
            let r = Renderer { names: &local, prog: p };
            out.push_str(&format!("{} {}:\n", if m.is_class { "class" } else { "model" }, n.get(&NameKey::Model(i))));
            for (fi, (t, d)) in m.fields.iter().enumerate() {
                let dflt = d.as_ref().map(|d| format!(" = {}", r.expr(d))).unwrap_or_default();
                out.push_str(&format!("    {}: {}{}\n", n.get(&NameKey::Field(i, fi)), ty_text(t, n), dflt));
            }
            for (mi, me) in m.methods.iter().enumerate() {
                out.push('\n');
                let mut ps = vec![if me.mut_self { "mut self".to_string() } else { "self".to_string() }];
                for (pn, pt) in &me.params {
                    ps.push(format!("{}: {}", n.get(&NameKey::Var(*pn)), ty_text(pt, n)));
                }
                out.push_str(&format!(
                    "    def {}({}) -> {}:\n",
                    n.get(&NameKey::Method(i, mi)),
                    ps.join(", "),
                    ty_text(&me.ret, n)
                ));
                r.block(&me.body, 2, &mut out);
            }
            out.push('\n');
        }
        for (i, f) in p.fns.iter().enumerate() {
            let ps: Vec<String> = f
                .params
                .iter()
                .map(|(pn, pt, d)| {
                    let dflt = d.as_ref().map(|d| format!(" = {}", self.expr(d))).unwrap_or_default();
                    format!("{}: {}{}", n.get(&NameKey::Var(*pn)), ty_text(pt, n), dflt)
                })
                .collect();
            out.push_str(&format!("def {}({}) -> {}:\n", n.get(&NameKey::Fn(i)), ps.join(", "), ty_text(&f.ret, n)));
            self.block(&f.body, 1, &mut out);
            out.push('\n');
        }
        out.push_str("def main() -> None:\n");
        self.block(&p.main, 1, &mut out);
        out
    }
}

pub fn render(p: &Program, names: &Names) -> String {
    Renderer { names, prog: p }.program()
}

// ------------------------------------------------------------------------------------------------
// reference interpreter
// ------------------------------------------------------------------------------------------------

#[derive(Clone, Debug, PartialEq)]
pub enum Val {
    Int(i64),
    Float(f64),
    Bool(bool),
    Str(String),
    List(Vec<Val>),
    Dict(BTreeMap<String, i64>),
    Opt(Option<Box<Val>>),
    Res(Result<Box<Val>, String>),
    Model(usize, Vec<Val>),
    Enum(usize, usize, Vec<Val>),
    Tuple(Vec<Val>),
    Unit,
}

#[derive(Clone, Debug, PartialEq)]
pub enum Tok {
    Int(i64),
    Float(f64),
    Bool(bool),
    Str(String),
}

#[derive(Clone, Debug, PartialEq)]
pub enum End {
    Normal,
    /// documented runtime error: (exception name, full message)
    Panic(&'static str, String),
}

#[derive(Clone, Debug, PartialEq)]
pub struct Expected {
    pub lines: Vec<Tok>,
    pub end: End,
}

/// Why a program cannot be judged (out of the documented domain) — discarded, never a verdict.
#[derive(Clone, Debug, PartialEq)]
pub enum Discard {
    Overflow,
    NonFinite,
    Fuel,
    Internal(String),
}

enum Flow {
    Next,
    Break,
    Continue,
    Return(Val),
}

enum Stop {
    Panic(&'static str, String),
    Discard(Discard),
}

type R<T> = Result<T, Stop>;

struct Frame {
    scopes: Vec<Vec<(u32, Val)>>,
    self_val: Option<Val>,
}

pub struct Interp<'a> {
    prog: &'a Program,
    lines: Vec<Tok>,
    fuel: u64,
    depth: u32,
}

fn ovf<T>(o: Option<T>) -> R<T> {
    o.ok_or(Stop::Discard(Discard::Overflow))
}

fn fin(f: f64) -> R<f64> {
    if f.is_finite() {
        Ok(f)
    } else {
        Err(Stop::Discard(Discard::NonFinite))
    }
}

const ZERO_DIV: &str = "ZeroDivisionError: float division by zero";

pub fn floor_div_i(a: i64, b: i64) -> Option<i64> {
    let q = a.checked_div(b)?;
    let r = a.checked_rem(b)?;
    if r != 0 && ((r < 0) != (b < 0)) {
        q.checked_sub(1)
    } else {
        Some(q)
    }
}

pub fn mod_i(a: i64, b: i64) -> Option<i64> {
    let r = a.checked_rem(b)?;
    if r != 0 && ((r < 0) != (b < 0)) {
        r.checked_add(b)
    } else {
        Some(r)
    }
}

pub fn mod_f(a: f64, b: f64) -> f64 {
    // CPython float_rem
    let mut m = a % b;
    if m != 0.0 {
        if (b < 0.0) != (m < 0.0) {
            m += b;
        }
    } else {
        m = 0.0f64.copysign(b);
    }
    m
}

/// CPython PySlice_AdjustIndices + element enumeration over a sequence of length `len`.
pub fn slice_indices(len: usize, start: Option<i64>, stop: Option<i64>, step: Option<i64>) -> Result<Vec<usize>, ()> {
    let len = len as i128;
    let step = step.unwrap_or(1) as i128;
    if step == 0 {
        return Err(());
    }
    let adj = |v: Option<i64>, dflt_pos: i128, dflt_neg: i128| -> i128 {
        match v {
            None => {
                if step > 0 {
                    dflt_pos
                } else {
                    dflt_neg
                }
            }
            Some(v) => {
                let mut v = v as i128;
                if v < 0 {
                    v += len;
                    if v < 0 {
                        v = if step < 0 { -1 } else { 0 };
                    }
                } else if v >= len {
                    v = if step < 0 { len - 1 } else { len };
                }
                v
            }
        }
    };
    let s = adj(start, 0, len - 1);
    let e = adj(stop, len, -1);
    let mut out = Vec::new();
    let mut i = s;
    if step > 0 {
        while i < e {
            out.push(i as usize);
            i += step;
        }
    } else {
        while i > e {
            out.push(i as usize);
            i += step;
        }
    }
    Ok(out)
}

fn norm_index(len: usize, i: i64) -> Option<usize> {
    let l = len as i128;
    let mut v = i as i128;
    if v < 0 {
        v += l;
    }
    if v < 0 || v >= l {
        None
    } else {
        Some(v as usize)
    }
}

impl<'a> Interp<'a> {
    pub fn run(prog: &'a Program) -> Result<Expected, Discard> {
        let mut it = Interp { prog, lines: Vec::new(), fuel: 200_000, depth: 0 };
        let mut fr = Frame { scopes: vec![Vec::new()], self_val: None };
        match it.block(&prog.main, &mut fr, false) {
            Ok(_) => Ok(Expected { lines: it.lines, end: End::Normal }),
            Err(Stop::Panic(k, m)) => Ok(Expected { lines: it.lines, end: End::Panic(k, m) }),
            Err(Stop::Discard(d)) => Err(d),
        }
    }

    fn tick(&mut self) -> R<()> {
        if self.fuel == 0 {
            return Err(Stop::Discard(Discard::Fuel));
        }
        self.fuel -= 1;
        Ok(())
    }

    fn lookup<'f>(&self, fr: &'f Frame, name: u32) -> Option<&'f Val> {
        for sc in fr.scopes.iter().rev() {
            for (n, v) in sc.iter().rev() {
                if *n == name {
                    return Some(v);
                }
            }
        }
        None
    }

    fn lookup_mut<'f>(&self, fr: &'f mut Frame, name: u32) -> Option<&'f mut Val> {
        for sc in fr.scopes.iter_mut().rev() {
            for (n, v) in sc.iter_mut().rev() {
                if *n == name {
                    return Some(v);
                }
            }
        }
        None
    }

    fn bind(&self, fr: &mut Frame, name: u32, v: Val) {
        fr.scopes.last_mut().unwrap().push((name, v));
    }

    /// run a block in a new scope (`scoped`) or in the current one
    fn block(&mut self, body: &[Stmt], fr: &mut Frame, scoped: bool) -> R<Flow> {
        if scoped {
            fr.scopes.push(Vec::new());
        }
        let mut res = Ok(Flow::Next);
        for s in body {
            match self.stmt(s, fr) {
                Ok(Flow::Next) => {}
                other => {
                    res = other;
                    break;
                }
            }
        }
        if scoped {
            fr.scopes.pop();
        }
        res
    }

    fn print_val(&mut self, v: Val) -> R<()> {
        let t = match v {
            Val::Int(i) => Tok::Int(i),
            Val::Float(f) => Tok::Float(fin(f)?),
            Val::Bool(b) => Tok::Bool(b),
            Val::Str(s) => Tok::Str(s),
            other => return Err(Stop::Discard(Discard::Internal(format!("print of {other:?}")))),
        };
        self.lines.push(t);
        Ok(())
    }

    fn stmt(&mut self, s: &Stmt, fr: &mut Frame) -> R<Flow> {
        self.tick()?;
        match s {
            Stmt::Let { name, kind, e, .. } => {
                let v = self.eval(e, fr)?;
                match kind {
                    LetKind::Let | LetKind::Mut => self.bind(fr, *name, v),
                    LetKind::Plain => {
                        // inferred: reassign if the name exists in any enclosing scope, else new binding
                        if let Some(slot) = self.lookup_mut(fr, *name) {
                            *slot = v;
                        } else {
                            self.bind(fr, *name, v);
                        }
                    }
                }
                Ok(Flow::Next)
            }
            Stmt::Assign { name, e } => {
                let v = self.eval(e, fr)?;
                match self.lookup_mut(fr, *name) {
                    Some(slot) => *slot = v,
                    None => return Err(Stop::Discard(Discard::Internal("assign to unknown".into()))),
                }
                Ok(Flow::Next)
            }
            Stmt::Aug { name, op, e } => {
                let cur = self.lookup(fr, *name).cloned().ok_or(Stop::Discard(Discard::Internal("aug unknown".into())))?;
                let rhs = self.eval(e, fr)?;
                let v = self.binop(*op, cur, rhs, None)?;
                *self.lookup_mut(fr, *name).unwrap() = v;
                Ok(Flow::Next)
            }
            Stmt::Print(e) => {
                let v = self.eval(e, fr)?;
                self.print_val(v)?;
                Ok(Flow::Next)
            }
            Stmt::If { arms, els } => {
                for (c, b) in arms {
                    if self.eval_bool(c, fr)? {
                        return self.block(b, fr, true);
                    }
                }
                if let Some(b) = els {
                    return self.block(b, fr, true);
                }
                Ok(Flow::Next)
            }
            Stmt::While { counter, bound, extra, body } => {
                loop {
                    self.tick()?;
                    let c = match self.lookup(fr, *counter) {
                        Some(Val::Int(c)) => *c,
                        _ => return Err(Stop::Discard(Discard::Internal("while counter".into()))),
                    };
                    if !(c < *bound) {
                        break;
                    }
                    if let Some(ex) = extra {
                        if !self.eval_bool(ex, fr)? {
                            break;
                        }
                    }
                    fr.scopes.push(Vec::new());
                    *self.lookup_mut(fr, *counter).unwrap() = Val::Int(ovf(c.checked_add(1))?);
                    let r = self.block(body, fr, false);
                    fr.scopes.pop();
                    match r? {
                        Flow::Break => break,
                        Flow::Return(v) => return Ok(Flow::Return(v)),
                        _ => {}
                    }
                }
                Ok(Flow::Next)
            }
            Stmt::ForRange { var, args, body } => {
                let mut vs = Vec::new();
                for a in args {
                    match self.eval(a, fr)? {
                        Val::Int(i) => vs.push(i),
                        _ => return Err(Stop::Discard(Discard::Internal("range arg".into()))),
                    }
                }
                let (a, b, c) = match vs.len() {
                    1 => (0, vs[0], 1),
                    2 => (vs[0], vs[1], 1),
                    _ => (vs[0], vs[1], vs[2]),
                };
                if c == 0 {
                    return Err(Stop::Panic("ValueError", "ValueError: range() arg 3 must not be zero".into()));
                }
                let mut i = a as i128;
                loop {
                    if (c > 0 && i >= b as i128) || (c < 0 && i <= b as i128) {
                        break;
                    }
                    self.tick()?;
                    fr.scopes.push(vec![(*var, Val::Int(i as i64))]);
                    let r = self.block(body, fr, false);
                    fr.scopes.pop();
                    match r? {
                        Flow::Break => break,
                        Flow::Return(v) => return Ok(Flow::Return(v)),
                        _ => {}
                    }
                    i += c as i128;
                }
                Ok(Flow::Next)
            }
            Stmt::ForIn { var, iter, body } => {
                let items: Vec<Val> = match self.eval(iter, fr)? {
                    Val::List(xs) => xs,
                    Val::Str(s) => s.chars().map(|c| Val::Str(c.to_string())).collect(),
                    _ => return Err(Stop::Discard(Discard::Internal("for-in iterable".into()))),
                };
                for it in items {
                    self.tick()?;
                    fr.scopes.push(vec![(*var, it)]);
                    let r = self.block(body, fr, false);
                    fr.scopes.pop();
                    match r? {
                        Flow::Break => break,
                        Flow::Return(v) => return Ok(Flow::Return(v)),
                        _ => {}
                    }
                }
                Ok(Flow::Next)
            }
            Stmt::Break => Ok(Flow::Break),
            Stmt::Continue => Ok(Flow::Continue),
            Stmt::Return(None) => Ok(Flow::Return(Val::Unit)),
            Stmt::Return(Some(e)) => {
                let v = self.eval(e, fr)?;
                Ok(Flow::Return(v))
            }
            Stmt::ExprStmt(e) => {
                // method calls with `mut self` on a variable receiver write the receiver back
                if let Expr::Method(recv, m, me, args) = e {
                    if let Expr::Var(name) = &**recv {
                        let rv = self.lookup(fr, *name).cloned().ok_or(Stop::Discard(Discard::Internal("recv".into())))?;
                        let mut argv = Vec::new();
                        for a in args {
                            argv.push(self.eval(a, fr)?);
                        }
                        let (_, new_self) = self.call_method(*m, *me, rv, argv)?;
                        if self.prog.models[*m].methods[*me].mut_self {
                            *self.lookup_mut(fr, *name).unwrap() = new_self;
                        }
                        return Ok(Flow::Next);
                    }
                }
                self.eval(e, fr)?;
                Ok(Flow::Next)
            }
            Stmt::Append { name, e } => {
                let v = self.eval(e, fr)?;
                match self.lookup_mut(fr, *name) {
                    Some(Val::List(xs)) => xs.push(v),
                    _ => return Err(Stop::Discard(Discard::Internal("append".into()))),
                }
                Ok(Flow::Next)
            }
            Stmt::SetIndex { name, idx, e } => {
                // evaluation order of `xs[i] = e` is not documented: operands are kept pure by the generator
                let i = match self.eval(idx, fr)? {
                    Val::Int(i) => i,
                    _ => return Err(Stop::Discard(Discard::Internal("setindex idx".into()))),
                };
                let v = self.eval(e, fr)?;
                match self.lookup_mut(fr, *name) {
                    Some(Val::List(xs)) => {
                        let len = xs.len();
                        match norm_index(len, i) {
                            Some(k) => xs[k] = v,
                            None => {
                                return Err(Stop::Panic("IndexError", format!("IndexError: index {i} out of range for list of length {len}")))
                            }
                        }
                    }
                    _ => return Err(Stop::Discard(Discard::Internal("setindex".into()))),
                }
                Ok(Flow::Next)
            }
            Stmt::DictSet { name, key, e } => {
                let k = match self.eval(key, fr)? {
                    Val::Str(s) => s,
                    _ => return Err(Stop::Discard(Discard::Internal("dict key".into()))),
                };
                let v = match self.eval(e, fr)? {
                    Val::Int(i) => i,
                    _ => return Err(Stop::Discard(Discard::Internal("dict val".into()))),
                };
                match self.lookup_mut(fr, *name) {
                    Some(Val::Dict(d)) => {
                        d.insert(k, v);
                    }
                    _ => return Err(Stop::Discard(Discard::Internal("dictset".into()))),
                }
                Ok(Flow::Next)
            }
            Stmt::FieldSet { name, field, e, .. } => {
                let v = self.eval(e, fr)?;
                match self.lookup_mut(fr, *name) {
                    Some(Val::Model(_, fs)) => fs[*field] = v,
                    _ => return Err(Stop::Discard(Discard::Internal("fieldset".into()))),
                }
                Ok(Flow::Next)
            }
            Stmt::SelfFieldSet { field, e } => {
                let v = self.eval(e, fr)?;
                match &mut fr.self_val {
                    Some(Val::Model(_, fs)) => fs[*field] = v,
                    _ => return Err(Stop::Discard(Discard::Internal("self fieldset".into()))),
                }
                Ok(Flow::Next)
            }
            Stmt::SelfFieldAug { field, op, e } => {
                let cur = match &fr.self_val {
                    Some(Val::Model(_, fs)) => fs[*field].clone(),
                    _ => return Err(Stop::Discard(Discard::Internal("self fieldaug".into()))),
                };
                let rhs = self.eval(e, fr)?;
                let v = self.binop(*op, cur, rhs, None)?;
                if let Some(Val::Model(_, fs)) = &mut fr.self_val {
                    fs[*field] = v;
                }
                Ok(Flow::Next)
            }
            Stmt::Match { scrut, arms, .. } => {
                let v = self.eval(scrut, fr)?;
                for (p, body) in arms {
                    let mut binds: Vec<(u32, Val)> = Vec::new();
                    let hit = match (p, &v) {
                        (Pat::Wild, _) => true,
                        (Pat::Variant(_, pv, bs), Val::Enum(_, vv, payload)) if pv == vv => {
                            for (b, x) in bs.iter().zip(payload.iter()) {
                                binds.push((*b, x.clone()));
                            }
                            true
                        }
                        (Pat::SomeP(b), Val::Opt(Some(x))) => {
                            binds.push((*b, (**x).clone()));
                            true
                        }
                        (Pat::NoneP, Val::Opt(None)) => true,
                        (Pat::OkP(b), Val::Res(Ok(x))) => {
                            binds.push((*b, (**x).clone()));
                            true
                        }
                        (Pat::ErrP(b), Val::Res(Err(m))) => {
                            binds.push((*b, Val::Str(m.clone())));
                            true
                        }
                        _ => false,
                    };
                    if hit {
                        fr.scopes.push(binds);
                        let r = self.block(body, fr, false);
                        fr.scopes.pop();
                        return r;
                    }
                }
                Err(Stop::Discard(Discard::Internal("non-exhaustive match".into())))
            }
            Stmt::PathSet { root, path, op, e } => {
                // index operands first (left to right), then the right-hand side; the generator keeps them pure
                let mut idxs: Vec<Option<i64>> = Vec::new();
                for st in path {
                    match st {
                        Step::Field(..) => idxs.push(None),
                        Step::Index(i) => match self.eval(i, fr)? {
                            Val::Int(k) => idxs.push(Some(k)),
                            _ => return Err(Stop::Discard(Discard::Internal("path index".into()))),
                        },
                    }
                }
                let rhs = self.eval(e, fr)?;
                let newv = match op {
                    None => rhs,
                    Some(o) => {
                        let cur = self.eval(&Expr::Path(*root, path.clone()), fr)?;
                        self.binop(*o, cur, rhs, None)?
                    }
                };
                let mut slot: &mut Val = self.lookup_mut(fr, *root).ok_or(Stop::Discard(Discard::Internal("path root".into())))?;
                for (st, ix) in path.iter().zip(idxs.iter()) {
                    slot = match (st, slot) {
                        (Step::Field(_, f), Val::Model(_, fs)) => &mut fs[*f],
                        (Step::Index(_), Val::List(xs)) => {
                            let i = ix.unwrap();
                            let len = xs.len();
                            match norm_index(len, i) {
                                Some(k) => &mut xs[k],
                                None => return Err(Stop::Panic("IndexError", format!("IndexError: index {i} out of range for list of length {len}"))),
                            }
                        }
                        _ => return Err(Stop::Discard(Discard::Internal("path step".into()))),
                    };
                }
                *slot = newv;
                Ok(Flow::Next)
            }
            Stmt::Pass => Ok(Flow::Next),
        }
    }

    fn eval_bool(&mut self, e: &Expr, fr: &mut Frame) -> R<bool> {
        match self.eval(e, fr)? {
            Val::Bool(b) => Ok(b),
            o => Err(Stop::Discard(Discard::Internal(format!("bool expected, got {o:?}")))),
        }
    }

    fn call_fn(&mut self, f: usize, args: Vec<Val>) -> R<Val> {
        self.depth += 1;
        if self.depth > 40 {
            return Err(Stop::Discard(Discard::Fuel));
        }
        let fd = &self.prog.fns[f];
        let mut fr = Frame { scopes: vec![Vec::new()], self_val: None };
        for ((n, _, _), v) in fd.params.iter().zip(args) {
            fr.scopes[0].push((*n, v));
        }
        let r = self.block(&fd.body, &mut fr, false);
        self.depth -= 1;
        match r? {
            Flow::Return(v) => Ok(v),
            _ => Ok(Val::Unit),
        }
    }

    fn call_method(&mut self, m: usize, me: usize, recv: Val, args: Vec<Val>) -> R<(Val, Val)> {
        self.depth += 1;
        if self.depth > 40 {
            return Err(Stop::Discard(Discard::Fuel));
        }
        let md = &self.prog.models[m].methods[me];
        let mut fr = Frame { scopes: vec![Vec::new()], self_val: Some(recv) };
        for ((n, _), v) in md.params.iter().zip(args) {
            fr.scopes[0].push((*n, v));
        }
        let r = self.block(&md.body, &mut fr, false);
        self.depth -= 1;
        let ret = match r? {
            Flow::Return(v) => v,
            _ => Val::Unit,
        };
        Ok((ret, fr.self_val.unwrap()))
    }

    pub fn binop(&mut self, op: BinOp, l: Val, r: Val, pow_int_result: Option<bool>) -> R<Val> {
        use BinOp::*;
        match (op, l, r) {
            (Add, Val::Str(a), Val::Str(b)) => Ok(Val::Str(a + &b)),
            (Eq, Val::Str(a), Val::Str(b)) => Ok(Val::Bool(a == b)),
            (Ne, Val::Str(a), Val::Str(b)) => Ok(Val::Bool(a != b)),
            (Lt, Val::Str(a), Val::Str(b)) => Ok(Val::Bool(a < b)),
            (Le, Val::Str(a), Val::Str(b)) => Ok(Val::Bool(a <= b)),
            (Gt, Val::Str(a), Val::Str(b)) => Ok(Val::Bool(a > b)),
            (Ge, Val::Str(a), Val::Str(b)) => Ok(Val::Bool(a >= b)),
            (Eq, Val::Bool(a), Val::Bool(b)) => Ok(Val::Bool(a == b)),
            (Ne, Val::Bool(a), Val::Bool(b)) => Ok(Val::Bool(a != b)),
            (op, Val::Int(a), Val::Int(b)) => match op {
                Add => Ok(Val::Int(ovf(a.checked_add(b))?)),
                Sub => Ok(Val::Int(ovf(a.checked_sub(b))?)),
                Mul => Ok(Val::Int(ovf(a.checked_mul(b))?)),
                Div => {
                    if b == 0 {
                        return Err(Stop::Panic("ZeroDivisionError", ZERO_DIV.into()));
                    }
                    Ok(Val::Float(fin(a as f64 / b as f64)?))
                }
                FloorDiv => {
                    if b == 0 {
                        return Err(Stop::Panic("ZeroDivisionError", ZERO_DIV.into()));
                    }
                    Ok(Val::Int(ovf(floor_div_i(a, b))?))
                }
                Mod => {
                    if b == 0 {
                        return Err(Stop::Panic("ZeroDivisionError", ZERO_DIV.into()));
                    }
                    Ok(Val::Int(ovf(mod_i(a, b))?))
                }
                Pow => {
                    if pow_int_result == Some(true) {
                        if b < 0 || b > u32::MAX as i64 {
                            return Err(Stop::Discard(Discard::Internal("int pow with bad exponent".into())));
                        }
                        Ok(Val::Int(ovf(a.checked_pow(b as u32))?))
                    } else {
                        Ok(Val::Float(fin((a as f64).powf(b as f64))?))
                    }
                }
                Eq => Ok(Val::Bool(a == b)),
                Ne => Ok(Val::Bool(a != b)),
                Lt => Ok(Val::Bool(a < b)),
                Le => Ok(Val::Bool(a <= b)),
                Gt => Ok(Val::Bool(a > b)),
                Ge => Ok(Val::Bool(a >= b)),
                And | Or => Err(Stop::Discard(Discard::Internal("and/or on ints".into()))),
            },
            (op, l, r) => {
                let (a, b) = match (&l, &r) {
                    (Val::Int(a), Val::Float(b)) => (*a as f64, *b),
                    (Val::Float(a), Val::Int(b)) => (*a, *b as f64),
                    (Val::Float(a), Val::Float(b)) => (*a, *b),
                    _ => return Err(Stop::Discard(Discard::Internal(format!("binop {op:?} on {l:?} {r:?}")))),
                };
                match op {
                    Add => Ok(Val::Float(fin(a + b)?)),
                    Sub => Ok(Val::Float(fin(a - b)?)),
                    Mul => Ok(Val::Float(fin(a * b)?)),
                    Div => {
                        if b == 0.0 {
                            return Err(Stop::Panic("ZeroDivisionError", ZERO_DIV.into()));
                        }
                        Ok(Val::Float(fin(a / b)?))
                    }
                    FloorDiv => {
                        if b == 0.0 {
                            return Err(Stop::Panic("ZeroDivisionError", ZERO_DIV.into()));
                        }
                        Ok(Val::Float(fin((a / b).floor())?))
                    }
                    Mod => {
                        if b == 0.0 {
                            return Err(Stop::Panic("ZeroDivisionError", ZERO_DIV.into()));
                        }
                        Ok(Val::Float(fin(mod_f(a, b))?))
                    }
                    Pow => Ok(Val::Float(fin(a.powf(b))?)),
                    Eq => Ok(Val::Bool(a == b)),
                    Ne => Ok(Val::Bool(a != b)),
                    Lt => Ok(Val::Bool(a < b)),
                    Le => Ok(Val::Bool(a <= b)),
                    Gt => Ok(Val::Bool(a > b)),
                    Ge => Ok(Val::Bool(a >= b)),
                    And | Or => Err(Stop::Discard(Discard::Internal("and/or on floats".into()))),
                }
            }
        }
    }

    fn eval(&mut self, e: &Expr, fr: &mut Frame) -> R<Val> {
        self.tick()?;
        match e {
            Expr::Int(i) => Ok(Val::Int(*i)),
            Expr::Float(f) => Ok(Val::Float(*f)),
            Expr::Bool(b) => Ok(Val::Bool(*b)),
            Expr::Str(s) => Ok(Val::Str(s.clone())),
            Expr::Var(v) => self.lookup(fr, *v).cloned().ok_or(Stop::Discard(Discard::Internal(format!("unbound v{v}")))),
            Expr::SelfField(f) => match &fr.self_val {
                Some(Val::Model(_, fs)) => Ok(fs[*f].clone()),
                _ => Err(Stop::Discard(Discard::Internal("self".into()))),
            },
            Expr::Paren(x) => self.eval(x, fr),
            Expr::Bin(BinOp::And, l, r) => {
                if !self.eval_bool(l, fr)? {
                    return Ok(Val::Bool(false));
                }
                Ok(Val::Bool(self.eval_bool(r, fr)?))
            }
            Expr::Bin(BinOp::Or, l, r) => {
                if self.eval_bool(l, fr)? {
                    return Ok(Val::Bool(true));
                }
                Ok(Val::Bool(self.eval_bool(r, fr)?))
            }
            Expr::Bin(op, l, r) => {
                let lv = self.eval(l, fr)?;
                let rv = self.eval(r, fr)?;
                let pow_int = if *op == BinOp::Pow {
                    // documented rule: int only for int ** non-negative int literal
                    Some(matches!(lv, Val::Int(_)) && matches!(&**r, Expr::Int(k) if *k >= 0))
                } else {
                    None
                };
                self.binop(*op, lv, rv, pow_int)
            }
            Expr::Neg(x) => match self.eval(x, fr)? {
                Val::Int(i) => Ok(Val::Int(ovf(i.checked_neg())?)),
                Val::Float(f) => Ok(Val::Float(-f)),
                _ => Err(Stop::Discard(Discard::Internal("neg".into()))),
            },
            Expr::Not(x) => Ok(Val::Bool(!self.eval_bool(x, fr)?)),
            Expr::Call(f, args, named) => {
                let mut vals: Vec<Option<Val>> = vec![None; args.len()];
                if *named {
                    // written (and evaluated) in reverse declaration order
                    for (i, a) in args.iter().enumerate().rev() {
                        vals[i] = Some(self.eval(a, fr)?);
                    }
                } else {
                    for (i, a) in args.iter().enumerate() {
                        vals[i] = Some(self.eval(a, fr)?);
                    }
                }
                let mut argv: Vec<Val> = vals.into_iter().map(|v| v.unwrap()).collect();
                // defaults for omitted trailing parameters
                let fd = &self.prog.fns[*f];
                for (_, _, d) in fd.params.iter().skip(argv.len()) {
                    match d {
                        Some(Expr::Int(i)) => argv.push(Val::Int(*i)),
                        Some(Expr::Str(s)) => argv.push(Val::Str(s.clone())),
                        Some(Expr::Float(x)) => argv.push(Val::Float(*x)),
                        Some(Expr::Bool(b)) => argv.push(Val::Bool(*b)),
                        _ => return Err(Stop::Discard(Discard::Internal("missing default".into()))),
                    }
                }
                self.call_fn(*f, argv)
            }
            Expr::StrMethod(m, recv, args) => {
                let s = match self.eval(recv, fr)? {
                    Val::Str(s) => s,
                    _ => return Err(Stop::Discard(Discard::Internal("strmethod recv".into()))),
                };
                let mut av = Vec::new();
                for a in args {
                    match self.eval(a, fr)? {
                        Val::Str(s) => av.push(s),
                        _ => return Err(Stop::Discard(Discard::Internal("strmethod arg".into()))),
                    }
                }
                Ok(match m {
                    StrM::Upper => Val::Str(s.to_uppercase()),
                    StrM::Lower => Val::Str(s.to_lowercase()),
                    StrM::Strip => Val::Str(s.trim().to_string()),
                    StrM::Replace => Val::Str(s.replace(&av[0], &av[1])),
                    StrM::Contains => Val::Bool(s.contains(&av[0])),
                })
            }
            Expr::Join(sep, xs) => {
                let sep = match self.eval(sep, fr)? {
                    Val::Str(s) => s,
                    _ => return Err(Stop::Discard(Discard::Internal("join sep".into()))),
                };
                match self.eval(xs, fr)? {
                    Val::List(items) => {
                        let strs: Vec<String> = items
                            .into_iter()
                            .map(|v| match v {
                                Val::Str(s) => s,
                                _ => String::new(),
                            })
                            .collect();
                        Ok(Val::Str(strs.join(&sep)))
                    }
                    _ => Err(Stop::Discard(Discard::Internal("join list".into()))),
                }
            }
            Expr::Len(x) => match self.eval(x, fr)? {
                Val::List(xs) => Ok(Val::Int(xs.len() as i64)),
                Val::Dict(d) => Ok(Val::Int(d.len() as i64)),
                Val::Str(s) => {
                    if !s.is_ascii() {
                        // docs do not say whether len(str) counts scalars or bytes
                        return Err(Stop::Discard(Discard::Internal("len of non-ascii str".into())));
                    }
                    Ok(Val::Int(s.len() as i64))
                }
                _ => Err(Stop::Discard(Discard::Internal("len".into()))),
            },
            Expr::Abs(x) => match self.eval(x, fr)? {
                Val::Int(i) => Ok(Val::Int(ovf(i.checked_abs())?)),
                Val::Float(f) => Ok(Val::Float(f.abs())),
                _ => Err(Stop::Discard(Discard::Internal("abs".into()))),
            },
            Expr::ToInt(x) => match self.eval(x, fr)? {
                Val::Int(i) => Ok(Val::Int(i)),
                Val::Float(f) => {
                    if f.abs() < 9.0e15 {
                        Ok(Val::Int(f.trunc() as i64))
                    } else {
                        Err(Stop::Discard(Discard::Overflow))
                    }
                }
                _ => Err(Stop::Discard(Discard::Internal("int()".into()))),
            },
            Expr::ToFloat(x) => match self.eval(x, fr)? {
                Val::Int(i) => Ok(Val::Float(i as f64)),
                Val::Float(f) => Ok(Val::Float(f)),
                _ => Err(Stop::Discard(Discard::Internal("float()".into()))),
            },
            Expr::ToStr(x) => match self.eval(x, fr)? {
                Val::Int(i) => Ok(Val::Str(i.to_string())),
                Val::Str(s) => Ok(Val::Str(s)),
                _ => Err(Stop::Discard(Discard::Internal("str()".into()))),
            },
            Expr::Index(b, i) => {
                let bv = self.eval(b, fr)?;
                let iv = self.eval(i, fr)?;
                match (bv, iv) {
                    (Val::List(xs), Val::Int(i)) => match norm_index(xs.len(), i) {
                        Some(k) => Ok(xs[k].clone()),
                        None => Err(Stop::Panic(
                            "IndexError",
                            format!("IndexError: index {i} out of range for list of length {}", xs.len()),
                        )),
                    },
                    (Val::Str(s), Val::Int(i)) => {
                        let cs: Vec<char> = s.chars().collect();
                        match norm_index(cs.len(), i) {
                            Some(k) => Ok(Val::Str(cs[k].to_string())),
                            None => Err(Stop::Panic("IndexError", "IndexError: string index out of range".into())),
                        }
                    }
                    (Val::Dict(d), Val::Str(k)) => match d.get(&k) {
                        Some(v) => Ok(Val::Int(*v)),
                        None => Err(Stop::Panic("KeyError", format!("KeyError: '{k}' not found in dict"))),
                    },
                    _ => Err(Stop::Discard(Discard::Internal("index".into()))),
                }
            }
            Expr::Slice(b, s, e2, st) => {
                let bv = self.eval(b, fr)?;
                let mut parts = [None, None, None];
                for (k, o) in [s, e2, st].into_iter().enumerate() {
                    if let Some(x) = o {
                        match self.eval(x, fr)? {
                            Val::Int(i) => parts[k] = Some(i),
                            _ => return Err(Stop::Discard(Discard::Internal("slice part".into()))),
                        }
                    }
                }
                match bv {
                    Val::List(xs) => match slice_indices(xs.len(), parts[0], parts[1], parts[2]) {
                        Ok(ix) => Ok(Val::List(ix.into_iter().map(|i| xs[i].clone()).collect())),
                        Err(()) => Err(Stop::Panic("ValueError", "ValueError: slice step cannot be zero".into())),
                    },
                    Val::Str(s) => {
                        let cs: Vec<char> = s.chars().collect();
                        match slice_indices(cs.len(), parts[0], parts[1], parts[2]) {
                            Ok(ix) => Ok(Val::Str(ix.into_iter().map(|i| cs[i]).collect())),
                            Err(()) => Err(Stop::Panic("ValueError", "ValueError: slice step cannot be zero".into())),
                        }
                    }
                    _ => Err(Stop::Discard(Discard::Internal("slice".into()))),
                }
            }
            Expr::ListLit(xs, _) => {
                let mut out = Vec::new();
                for x in xs {
                    out.push(self.eval(x, fr)?);
                }
                Ok(Val::List(out))
            }
            Expr::Comp(el, var, it, cond) => {
                let items = match self.eval(it, fr)? {
                    Val::List(xs) => xs,
                    _ => return Err(Stop::Discard(Discard::Internal("comp iter".into()))),
                };
                let mut out = Vec::new();
                for item in items {
                    self.tick()?;
                    fr.scopes.push(vec![(*var, item)]);
                    let keep = match cond {
                        Some(c) => self.eval_bool(c, fr),
                        None => Ok(true),
                    };
                    let r = match keep {
                        Ok(true) => self.eval(el, fr).map(Some),
                        Ok(false) => Ok(None),
                        Err(e) => Err(e),
                    };
                    fr.scopes.pop();
                    if let Some(v) = r? {
                        out.push(v);
                    }
                }
                Ok(Val::List(out))
            }
            Expr::DictLit(kvs) => {
                let mut d = BTreeMap::new();
                for (k, v) in kvs {
                    match self.eval(v, fr)? {
                        Val::Int(i) => {
                            d.insert(k.clone(), i);
                        }
                        _ => return Err(Stop::Discard(Discard::Internal("dict lit".into()))),
                    }
                }
                Ok(Val::Dict(d))
            }
            Expr::In(x, c, neg) => {
                let xv = self.eval(x, fr)?;
                let cv = self.eval(c, fr)?;
                let r = match (&xv, &cv) {
                    (Val::Str(a), Val::Str(b)) => b.contains(a.as_str()),
                    (Val::Str(a), Val::Dict(d)) => d.contains_key(a),
                    (v, Val::List(xs)) => xs.iter().any(|e| e == v),
                    _ => return Err(Stop::Discard(Discard::Internal("in".into()))),
                };
                Ok(Val::Bool(r != *neg))
            }
            Expr::Field(r, _, f) => match self.eval(r, fr)? {
                Val::Model(_, fs) => Ok(fs[*f].clone()),
                _ => Err(Stop::Discard(Discard::Internal("field".into()))),
            },
            Expr::New(m, args) => {
                let mut fs = Vec::new();
                for a in args {
                    fs.push(self.eval(a, fr)?);
                }
                Ok(Val::Model(*m, fs))
            }
            Expr::NewPartial(m, args) => {
                let mut fs = Vec::new();
                for (i, a) in args.iter().enumerate() {
                    match a {
                        Some(a) => fs.push(self.eval(a, fr)?),
                        None => {
                            let d = self.prog.models[*m].fields[i].1.clone().ok_or(Stop::Discard(Discard::Internal("no default".into())))?;
                            fs.push(self.eval(&d, fr)?);
                        }
                    }
                }
                Ok(Val::Model(*m, fs))
            }
            Expr::Variant(en, v, args) => {
                let mut ps = Vec::new();
                for a in args {
                    ps.push(self.eval(a, fr)?);
                }
                Ok(Val::Enum(*en, *v, ps))
            }
            Expr::Method(recv, m, me, args) => {
                let rv = self.eval(recv, fr)?;
                let mut argv = Vec::new();
                for a in args {
                    argv.push(self.eval(a, fr)?);
                }
                let (ret, _) = self.call_method(*m, *me, rv, argv)?;
                Ok(ret)
            }
            Expr::SomeE(x) => Ok(Val::Opt(Some(Box::new(self.eval(x, fr)?)))),
            Expr::NoneE => Ok(Val::Opt(None)),
            Expr::OkE(x) => Ok(Val::Res(Ok(Box::new(self.eval(x, fr)?)))),
            Expr::ErrE(x) => match self.eval(x, fr)? {
                Val::Str(s) => Ok(Val::Res(Err(s))),
                _ => Err(Stop::Discard(Discard::Internal("Err payload".into()))),
            },
            Expr::Try(_) => Err(Stop::Discard(Discard::Internal("`?` outside let".into()))),
            Expr::FStr(parts) => {
                let mut o = String::new();
                for p in parts {
                    match p {
                        FPart::Lit(s) => o.push_str(s),
                        FPart::E(e) => match self.eval(e, fr)? {
                            Val::Int(i) => o.push_str(&i.to_string()),
                            Val::Str(s) => o.push_str(&s),
                            // float/bool text is not pinned by the docs: the generator does not put them in f-strings
                            other => return Err(Stop::Discard(Discard::Internal(format!("fstring part {other:?}")))),
                        },
                    }
                }
                Ok(Val::Str(o))
            }
            Expr::TupleLit(xs) => {
                let mut out = Vec::new();
                for x in xs {
                    out.push(self.eval(x, fr)?);
                }
                Ok(Val::Tuple(out))
            }
            Expr::TupleIdx(t, i) => match self.eval(t, fr)? {
                Val::Tuple(xs) => Ok(xs[*i].clone()),
                _ => Err(Stop::Discard(Discard::Internal("tuple idx".into()))),
            },
            Expr::ListFn(f, x) => match self.eval(x, fr)? {
                Val::List(xs) => {
                    let mut ints = Vec::new();
                    for v in xs {
                        match v {
                            Val::Int(i) => ints.push(i),
                            _ => return Err(Stop::Discard(Discard::Internal("listfn elem".into()))),
                        }
                    }
                    match f {
                        ListFn::Sum => {
                            let mut t: i64 = 0;
                            for i in ints {
                                t = ovf(t.checked_add(i))?;
                            }
                            Ok(Val::Int(t))
                        }
                        // min/max of an empty list is not documented: out of domain
                        ListFn::Min => ints.into_iter().min().map(Val::Int).ok_or(Stop::Discard(Discard::Internal("min of empty".into()))),
                        ListFn::Max => ints.into_iter().max().map(Val::Int).ok_or(Stop::Discard(Discard::Internal("max of empty".into()))),
                    }
                }
                _ => Err(Stop::Discard(Discard::Internal("listfn".into()))),
            },
            Expr::Sorted(x) => match self.eval(x, fr)? {
                Val::List(mut xs) => {
                    xs.sort_by(|a, b| match (a, b) {
                        (Val::Int(a), Val::Int(b)) => a.cmp(b),
                        _ => std::cmp::Ordering::Equal,
                    });
                    Ok(Val::List(xs))
                }
                _ => Err(Stop::Discard(Discard::Internal("sorted".into()))),
            },
            Expr::SelfCall(f, args) => {
                let mut argv = Vec::new();
                for a in args {
                    argv.push(self.eval(a, fr)?);
                }
                self.call_fn(*f, argv)
            }
            Expr::Path(root, steps) => {
                let mut cur = self.lookup(fr, *root).cloned().ok_or(Stop::Discard(Discard::Internal("path root".into())))?;
                for st in steps {
                    cur = match (st, cur) {
                        (Step::Field(_, f), Val::Model(_, fs)) => fs[*f].clone(),
                        (Step::Index(i), Val::List(xs)) => {
                            let k = match self.eval(i, fr)? {
                                Val::Int(k) => k,
                                _ => return Err(Stop::Discard(Discard::Internal("path index".into()))),
                            };
                            match norm_index(xs.len(), k) {
                                Some(j) => xs[j].clone(),
                                None => {
                                    return Err(Stop::Panic("IndexError", format!("IndexError: index {k} out of range for list of length {}", xs.len())))
                                }
                            }
                        }
                        _ => return Err(Stop::Discard(Discard::Internal("path step".into()))),
                    };
                }
                Ok(cur)
            }
        }
    }
}

/// `x = f(..)?` support: statements of the form Let{e: Try(call)} are desugared by the generator into
/// a Match in the interpreter's view; see `Gen::try_let`. (The AST keeps `Try` so the renderer prints `?`.)
pub fn desugar_try(body: &[Stmt]) -> Vec<Stmt> {
    let mut out = Vec::new();
    for (i, s) in body.iter().enumerate() {
        if let Stmt::Let { name, ty, annotated, kind, e: Expr::Try(inner) } = s {
            // match inner: Ok(v) => { let name = v; rest } ; Err(e) => return Err(e)
            let rest = desugar_try(&body[i + 1..]);
            let tmp_ok = 900_000 + *name;
            let tmp_err = 950_000 + *name;
            let mut ok_body = vec![Stmt::Let { name: *name, ty: ty.clone(), annotated: *annotated, kind: *kind, e: Expr::Var(tmp_ok) }];
            ok_body.extend(rest);
            out.push(Stmt::Match {
                scrut: (**inner).clone(),
                arms: vec![
                    (Pat::OkP(tmp_ok), ok_body),
                    (Pat::ErrP(tmp_err), vec![Stmt::Return(Some(Expr::ErrE(Box::new(Expr::Var(tmp_err)))))]),
                ],
                style: ArmStyle::CaseBlock,
            });
            return out;
        }
        out.push(map_blocks(s));
    }
    out
}

fn map_blocks(s: &Stmt) -> Stmt {
    match s {
        Stmt::If { arms, els } => Stmt::If {
            arms: arms.iter().map(|(c, b)| (c.clone(), desugar_try(b))).collect(),
            els: els.as_ref().map(|b| desugar_try(b)),
        },
        Stmt::While { counter, bound, extra, body } => Stmt::While { counter: *counter, bound: *bound, extra: extra.clone(), body: desugar_try(body) },
        Stmt::ForRange { var, args, body } => Stmt::ForRange { var: *var, args: args.clone(), body: desugar_try(body) },
        Stmt::ForIn { var, iter, body } => Stmt::ForIn { var: *var, iter: iter.clone(), body: desugar_try(body) },
        Stmt::Match { scrut, arms, style } => Stmt::Match {
            scrut: scrut.clone(),
            arms: arms.iter().map(|(p, b)| (p.clone(), desugar_try(b))).collect(),
            style: *style,
        },
        other => other.clone(),
    }
}

/// The program as the interpreter sees it (`?` desugared).
pub fn for_interp(p: &Program) -> Program {
    let mut q = p.clone();
    q.main = desugar_try(&p.main);
    for f in &mut q.fns {
        f.body = desugar_try(&f.body);
    }
    for m in &mut q.models {
        for me in &mut m.methods {
            me.body = desugar_try(&me.body);
        }
    }
    q
}

pub fn expected(p: &Program) -> Result<Expected, Discard> {
    let q = for_interp(p);
    Interp::run(&q)
}

/// Operator precedence of the top node (exported for generators that must avoid parentheses).
pub fn top_prec(e: &Expr) -> u8 {
    expr_prec(e)
}
