//! Type-directed generator for `gprog::Program`, driven by a choice tape.

use crate::gprog::*;

#[derive(Clone, Debug)]
struct VarInfo {
    name: u32,
    ty: Ty,
    mutable: bool,
    /// true for function parameters (matters for the `pow_let_base` switch)
    param: bool,
    /// loop counters of `while` must not be touched by generated statements
    reserved: bool,
}

#[derive(Clone, Debug)]
struct FnSig {
    params: Vec<(Ty, bool)>, // (type, has default)
    ret: Ty,
}

pub struct Gen<'a> {
    t: Tape<'a>,
    cfg: Cfg,
    scopes: Vec<Vec<VarInfo>>,
    next_name: u32,
    fns: Vec<FnSig>,
    fn_defs: Vec<FnDef>,
    models: Vec<ModelDef>,
    enums: Vec<EnumDef>,
    loop_depth: u32,
    /// Some(ret type) when generating a function/method body
    ret: Option<Ty>,
    /// Some(model idx) when inside a method body; fields readable via self
    self_model: Option<(usize, bool)>,
    /// expressions with observable side effects (calls to printing functions) are not allowed here
    pure_only: u32,
    stmts_left: usize,
    pending_fields: Option<(usize, Vec<Ty>)>,
    iterating: Vec<u32>,
    in_let_init: bool,
    pub tags: std::collections::BTreeSet<&'static str>,
}

const STR_POOL: &[&str] = &["", "a", "ab", "Hello", "hello world", " pad ", "x,y,z", "héllo", "a€b", "😀k", "Zz"];
const ASCII_POOL: &[&str] = &["", "a", "ab", "Hello", "hello world", " pad ", "x,y,z", "Zz", "q"];
const INT_POOL: &[i64] = &[0, 1, 2, 3, -1, 5, 7, 10, -3, 4, 100, -7, 12, 1000003, -2147483649, 9007199254740993];
const FLOAT_POOL: &[f64] = &[0.5, 1.5, 2.0, -2.5, 0.0, 3.25, 10.0, -0.75, 1e3, 7.5];

impl<'a> Gen<'a> {
    pub fn new(tape: &'a [u32], cfg: Cfg) -> Gen<'a> {
        let stmts = cfg.max_stmts;
        Gen {
            t: Tape::new(tape),
            cfg,
            scopes: vec![],
            next_name: 0,
            fns: vec![],
            fn_defs: vec![],
            models: vec![],
            enums: vec![],
            loop_depth: 0,
            ret: None,
            self_model: None,
            pure_only: 0,
            stmts_left: stmts,
            pending_fields: None,
            iterating: Vec::new(),
            in_let_init: false,
            tags: Default::default(),
        }
    }

    fn tag(&mut self, t: &'static str) {
        self.tags.insert(t);
    }

    fn fresh(&mut self) -> u32 {
        let n = self.next_name;
        self.next_name += 1;
        n
    }

    fn vars_of(&self, ty: &Ty) -> Vec<VarInfo> {
        // innermost binding of each name only (shadowed ones are invisible)
        let mut seen = std::collections::BTreeSet::new();
        let mut out = Vec::new();
        for sc in self.scopes.iter().rev() {
            for v in sc.iter().rev() {
                if seen.insert(v.name) && &v.ty == ty && !v.reserved {
                    out.push(v.clone());
                }
            }
        }
        out.reverse();
        out
    }

    fn mutable_vars_of(&self, ty: &Ty) -> Vec<VarInfo> {
        self.vars_of(ty).into_iter().filter(|v| v.mutable).collect()
    }

    fn declare(&mut self, name: u32, ty: Ty, mutable: bool) {
        self.scopes.last_mut().unwrap().push(VarInfo { name, ty, mutable, param: false, reserved: false });
    }

    // ---------------------------------------------------------------- literals

    fn int_lit(&mut self) -> Expr {
        let small = !self.cfg.sw.big_ints || self.t.chance(9, 10);
        if small {
            Expr::Int(INT_POOL[self.t.below(11)])
        } else {
            Expr::Int(INT_POOL[self.t.below(INT_POOL.len())])
        }
    }

    fn float_lit(&mut self) -> Expr {
        Expr::Float(FLOAT_POOL[self.t.below(FLOAT_POOL.len())])
    }

    fn str_lit(&mut self, ascii: bool) -> Expr {
        let pool = if ascii { ASCII_POOL } else { STR_POOL };
        Expr::Str(pool[self.t.below(pool.len())].to_string())
    }

    // ---------------------------------------------------------------- expressions

    /// Generate an expression of type `ty` whose top-level precedence is >= `min_prec`.
    pub fn expr(&mut self, ty: &Ty, depth: u32, min_prec: u8) -> Expr {
        let e = self.expr_any(ty, depth, min_prec);
        if top_prec(&e) < min_prec {
            if self.cfg.sw.paren {
                self.tag("paren");
                Expr::Paren(Box::new(e))
            } else {
                // cannot happen: alternatives are filtered by precedence when parens are off
                self.atom(ty)
            }
        } else {
            e
        }
    }

    /// may precedence `p` be produced under `min_prec` (directly, or through parentheses)?
    fn can(&self, p: u8, min_prec: u8) -> bool {
        p >= min_prec || self.cfg.sw.paren
    }

    fn atom(&mut self, ty: &Ty) -> Expr {
        if *ty == Ty::Dict && !self.cfg.sw.dict_inline_literal && !self.in_let_init {
            // a dict literal outside an annotated initializer misses the HashMap import (known finding)
            if let Some(v) = self.simple(ty) {
                return v;
            }
        }
        let vars = self.vars_of(ty);
        let use_var = !vars.is_empty() && self.t.chance(2, 3);
        if use_var {
            let v = &vars[self.t.below(vars.len())];
            return Expr::Var(v.name);
        }
        if let Some((m, _)) = self.self_model {
            let fields: Vec<usize> = self.models_field_idx(m, ty);
            if !fields.is_empty() && self.t.chance(1, 2) {
                return Expr::SelfField(fields[self.t.below(fields.len())]);
            }
        }
        self.literal(ty, 0)
    }

    /// a variable (or self field) of the type, if any
    fn simple(&mut self, ty: &Ty) -> Option<Expr> {
        let vars = self.vars_of(ty);
        if !vars.is_empty() {
            return Some(Expr::Var(vars[self.t.below(vars.len())].name));
        }
        if let Some((m, _)) = self.self_model {
            let fields = self.models_field_idx(m, ty);
            if !fields.is_empty() && (*ty != Ty::Str || self.cfg.sw.self_str_ops) {
                return Some(Expr::SelfField(fields[self.t.below(fields.len())]));
            }
        }
        None
    }

    /// value positions (initializer, field, element): a bare non-Copy variable would be moved by the emitted Rust
    fn no_bare_move(&mut self, e: Expr, ty: &Ty) -> Expr {
        if self.cfg.sw.noncopy_var_move || matches!(ty, Ty::Int | Ty::Float | Ty::Bool) {
            return e;
        }
        match e {
            Expr::Var(_) | Expr::SelfField(_) => self.literal(ty, 1),
            other => other,
        }
    }

    /// the int side of a mixed int/float operation
    fn mixed_int_operand(&mut self, depth: u32, min_prec: u8) -> Expr {
        if self.cfg.sw.mixed_compound_int {
            return self.expr(&Ty::Int, depth + 1, min_prec);
        }
        let vars = self.vars_of(&Ty::Int);
        if !vars.is_empty() && self.t.chance(2, 3) {
            return Expr::Var(vars[self.t.below(vars.len())].name);
        }
        Expr::Int([2i64, 3, 7, 10, 1][self.t.below(5)])
    }

    /// operand of a construct that the emitter splices without grouping: compound only if the switch allows
    fn operand(&mut self, ty: &Ty, depth: u32, min_prec: u8, allow_lit: bool) -> Option<Expr> {
        if self.cfg.sw.compound_operands {
            return Some(self.expr(ty, depth + 1, min_prec));
        }
        let use_lit = allow_lit && self.t.chance(1, 3);
        if !use_lit {
            if let Some(e) = self.simple(ty) {
                return Some(e);
            }
        }
        if allow_lit {
            let e = self.literal(ty, 1);
            // negative literals render as unary minus: not simple
            if top_prec(&e) >= P_ATOM {
                return Some(e);
            }
        }
        None
    }

    fn models_field_idx(&self, m: usize, ty: &Ty) -> Vec<usize> {
        // while a model is being generated its definition is the last pushed "pending" one
        self.pending_fields
            .as_ref()
            .filter(|(pm, _)| *pm == m)
            .map(|(_, fs)| fs.iter().enumerate().filter(|(_, t)| *t == ty).map(|(i, _)| i).collect())
            .unwrap_or_default()
    }

    /// closed expression of the type (no variables needed)
    fn literal(&mut self, ty: &Ty, depth: u32) -> Expr {
        match ty {
            Ty::Int => self.int_lit(),
            Ty::Float => self.float_lit(),
            Ty::Bool => Expr::Bool(self.t.chance(1, 2)),
            Ty::Str => self.str_lit(false),
            Ty::List(el) => {
                let n = [3usize, 1, 2, 4, 0, 5][self.t.below(6)];
                let n = if n == 0 && !self.cfg.sw.empty_list { 2 } else { n };
                let mut xs = Vec::new();
                for _ in 0..n {
                    xs.push(self.literal(el, depth + 1));
                }
                Expr::ListLit(xs, (**el).clone())
            }
            Ty::Dict => {
                let n = self.t.below(4);
                let n = if n == 0 && !self.cfg.sw.empty_list { 1 } else { n };
                let keys = ["a", "b", "key", "zz"];
                let mut kvs = Vec::new();
                for k in keys.iter().take(n) {
                    let v = self.int_lit();
                    kvs.push((k.to_string(), v));
                }
                Expr::DictLit(kvs)
            }
            Ty::Opt(el) => {
                if self.t.chance(1, 3) {
                    Expr::NoneE
                } else {
                    Expr::SomeE(Box::new(self.literal(el, depth + 1)))
                }
            }
            Ty::Res(el) => {
                if self.t.chance(1, 3) {
                    Expr::ErrE(Box::new(self.str_lit(true)))
                } else {
                    Expr::OkE(Box::new(self.literal(el, depth + 1)))
                }
            }
            Ty::Model(m) => {
                let tys: Vec<Ty> = self.models[*m].fields.iter().map(|f| f.0.clone()).collect();
                let args = tys.iter().map(|t| self.literal(t, depth + 1)).collect();
                Expr::New(*m, args)
            }
            Ty::Enum(e) => {
                let nv = self.enums[*e].variants.len();
                let v = self.t.below(nv);
                let tys = self.enums[*e].variants[v].clone();
                let args = tys.iter().map(|t| self.literal(t, depth + 1)).collect();
                Expr::Variant(*e, v, args)
            }
            Ty::Tuple(ts) => Expr::TupleLit(ts.iter().map(|t| self.literal(t, depth + 1)).collect()),
            Ty::Unit => Expr::Int(0),
        }
    }

    fn callable_fns(&self, ret: &Ty) -> Vec<usize> {
        self.fns.iter().enumerate().filter(|(_, f)| &f.ret == ret).map(|(i, _)| i).collect()
    }

    fn call(&mut self, f: usize, depth: u32) -> Expr {
        self.tag("call");
        let sig = self.fns[f].clone();
        let mut n = sig.params.len();
        if self.cfg.sw.default_args {
            while n > 0 && sig.params[n - 1].1 && self.t.chance(1, 3) {
                n -= 1;
                self.tag("call_default_arg");
            }
        }
        let named = self.cfg.sw.named_args && n >= 2 && n == sig.params.len() && self.t.chance(1, 6);
        if named {
            self.tag("call_named_args");
        }
        let mut args = Vec::new();
        for (t, _) in sig.params.iter().take(n) {
            let copy = matches!(t, Ty::Int | Ty::Float | Ty::Bool);
            if !copy && !self.cfg.sw.noncopy_var_arg {
                args.push(self.literal(t, 1));
            } else {
                args.push(self.expr(t, depth + 1, 0));
            }
        }
        Expr::Call(f, args, named)
    }

    fn expr_any(&mut self, ty: &Ty, depth: u32, min_prec: u8) -> Expr {
        if depth >= self.cfg.max_depth || self.t.exhausted() {
            return self.atom(ty);
        }
        match ty {
            Ty::Int => self.int_expr(depth, min_prec),
            Ty::Float => self.float_expr(depth, min_prec),
            Ty::Bool => self.bool_expr(depth, min_prec),
            Ty::Str => self.str_expr(depth, min_prec),
            Ty::List(el) => self.list_expr(&el.clone(), depth),
            _ => {
                // user function returning the type, or a variable, or a literal
                let fs = if self.pure_only == 0 { self.callable_fns(ty) } else { vec![] };
                if !fs.is_empty() && self.t.chance(1, 3) {
                    let f = fs[self.t.below(fs.len())];
                    return self.call(f, depth);
                }
                let vars = self.vars_of(ty);
                if !vars.is_empty() && self.t.chance(2, 3) {
                    return Expr::Var(vars[self.t.below(vars.len())].name);
                }
                if matches!(ty, Ty::Opt(_) | Ty::Res(_)) && !self.cfg.sw.result_literal_binding && self.ret.as_ref() != Some(ty) {
                    // only function results may carry Option/Result values into bindings
                    if !fs.is_empty() {
                        let f = fs[self.t.below(fs.len())];
                        return self.call(f, depth);
                    }
                    if !vars.is_empty() {
                        return Expr::Var(vars[self.t.below(vars.len())].name);
                    }
                }
                self.literal_deep(ty, depth)
            }
        }
    }

    fn ctor_arg(&mut self, t: &Ty, depth: u32) -> Expr {
        let e = self.expr(t, depth + 1, 0);
        let e = self.no_bare_move(e, t);
        if !self.cfg.sw.ctor_arg_index {
            let mut bad = false;
            walk_expr(&e, &mut |x| {
                if matches!(x, Expr::Index(..) | Expr::Slice(..)) {
                    bad = true;
                }
            });
            if bad {
                return self.literal(t, 1);
            }
        }
        e
    }

    /// like `literal` but with generated sub-expressions
    fn literal_deep(&mut self, ty: &Ty, depth: u32) -> Expr {
        match ty {
            Ty::Opt(el) => {
                if self.t.chance(1, 3) {
                    Expr::NoneE
                } else {
                    Expr::SomeE(Box::new(self.expr(el, depth + 1, 0)))
                }
            }
            Ty::Res(el) => {
                if self.t.chance(1, 3) {
                    Expr::ErrE(Box::new(self.str_lit(true)))
                } else {
                    Expr::OkE(Box::new(self.expr(el, depth + 1, 0)))
                }
            }
            Ty::Model(m) => {
                let fields = self.models[*m].fields.clone();
                let any_default = fields.iter().any(|f| f.1.is_some());
                if any_default && self.t.chance(1, 2) {
                    self.tag("ctor_default_field");
                    let mut args = Vec::new();
                    for (t, d) in &fields {
                        if d.is_some() && self.t.chance(1, 2) {
                            args.push(None);
                        } else {
                            args.push(Some(self.ctor_arg(t, depth)));
                        }
                    }
                    Expr::NewPartial(*m, args)
                } else {
                    let args = fields.iter().map(|(t, _)| self.ctor_arg(t, depth)).collect();
                    Expr::New(*m, args)
                }
            }
            Ty::Enum(e) => {
                let nv = self.enums[*e].variants.len();
                let v = self.t.below(nv);
                let tys = self.enums[*e].variants[v].clone();
                let args = tys.iter().map(|t| self.expr(t, depth + 1, 0)).collect();
                Expr::Variant(*e, v, args)
            }
            Ty::Tuple(ts) => Expr::TupleLit(
                ts.clone()
                    .iter()
                    .map(|t| {
                        let e = self.expr(t, depth + 1, 0);
                        self.no_bare_move(e, t)
                    })
                    .collect(),
            ),
            other => self.literal(other, depth),
        }
    }

    fn bin(&mut self, op: BinOp, lt: &Ty, rt: &Ty, depth: u32) -> Expr {
        let p = op.prec();
        let (lp, rp) = if op == BinOp::Pow { (P_ATOM, P_UNARY.min(8)) } else { (p, p + 1) };
        let mixed = lt != rt && lt.is_num() && rt.is_num();
        let l = if mixed && *lt == Ty::Int { self.mixed_int_operand(depth, lp) } else { self.expr(lt, depth + 1, lp) };
        let r = if mixed && *rt == Ty::Int { self.mixed_int_operand(depth, rp) } else { self.expr(rt, depth + 1, rp) };
        Expr::Bin(op, Box::new(l), Box::new(r))
    }

    fn int_expr(&mut self, depth: u32, min_prec: u8) -> Expr {
        // alternatives: 0 atom, 1 add/sub, 2 mul, 3 floordiv/mod, 4 neg, 5 call, 6 len, 7 index, 8 pow, 9 abs, 10 field/method, 11 toint
        let sw = self.cfg.sw.clone();
        let w = [
            3,
            if self.can(6, min_prec) { 4 } else { 0 },
            if self.can(7, min_prec) { 3 } else { 0 },
            if self.can(7, min_prec) { 3 } else { 0 },
            if self.can(P_UNARY, min_prec) { 1 } else { 0 },
            if self.pure_only == 0 && !self.callable_fns(&Ty::Int).is_empty() { 3 } else { 0 },
            2,
            2,
            if self.can(8, min_prec) { 1 } else { 0 },
            1,
            if sw.models { 2 } else { 0 },
            if sw.float_ops { 1 } else { 0 },
            if sw.list_builtins { 2 } else { 0 },
            if sw.tuple { 1 } else { 0 },
        ];
        match self.t.weighted(&w) {
            0 => self.atom(&Ty::Int),
            12 => {
                let Some(xs) = self.simple(&Ty::list(Ty::Int)) else { return self.atom(&Ty::Int) };
                let f = [ListFn::Sum, ListFn::Max, ListFn::Min][self.t.below(3)];
                self.tag(match f {
                    ListFn::Sum => "list_sum",
                    ListFn::Min => "list_min",
                    ListFn::Max => "list_max",
                });
                Expr::ListFn(f, Box::new(xs))
            }
            13 => {
                let tt = Ty::Tuple(vec![Ty::Int, Ty::Str]);
                match self.simple(&tt) {
                    Some(t) => {
                        self.tag("tuple_index");
                        Expr::TupleIdx(Box::new(t), 0)
                    }
                    None => self.atom(&Ty::Int),
                }
            }
            1 => {
                self.tag("int_addsub");
                let op = if self.t.chance(1, 2) { BinOp::Sub } else { BinOp::Add };
                self.bin(op, &Ty::Int, &Ty::Int, depth)
            }
            2 => {
                self.tag("int_mul");
                self.bin(BinOp::Mul, &Ty::Int, &Ty::Int, depth)
            }
            3 => {
                let op = if self.t.chance(1, 2) { BinOp::Mod } else { BinOp::FloorDiv };
                self.tag(if op == BinOp::Mod { "int_mod" } else { "int_floordiv" });
                let l = self.expr(&Ty::Int, depth + 1, 7);
                let mut r = self.divisor(&Ty::Int, depth, 8);
                if self.t.chance(1, 3) {
                    if let Expr::Int(v) = r {
                        r = Expr::Int(-v);
                    }
                }
                Expr::Bin(op, Box::new(l), Box::new(r))
            }
            4 => {
                self.tag("neg");
                match self.operand(&Ty::Int, depth, P_ATOM, false) {
                    Some(Expr::Int(v)) => Expr::Int(v.wrapping_neg()),
                    Some(x) => Expr::Neg(Box::new(x)),
                    None => Expr::Int(-4),
                }
            }
            5 => {
                let fs = self.callable_fns(&Ty::Int);
                let f = fs[self.t.below(fs.len())];
                self.call(f, depth)
            }
            6 => {
                self.tag("len");
                let which = self.t.below(3);
                let arg = match which {
                    1 if sw.len_str => Some(if sw.compound_operands { self.ascii_str_expr(depth + 1) } else { self.str_lit(true) }),
                    2 if sw.dict => self.simple(&Ty::Dict),
                    _ => self.operand(&Ty::list(Ty::Int), depth, 0, true),
                };
                match arg {
                    Some(a) => Expr::Len(Box::new(a)),
                    None => self.atom(&Ty::Int),
                }
            }
            7 => {
                if sw.dict && self.t.chance(1, 4) {
                    if let Some(d) = self.simple(&Ty::Dict) {
                        self.tag("dict_get");
                        let k = self.dict_key();
                        return Expr::Index(Box::new(d), Box::new(k));
                    }
                    return self.atom(&Ty::Int);
                }
                self.tag("list_index");
                match self.operand(&Ty::list(Ty::Int), depth, P_ATOM, true) {
                    Some(base) => {
                        let idx = self.index_expr(depth);
                        Expr::Index(Box::new(base), Box::new(idx))
                    }
                    None => self.atom(&Ty::Int),
                }
            }
            8 => {
                // int ** non-negative literal; base restrictions per known findings
                let mut bases: Vec<Expr> = Vec::new();
                for v in self.vars_of(&Ty::Int) {
                    if v.param || (sw.pow_let_base && sw.method_on_let_int) {
                        bases.push(Expr::Var(v.name));
                    }
                }
                if sw.pow_lit_base {
                    bases.push(Expr::Int([2i64, 3, 10][self.t.below(3)]));
                }
                if bases.is_empty() {
                    return self.atom(&Ty::Int);
                }
                self.tag("int_pow");
                let b = bases[self.t.below(bases.len())].clone();
                let e = Expr::Int(self.t.below(4) as i64);
                Expr::Bin(BinOp::Pow, Box::new(b), Box::new(e))
            }
            9 => {
                self.tag("abs");
                let arg = if self.cfg.sw.method_on_let_int {
                    self.operand(&Ty::Int, depth, 0, false)
                } else {
                    let ps: Vec<u32> = self.vars_of(&Ty::Int).into_iter().filter(|v| v.param).map(|v| v.name).collect();
                    if ps.is_empty() { None } else { Some(Expr::Var(ps[self.t.below(ps.len())])) }
                };
                match arg {
                    Some(a) => Expr::Abs(Box::new(a)),
                    None => self.atom(&Ty::Int),
                }
            }
            10 => self.member_expr(&Ty::Int, depth),
            _ => {
                self.tag("to_int");
                match self.operand(&Ty::Float, depth, 0, true) {
                    Some(a) => Expr::ToInt(Box::new(a)),
                    None => self.atom(&Ty::Int),
                }
            }
        }
    }

    /// index expression: mostly small and in range-ish, sometimes negative
    fn index_expr(&mut self, depth: u32) -> Expr {
        match self.t.below(12) {
            0..=3 => Expr::Int(0),
            4..=6 => Expr::Int(-1),
            7 => Expr::Int(1),
            8 => Expr::Int(self.t.below(4) as i64),
            9 => Expr::Int(-(1 + self.t.below(3) as i64)),
            10 => self.atom(&Ty::Int),
            _ => self.expr(&Ty::Int, depth + 1, 0),
        }
    }

    /// divisor of the given numeric type: mostly a non-zero literal so that most programs keep running
    fn divisor(&mut self, ty: &Ty, depth: u32, min_prec: u8) -> Expr {
        if self.cfg.sw.runtime_errors && self.t.chance(1, 4) {
            return self.expr(ty, depth + 1, min_prec);
        }
        if *ty == Ty::Int {
            Expr::Int([2i64, 3, 5, 7, 4, 10][self.t.below(6)])
        } else {
            Expr::Float([2.0f64, 0.5, 1.5, 4.0][self.t.below(4)])
        }
    }

    fn dict_key(&mut self) -> Expr {
        let keys = ["a", "b", "key", "zz", "nope"];
        Expr::Str(keys[self.t.below(keys.len())].to_string())
    }

    fn member_expr(&mut self, ty: &Ty, depth: u32) -> Expr {
        // field read or method call on a model-typed variable
        let mut cands: Vec<(u32, usize)> = Vec::new();
        for m in 0..self.models.len() {
            for v in self.vars_of(&Ty::Model(m)) {
                cands.push((v.name, m));
            }
        }
        if cands.is_empty() {
            return self.atom(ty);
        }
        let (name, m) = cands[self.t.below(cands.len())];
        let fields: Vec<usize> = self.models[m].fields.iter().enumerate().filter(|(_, f)| &f.0 == ty).map(|(i, _)| i).collect();
        let methods: Vec<usize> = self.models[m]
            .methods
            .iter()
            .enumerate()
            .filter(|(_, me)| &me.ret == ty && !me.mut_self)
            .map(|(i, _)| i)
            .collect();
        let use_method = !methods.is_empty() && self.pure_only == 0 && (fields.is_empty() || self.t.chance(1, 2));
        if use_method {
            self.tag("method_call");
            let me = methods[self.t.below(methods.len())];
            let ptys: Vec<Ty> = self.models[m].methods[me].params.iter().map(|p| p.1.clone()).collect();
            let args = ptys.iter().map(|t| if *t == Ty::Str && !self.cfg.sw.noncopy_var_arg { self.literal(t, 1) } else { self.expr(t, depth + 1, 0) }).collect();
            Expr::Method(Box::new(Expr::Var(name)), m, me, args)
        } else if !fields.is_empty() {
            self.tag("field_read");
            Expr::Field(Box::new(Expr::Var(name)), m, fields[self.t.below(fields.len())])
        } else {
            self.atom(ty)
        }
    }

    fn float_expr(&mut self, depth: u32, min_prec: u8) -> Expr {
        let sw = self.cfg.sw.clone();
        if !sw.float_ops {
            return self.atom(&Ty::Float);
        }
        let w = [
            3,
            if self.can(6, min_prec) { 3 } else { 0 }, // add/sub with a float operand
            if self.can(7, min_prec) { 3 } else { 0 }, // mul
            if self.can(7, min_prec) { 4 } else { 0 }, // true division of any numerics
            if self.can(7, min_prec) { 2 } else { 0 }, // floordiv/mod with a float operand
            if self.can(P_UNARY, min_prec) { 1 } else { 0 },
            if self.pure_only == 0 && !self.callable_fns(&Ty::Float).is_empty() { 2 } else { 0 },
            1, // float(int)
            if sw.models { 1 } else { 0 },
            if sw.pow_float && self.can(8, min_prec) { 1 } else { 0 },
        ];
        let mixed = |g: &mut Gen<'a>| -> (Ty, Ty) {
            match g.t.below(3) {
                0 => (Ty::Float, Ty::Float),
                1 => (Ty::Int, Ty::Float),
                _ => (Ty::Float, Ty::Int),
            }
        };
        match self.t.weighted(&w) {
            0 => self.atom(&Ty::Float),
            1 => {
                self.tag("float_addsub");
                let (a, b) = mixed(self);
                let op = if self.t.chance(1, 2) { BinOp::Sub } else { BinOp::Add };
                self.bin(op, &a, &b, depth)
            }
            2 => {
                self.tag("float_mul");
                let (a, b) = mixed(self);
                self.bin(BinOp::Mul, &a, &b, depth)
            }
            3 => {
                self.tag("true_div");
                let (a, b) = match self.t.below(4) {
                    0 => (Ty::Int, Ty::Int),
                    1 => (Ty::Float, Ty::Float),
                    2 => (Ty::Int, Ty::Float),
                    _ => (Ty::Float, Ty::Int),
                };
                let l = if a == Ty::Int && b == Ty::Float { self.mixed_int_operand(depth, 7) } else { self.expr(&a, depth + 1, 7) };
                let r = self.divisor(&b, depth, 8);
                Expr::Bin(BinOp::Div, Box::new(l), Box::new(r))
            }
            4 => {
                let (a, b) = mixed(self);
                let op = if self.t.chance(1, 2) { BinOp::Mod } else { BinOp::FloorDiv };
                self.tag(if op == BinOp::Mod { "float_mod" } else { "float_floordiv" });
                let l = if a == Ty::Int { self.mixed_int_operand(depth, 7) } else { self.expr(&a, depth + 1, 7) };
                let mut r = self.divisor(&b, depth, 8);
                if self.t.chance(1, 3) {
                    r = match r {
                        Expr::Int(v) => Expr::Int(-v),
                        Expr::Float(v) => Expr::Float(-v),
                        o => o,
                    };
                }
                Expr::Bin(op, Box::new(l), Box::new(r))
            }
            5 => {
                self.tag("neg");
                match self.operand(&Ty::Float, depth, P_ATOM, false) {
                    Some(Expr::Float(v)) => Expr::Float(-v),
                    Some(x) => Expr::Neg(Box::new(x)),
                    None => Expr::Float(-1.5),
                }
            }
            6 => {
                let fs = self.callable_fns(&Ty::Float);
                let f = fs[self.t.below(fs.len())];
                self.call(f, depth)
            }
            7 => {
                self.tag("to_float");
                match self.operand(&Ty::Int, depth, 0, true) {
                    Some(a) => Expr::ToFloat(Box::new(a)),
                    None => self.atom(&Ty::Float),
                }
            }
            8 => self.member_expr(&Ty::Float, depth),
            _ => {
                self.tag("float_pow");
                // float ** small int literal, or int ** negative literal / variable exponent (documented: float)
                let base = self.atom(&Ty::Float);
                let base = if top_prec(&base) < P_ATOM { Expr::Float(1.5) } else { base };
                Expr::Bin(BinOp::Pow, Box::new(base), Box::new(Expr::Int([2i64, 3, 0][self.t.below(3)])))
            }
        }
    }

    fn bool_expr(&mut self, depth: u32, min_prec: u8) -> Expr {
        let sw = self.cfg.sw.clone();
        let w = [
            2,
            if self.can(P_CMP, min_prec) { 6 } else { 0 }, // numeric comparison
            if self.can(2, min_prec) { 2 } else { 0 },     // and
            if self.can(1, min_prec) { 2 } else { 0 },     // or
            if self.can(P_NOT, min_prec) { 2 } else { 0 }, // not
            if self.can(P_CMP, min_prec) { 2 } else { 0 }, // in
            if self.can(P_CMP, min_prec) { 1 } else { 0 }, // string comparison
            if sw.str_methods { 1 } else { 0 },            // contains
            if self.pure_only == 0 && !self.callable_fns(&Ty::Bool).is_empty() { 2 } else { 0 },
            if sw.models { 1 } else { 0 },
        ];
        match self.t.weighted(&w) {
            0 => self.atom(&Ty::Bool),
            1 => {
                let ops = [BinOp::Lt, BinOp::Eq, BinOp::Ge, BinOp::Ne, BinOp::Le, BinOp::Gt];
                let op = ops[self.t.below(6)];
                let (a, b) = if sw.float_ops {
                    match self.t.below(5) {
                        0 | 1 => (Ty::Int, Ty::Int),
                        2 => (Ty::Float, Ty::Float),
                        3 => (Ty::Int, Ty::Float),
                        _ => (Ty::Float, Ty::Int),
                    }
                } else {
                    (Ty::Int, Ty::Int)
                };
                let mut op = op;
                if a == Ty::Int && b == Ty::Float && op == BinOp::Lt && !sw.mixed_lt_int_left {
                    op = BinOp::Le;
                }
                self.tag(if a != b { "cmp_mixed" } else if a == Ty::Int { "cmp_int" } else { "cmp_float" });
                if op == BinOp::Lt && !sw.lt_after_cast {
                    // left operand must be a plain variable/literal of the same type as the right operand
                    let b2 = a.clone();
                    let l = match self.simple(&a) {
                        Some(l) => l,
                        None => {
                            let l = self.literal(&a, 1);
                            if top_prec(&l) >= P_ATOM { l } else if a == Ty::Int { Expr::Int(3) } else { Expr::Float(1.5) }
                        }
                    };
                    let r = self.expr(&b2, depth + 1, P_CMP + 1);
                    return Expr::Bin(op, Box::new(l), Box::new(r));
                }
                let mixed = a != b;
                let l = if mixed && a == Ty::Int { self.mixed_int_operand(depth, P_CMP + 1) } else { self.expr(&a, depth + 1, P_CMP + 1) };
                let r = if mixed && b == Ty::Int { self.mixed_int_operand(depth, P_CMP + 1) } else { self.expr(&b, depth + 1, P_CMP + 1) };
                Expr::Bin(op, Box::new(l), Box::new(r))
            }
            2 => {
                self.tag("and");
                let l = self.expr(&Ty::Bool, depth + 1, 2);
                let r = self.expr(&Ty::Bool, depth + 1, 3);
                Expr::Bin(BinOp::And, Box::new(l), Box::new(r))
            }
            3 => {
                self.tag("or");
                let l = self.expr(&Ty::Bool, depth + 1, 1);
                let r = self.expr(&Ty::Bool, depth + 1, 2);
                Expr::Bin(BinOp::Or, Box::new(l), Box::new(r))
            }
            4 => {
                self.tag("not");
                let inner_min = if sw.not_over_cmp { P_NOT } else { P_UNARY };
                let x = self.expr(&Ty::Bool, depth + 1, inner_min);
                Expr::Not(Box::new(x))
            }
            5 => {
                let neg = self.t.chance(1, 3);
                match self.t.below(3) {
                    1 if sw.dict => {
                        match self.simple(&Ty::Dict) {
                            Some(d) => {
                                self.tag("in_dict");
                                let k = self.dict_key();
                                Expr::In(Box::new(k), Box::new(d), neg)
                            }
                            None => self.atom(&Ty::Bool),
                        }
                    }
                    2 => {
                        self.tag("in_str");
                        let a = self.str_lit(false);
                        match self.operand(&Ty::Str, depth, P_CMP + 1, true) {
                            Some(b) => Expr::In(Box::new(a), Box::new(b), neg),
                            None => self.atom(&Ty::Bool),
                        }
                    }
                    _ => {
                        self.tag("in_list");
                        let x = self.operand(&Ty::Int, depth, P_CMP + 1, true);
                        let xs = self.operand(&Ty::list(Ty::Int), depth, P_ATOM, false);
                        match (x, xs) {
                            (Some(x), Some(xs)) => Expr::In(Box::new(x), Box::new(xs), neg),
                            _ => self.atom(&Ty::Bool),
                        }
                    }
                }
            }
            6 => {
                self.tag("cmp_str");
                let op = [BinOp::Eq, BinOp::Ne][self.t.below(2)];
                let (l, r) = if sw.str_cmp_var {
                    (self.expr(&Ty::Str, depth + 1, P_CMP + 1), self.expr(&Ty::Str, depth + 1, P_CMP + 1))
                } else {
                    (self.str_lit(false), self.str_lit(false))
                };
                Expr::Bin(op, Box::new(l), Box::new(r))
            }
            7 => {
                self.tag("str_contains");
                match self.operand(&Ty::Str, depth, P_ATOM, true) {
                    Some(recv) => {
                        let a = self.str_lit(false);
                        Expr::StrMethod(StrM::Contains, Box::new(recv), vec![a])
                    }
                    None => self.atom(&Ty::Bool),
                }
            }
            8 => {
                let fs = self.callable_fns(&Ty::Bool);
                let f = fs[self.t.below(fs.len())];
                self.call(f, depth)
            }
            _ => self.member_expr(&Ty::Bool, depth),
        }
    }

    fn ascii_str_expr(&mut self, depth: u32) -> Expr {
        // an expression guaranteed to be ASCII: literal from the ASCII pool or str(int)
        if self.cfg.sw.compound_operands && self.t.chance(1, 3) {
            Expr::ToStr(Box::new(self.expr(&Ty::Int, depth + 1, 0)))
        } else {
            self.str_lit(true)
        }
    }

    fn str_expr(&mut self, depth: u32, min_prec: u8) -> Expr {
        let sw = self.cfg.sw.clone();
        let w = [
            3,
            2, // index
            2, // slice
            if sw.str_methods { 3 } else { 0 },
            if sw.fstring { 3 } else { 0 },
            if self.pure_only == 0 && !self.callable_fns(&Ty::Str).is_empty() { 2 } else { 0 },
            1, // str(int)
            if sw.str_concat && self.can(6, min_prec) { 2 } else { 0 },
            if sw.models { 1 } else { 0 },
            if sw.list_str && sw.str_methods && sw.str_join { 1 } else { 0 }, // join
            if sw.tuple { 1 } else { 0 },
        ];
        match self.t.weighted(&w) {
            0 => self.atom(&Ty::Str),
            10 => {
                let tt = Ty::Tuple(vec![Ty::Int, Ty::Str]);
                match self.simple(&tt) {
                    Some(t) => {
                        self.tag("tuple_index");
                        Expr::TupleIdx(Box::new(t), 1)
                    }
                    None => self.atom(&Ty::Str),
                }
            }
            1 => {
                self.tag("str_index");
                match self.operand(&Ty::Str, depth, P_ATOM, false) {
                    Some(b) => {
                        let i = self.index_expr(depth);
                        Expr::Index(Box::new(b), Box::new(i))
                    }
                    None => self.atom(&Ty::Str),
                }
            }
            2 => {
                self.tag("str_slice");
                match self.operand(&Ty::Str, depth, P_ATOM, false) {
                    Some(b) => self.slice_of(b, depth),
                    None => self.atom(&Ty::Str),
                }
            }
            3 => {
                let Some(recv) = self.operand(&Ty::Str, depth, P_ATOM, true) else { return self.atom(&Ty::Str) };
                match self.t.below(4) {
                    0 => {
                        self.tag("str_upper");
                        Expr::StrMethod(StrM::Upper, Box::new(recv), vec![])
                    }
                    1 => {
                        self.tag("str_lower");
                        Expr::StrMethod(StrM::Lower, Box::new(recv), vec![])
                    }
                    2 => {
                        self.tag("str_strip");
                        Expr::StrMethod(StrM::Strip, Box::new(recv), vec![])
                    }
                    _ => {
                        self.tag("str_replace");
                        let a = Expr::Str(["a", "l", "o", " ", "é"][self.t.below(5)].to_string());
                        let b = self.str_lit(false);
                        Expr::StrMethod(StrM::Replace, Box::new(recv), vec![a, b])
                    }
                }
            }
            4 => {
                self.tag("fstring");
                let n = 1 + self.t.below(3);
                let mut parts = Vec::new();
                for i in 0..n {
                    if self.t.chance(1, 2) {
                        let k = if self.cfg.sw.fstring_brace_escape { 6 } else { 5 };
                        parts.push(FPart::Lit([" ", "-", "x=", ", ", "q", "{}"][self.t.below(k)].to_string()));
                    }
                    let e = if self.t.chance(1, 2) { self.expr(&Ty::Int, depth + 1, 0) } else { self.expr(&Ty::Str, depth + 1, 0) };
                    // nested string literals/f-strings inside f-string braces are avoided (quote nesting)
                    let e = if contains_str_lit(&e) { if i % 2 == 0 { self.atom_var_only(&Ty::Int) } else { self.atom_var_only(&Ty::Str) } } else { e };
                    if let Some(e) = e_opt(e) {
                        parts.push(FPart::E(e));
                    }
                }
                if parts.is_empty() {
                    parts.push(FPart::Lit("f".into()));
                }
                Expr::FStr(parts)
            }
            5 => {
                let fs = self.callable_fns(&Ty::Str);
                let f = fs[self.t.below(fs.len())];
                self.call(f, depth)
            }
            6 => {
                self.tag("to_str");
                match self.operand(&Ty::Int, depth, 0, true) {
                    Some(a) => Expr::ToStr(Box::new(a)),
                    None => self.atom(&Ty::Str),
                }
            }
            7 => {
                self.tag("str_concat");
                self.bin(BinOp::Add, &Ty::Str, &Ty::Str, depth)
            }
            8 => self.member_expr(&Ty::Str, depth),
            _ => {
                self.tag("str_join");
                let sep = Expr::Str([",", "", " - "][self.t.below(3)].to_string());
                match self.operand(&Ty::list(Ty::Str), depth, 0, false) {
                    Some(xs) => Expr::Join(Box::new(sep), Box::new(xs)),
                    None => self.atom(&Ty::Str),
                }
            }
        }
    }

    fn atom_var_only(&mut self, ty: &Ty) -> Expr {
        let vars = self.vars_of(ty);
        if vars.is_empty() {
            // marker for "nothing": Unit int that the caller drops
            Expr::NoneE
        } else {
            Expr::Var(vars[self.t.below(vars.len())].name)
        }
    }

    fn slice_of(&mut self, base: Expr, depth: u32) -> Expr {
        let mut part = |g: &mut Gen<'a>| -> Option<Box<Expr>> {
            match g.t.below(4) {
                0 => None,
                1 => Some(Box::new(Expr::Int(g.t.below(4) as i64))),
                2 => Some(Box::new(Expr::Int(-(1 + g.t.below(3) as i64)))),
                _ => Some(Box::new(g.expr(&Ty::Int, depth + 1, 0))),
            }
        };
        let s = part(self);
        let e = part(self);
        let st = if self.cfg.sw.slice_step && self.t.chance(1, 3) {
            self.tag("slice_step");
            let v = [2i64, -1, 1, -2, 3, 0][self.t.below(if self.cfg.sw.runtime_errors { 6 } else { 5 })];
            Some(Box::new(Expr::Int(v)))
        } else {
            None
        };
        // `[::step]` does not lex as a slice (known finding C05); avoid the shape `[:: k]`
        // (`[a::c]` and `[::c]` parse since fix 9cacf21)
        Expr::Slice(Box::new(base), s, e, st)
    }

    fn list_expr(&mut self, el: &Ty, depth: u32) -> Expr {
        let lt = Ty::list(el.clone());
        let sw = self.cfg.sw.clone();
        let w = [
            3,
            3, // literal with generated elements
            2, // slice
            if sw.comprehension && *el == Ty::Int { 3 } else { 0 },
            if self.pure_only == 0 && !self.callable_fns(&lt).is_empty() { 2 } else { 0 },
            if sw.list_builtins && *el == Ty::Int { 1 } else { 0 },
        ];
        match self.t.weighted(&w) {
            0 => self.atom(&lt),
            5 => match self.simple(&lt) {
                Some(xs) => {
                    self.tag("list_sorted");
                    Expr::Sorted(Box::new(xs))
                }
                None => self.atom(&lt),
            },
            1 => {
                self.tag("list_lit");
                let n = [2usize, 1, 3, 4, 0][self.t.below(5)];
                let n = if n == 0 && !self.cfg.sw.empty_list { 1 } else { n };
                let mut xs = Vec::new();
                for _ in 0..n {
                    xs.push(self.expr(el, depth + 1, 0));
                }
                Expr::ListLit(xs, el.clone())
            }
            2 => {
                self.tag("list_slice");
                match self.operand(&lt, depth, P_ATOM, false) {
                    Some(b) => self.slice_of(b, depth),
                    None => self.atom(&lt),
                }
            }
            3 => {
                self.tag("comprehension");
                let Some(it) = self.operand(&lt, depth, P_ATOM, true) else { return self.atom(&lt) };
                let var = self.fresh();
                self.scopes.push(vec![VarInfo { name: var, ty: Ty::Int, mutable: false, param: false, reserved: false }]);
                self.pure_only += 1;
                let elem = self.expr(&Ty::Int, depth + 1, 0);
                let cond = if self.t.chance(1, 2) {
                    self.tag("comprehension_filter");
                    Some(Box::new(self.expr(&Ty::Bool, depth + 1, 0)))
                } else {
                    None
                };
                self.pure_only -= 1;
                self.scopes.pop();
                Expr::Comp(Box::new(elem), var, Box::new(it), cond)
            }
            _ => {
                let fs = self.callable_fns(&lt);
                let f = fs[self.t.below(fs.len())];
                self.call(f, depth)
            }
        }
    }

    // ---------------------------------------------------------------- statements

    fn value_types(&mut self) -> Vec<Ty> {
        let sw = &self.cfg.sw;
        let mut v = vec![Ty::Int, Ty::Int, Ty::Bool, Ty::Str, Ty::list(Ty::Int)];
        if sw.float_ops {
            v.push(Ty::Float);
            v.push(Ty::Float);
        }
        if sw.list_str {
            v.push(Ty::list(Ty::Str));
        }
        if sw.dict {
            v.push(Ty::Dict);
        }
        if sw.tuple {
            v.push(Ty::Tuple(vec![Ty::Int, Ty::Str]));
        }
        if sw.option_result {
            v.push(Ty::Opt(Box::new(Ty::Int)));
            v.push(Ty::Res(Box::new(Ty::Int)));
        }
        if sw.models {
            for m in 0..self.models.len() {
                v.push(Ty::Model(m));
            }
        }
        if sw.enums {
            for e in 0..self.enums.len() {
                v.push(Ty::Enum(e));
            }
        }
        v
    }

    fn pick_ty(&mut self) -> Ty {
        let v = self.value_types();
        let t = v[self.t.below(v.len())].clone();
        if matches!(t, Ty::Opt(_) | Ty::Res(_)) && !self.cfg.sw.result_literal_binding && self.callable_fns(&t).is_empty() {
            return Ty::Int;
        }
        t
    }

    fn printable_ty(&mut self) -> Ty {
        let v: Vec<Ty> = if self.cfg.sw.float_ops { vec![Ty::Int, Ty::Int, Ty::Str, Ty::Bool, Ty::Float] } else { vec![Ty::Int, Ty::Int, Ty::Str, Ty::Bool] };
        v[self.t.below(v.len())].clone()
    }

    pub fn block(&mut self, max: usize, depth: u32) -> Vec<Stmt> {
        self.scopes.push(Vec::new());
        let out = self.block_in_scope(max, depth);
        self.scopes.pop();
        out
    }

    fn block_in_scope(&mut self, max: usize, depth: u32) -> Vec<Stmt> {
        let n = 1 + self.t.below(max.max(1));
        let mut out = Vec::new();
        for _ in 0..n {
            if self.stmts_left == 0 {
                break;
            }
            self.stmts_left -= 1;
            let s = self.stmt(depth);
            let stop = matches!(s.last(), Some(Stmt::Break | Stmt::Continue | Stmt::Return(_)));
            out.extend(s);
            if stop {
                break;
            }
        }
        if out.is_empty() {
            out.push(Stmt::Pass);
        }
        out
    }

    fn let_stmt(&mut self, depth: u32) -> Stmt {
        let ty = self.pick_ty();
        self.let_of(ty, depth)
    }

    fn let_of(&mut self, ty: Ty, depth: u32) -> Stmt {
        let mut ty = ty;
        if ty == Ty::Dict && !self.cfg.sw.dict_in_nested_block && (depth > 0 || self.scopes.len() > 1) {
            ty = Ty::Int;
        }
        self.in_let_init = true;
        let mut e = self.expr(&ty, depth, 0);
        self.in_let_init = false;
        if ty == Ty::Dict && !matches!(e, Expr::DictLit(_)) && !self.cfg.sw.dict_inline_literal {
            e = self.literal(&Ty::Dict, 0);
        }
        if !self.cfg.sw.result_literal_binding && matches!(e, Expr::SomeE(_) | Expr::NoneE | Expr::OkE(_) | Expr::ErrE(_)) {
            ty = Ty::Int;
            e = self.expr(&ty, depth, 0);
        }
        let e = self.no_bare_move(e, &ty);
        // shadowing: reuse the name of a visible variable in a *nested* scope with let/mut (documented)
        let mut name = None;
        if self.cfg.sw.shadow && self.scopes.len() >= 2 && self.t.chance(1, 6) {
            let inner: Vec<u32> = self.scopes.last().unwrap().iter().map(|v| v.name).collect();
            let outer: Vec<VarInfo> = self.scopes[..self.scopes.len() - 1]
                .iter()
                .flatten()
                .filter(|v| !v.reserved && !inner.contains(&v.name) && (self.cfg.sw.shadow_param_mut || !v.param))
                .cloned()
                .collect();
            if !outer.is_empty() {
                name = Some(outer[self.t.below(outer.len())].name);
                self.tag("shadow");
            }
        }
        let shadowing = name.is_some();
        let name = name.unwrap_or_else(|| self.fresh());
        let kind = if matches!(ty, Ty::Tuple(_)) {
            // the checker rejects `mut` tuples ("Tuples are immutable")
            if self.t.chance(1, 2) { LetKind::Let } else if shadowing { LetKind::Let } else { LetKind::Plain }
        } else if shadowing {
            if self.t.chance(1, 2) { LetKind::Mut } else { LetKind::Let }
        } else {
            match self.t.below(4) {
                0 => LetKind::Plain,
                1 => LetKind::Let,
                _ => LetKind::Mut,
            }
        };
        // annotate when the type cannot be inferred from the initializer, else sometimes
        let must = needs_annotation(&e) || matches!(e, Expr::DictLit(_));
        let annotated = must || self.t.chance(1, 2);
        match kind {
            LetKind::Let => self.tag("let"),
            LetKind::Mut => self.tag("mut"),
            LetKind::Plain => self.tag("plain_binding"),
        }
        self.declare(name, ty.clone(), kind == LetKind::Mut);
        Stmt::Let { name, ty, annotated, kind, e }
    }

    fn print_stmt(&mut self, depth: u32) -> Stmt {
        let ty = self.printable_ty();
        Stmt::Print(self.expr(&ty, depth, 0))
    }

    pub fn stmt(&mut self, depth: u32) -> Vec<Stmt> {
        let sw = self.cfg.sw.clone();
        let nest_ok = depth < 3 && self.stmts_left > 0;
        let in_loop = self.loop_depth > 0;
        let w = [
            6,                                                  // 0 print
            5,                                                  // 1 let
            4,                                                  // 2 assign / aug
            if nest_ok { 4 } else { 0 },                        // 3 if
            if nest_ok { 2 } else { 0 },                        // 4 while
            if nest_ok { 3 } else { 0 },                        // 5 for range
            if nest_ok { 2 } else { 0 },                        // 6 for in
            if in_loop { 1 } else { 0 },                        // 7 break/continue (guarded)
            2,                                                  // 8 list mutation
            if sw.dict { 1 } else { 0 },                        // 9 dict set
            if sw.models { 2 } else { 0 },                      // 10 field set / mut method
            if nest_ok && (sw.enums || sw.option_result) { 3 } else { 0 }, // 11 match
            if self.ret.is_some() && depth > 0 { 1 } else { 0 }, // 12 early return (guarded)
            if self.pure_only == 0 { 1 } else { 0 },            // 13 call statement
            if sw.option_result && matches!(self.ret, Some(Ty::Res(_))) { 2 } else { 0 }, // 14 try-let
        ];
        match self.t.weighted(&w) {
            0 => vec![self.print_stmt(depth)],
            1 => vec![self.let_stmt(depth)],
            2 => {
                // assignment to a mutable variable of a scalar/list type
                let tys = [Ty::Int, Ty::Float, Ty::Str, Ty::Bool, Ty::list(Ty::Int)];
                let mut cands: Vec<VarInfo> = Vec::new();
                for t in &tys {
                    if *t == Ty::Str && !sw.str_reassign {
                        continue;
                    }
                    cands.extend(self.mutable_vars_of(t));
                }
                cands.retain(|v| !self.iterating.contains(&v.name));
                if cands.is_empty() {
                    let ty = [Ty::Int, Ty::Float][self.t.below(if sw.float_ops { 2 } else { 1 })].clone();
                    let e = self.expr(&ty, depth, 0);
                    let name = self.fresh();
                    self.declare(name, ty.clone(), true);
                    self.tag("mut");
                    return vec![Stmt::Let { name, ty, annotated: self.t.chance(1, 2), kind: LetKind::Mut, e }];
                }
                let v = cands[self.t.below(cands.len())].clone();
                let aug = v.ty.is_num() && self.t.chance(1, 2);
                if aug {
                    self.tag("aug_assign");
                    let ops: &[BinOp] = if v.ty == Ty::Int {
                        &[BinOp::Add, BinOp::Sub, BinOp::Mul, BinOp::FloorDiv, BinOp::Mod]
                    } else {
                        &[BinOp::Add, BinOp::Sub, BinOp::Mul, BinOp::Div, BinOp::FloorDiv, BinOp::Mod]
                    };
                    let op = ops[self.t.below(ops.len())];
                    // rhs type: same kind, or int into a float target
                    let rty = if v.ty == Ty::Float && self.t.chance(1, 3) { Ty::Int } else { v.ty.clone() };
                    let min = if sw.aug_compound_rhs { 0 } else { P_ATOM };
                    let e = if matches!(op, BinOp::FloorDiv | BinOp::Mod | BinOp::Div) {
                        self.divisor(&rty, depth, min)
                    } else if rty != v.ty && !sw.aug_compound_rhs {
                        self.mixed_int_operand(depth, P_ATOM)
                    } else {
                        self.expr(&rty, depth, min)
                    };
                    vec![Stmt::Aug { name: v.name, op, e }]
                } else {
                    self.tag("reassign");
                    let e = self.expr(&v.ty, depth, 0);
                    let e = self.no_bare_move(e, &v.ty);
                    vec![Stmt::Assign { name: v.name, e }]
                }
            }
            3 => {
                self.tag("if");
                let mut arms = Vec::new();
                let c = self.expr(&Ty::Bool, depth, 0);
                let b = self.block(self.cfg.max_block, depth + 1);
                arms.push((c, b));
                let nel = if sw.elif { self.t.below(3) } else { 0 };
                for _ in 0..nel {
                    self.tag("elif");
                    let c = self.expr(&Ty::Bool, depth, 0);
                    let b = self.block(self.cfg.max_block, depth + 1);
                    arms.push((c, b));
                }
                let els = if self.t.chance(1, 2) {
                    self.tag("else");
                    Some(self.block(self.cfg.max_block, depth + 1))
                } else {
                    None
                };
                vec![Stmt::If { arms, els }]
            }
            4 => {
                self.tag("while");
                let counter = self.fresh();
                let init = Stmt::Let { name: counter, ty: Ty::Int, annotated: self.t.chance(1, 2), kind: LetKind::Mut, e: Expr::Int(0) };
                self.scopes.last_mut().unwrap().push(VarInfo { name: counter, ty: Ty::Int, mutable: true, param: false, reserved: true });
                let bound = 1 + self.t.below(5) as i64;
                self.pure_only += 1;
                let extra = if self.t.chance(1, 3) { Some(self.expr(&Ty::Bool, depth + 1, 3)) } else { None };
                self.pure_only -= 1;
                self.loop_depth += 1;
                // the counter is readable (not assignable) inside the body
                self.scopes.push(vec![VarInfo { name: counter, ty: Ty::Int, mutable: false, param: false, reserved: false }]);
                let body = self.block_in_scope(self.cfg.max_block, depth + 1);
                self.scopes.pop();
                self.loop_depth -= 1;
                vec![init, Stmt::While { counter, bound, extra, body }]
            }
            5 => {
                self.tag("for_range");
                let nargs = 1 + self.t.below(3);
                let mut args = Vec::new();
                self.pure_only += 1;
                match nargs {
                    1 => args.push(self.small_int(depth)),
                    2 => {
                        args.push(self.small_int(depth));
                        args.push(self.small_int(depth));
                    }
                    _ => {
                        args.push(self.small_int(depth));
                        args.push(self.small_int(depth));
                        let steps: &[i64] = if sw.runtime_errors { &[1, 2, -1, -2, 3, 0] } else { &[1, 2, -1, -2, 3] };
                        args.push(Expr::Int(steps[self.t.below(steps.len())]));
                    }
                }
                self.pure_only -= 1;
                let var = self.fresh();
                self.loop_depth += 1;
                self.scopes.push(vec![VarInfo { name: var, ty: Ty::Int, mutable: false, param: false, reserved: false }]);
                let body = self.block_in_scope(self.cfg.max_block, depth + 1);
                self.scopes.pop();
                self.loop_depth -= 1;
                vec![Stmt::ForRange { var, args, body }]
            }
            6 => {
                let (ety, tag): (Ty, &'static str) = match self.t.below(3) {
                    1 if sw.list_str => (Ty::Str, "for_list_str"),
                    2 if sw.for_str => (Ty::Unit, "for_str"),
                    _ => (Ty::Int, "for_list_int"),
                };
                self.tag(tag);
                let (iter, vty) = if ety == Ty::Unit {
                    (self.operand(&Ty::Str, depth, 0, true), Ty::Str)
                } else {
                    (self.operand(&Ty::list(ety.clone()), depth, 0, true), ety)
                };
                let Some(iter) = iter else { return vec![self.print_stmt(depth)] };
                let it_name = if let Expr::Var(n) = &iter { Some(*n) } else { None };
                if let Some(n) = it_name {
                    self.iterating.push(n);
                }
                let var = self.fresh();
                self.loop_depth += 1;
                self.scopes.push(vec![VarInfo { name: var, ty: vty, mutable: false, param: false, reserved: false }]);
                let body = self.block_in_scope(self.cfg.max_block, depth + 1);
                self.scopes.pop();
                self.loop_depth -= 1;
                if it_name.is_some() {
                    self.iterating.pop();
                }
                vec![Stmt::ForIn { var, iter, body }]
            }
            7 => {
                // `if cond: break|continue`
                self.pure_only += 1;
                let c = self.expr(&Ty::Bool, depth, 0);
                self.pure_only -= 1;
                let s = if self.t.chance(1, 2) {
                    self.tag("break");
                    Stmt::Break
                } else {
                    self.tag("continue");
                    Stmt::Continue
                };
                vec![Stmt::If { arms: vec![(c, vec![s])], els: None }]
            }
            8 => {
                let cands = self.mutable_vars_of(&Ty::list(Ty::Int));
                if cands.is_empty() {
                    let name = self.fresh();
                    let e = self.literal(&Ty::list(Ty::Int), 0);
                    self.declare(name, Ty::list(Ty::Int), true);
                    return vec![Stmt::Let { name, ty: Ty::list(Ty::Int), annotated: true, kind: LetKind::Mut, e }];
                }
                let cands: Vec<VarInfo> = cands.into_iter().filter(|v| !self.iterating.contains(&v.name)).collect();
                if cands.is_empty() {
                    return vec![self.print_stmt(depth)];
                }
                let v = cands[self.t.below(cands.len())].clone();
                if self.t.chance(2, 3) {
                    self.tag("list_append");
                    let e = self.expr(&Ty::Int, depth, 0);
                    vec![Stmt::Append { name: v.name, e }]
                } else {
                    self.tag("list_set_index");
                    self.pure_only += 1;
                    let mut idx = self.index_expr(depth);
                    if !sw.setindex_self_ref {
                        let mut refs_self = false;
                        walk_expr(&idx, &mut |x| {
                            if matches!(x, Expr::Var(n) if *n == v.name) {
                                refs_self = true;
                            }
                        });
                        if refs_self {
                            idx = Expr::Int(0);
                        }
                    }
                    let e = self.expr(&Ty::Int, depth, 0);
                    self.pure_only -= 1;
                    vec![Stmt::SetIndex { name: v.name, idx, e }]
                }
            }
            9 => {
                let cands = self.mutable_vars_of(&Ty::Dict);
                if cands.is_empty() && !self.cfg.sw.dict_in_nested_block && (depth > 0 || self.scopes.len() > 1) {
                    return vec![self.print_stmt(depth)];
                }
                if cands.is_empty() {
                    let name = self.fresh();
                    let e = self.literal(&Ty::Dict, 0);
                    self.declare(name, Ty::Dict, true);
                    return vec![Stmt::Let { name, ty: Ty::Dict, annotated: true, kind: LetKind::Mut, e }];
                }
                self.tag("dict_set");
                let v = cands[self.t.below(cands.len())].clone();
                let key = self.dict_key();
                self.pure_only += 1;
                let e = self.expr(&Ty::Int, depth, 0);
                self.pure_only -= 1;
                vec![Stmt::DictSet { name: v.name, key, e }]
            }
            10 => {
                // mutable class instance: field assignment or `mut self` method call
                let mut cands: Vec<(u32, usize)> = Vec::new();
                for m in 0..self.models.len() {
                    if self.models[m].is_class {
                        for v in self.mutable_vars_of(&Ty::Model(m)) {
                            cands.push((v.name, m));
                        }
                    }
                }
                if cands.is_empty() {
                    let classes: Vec<usize> = (0..self.models.len()).filter(|m| self.models[*m].is_class).collect();
                    if classes.is_empty() {
                        return vec![self.print_stmt(depth)];
                    }
                    let m = classes[self.t.below(classes.len())];
                    let name = self.fresh();
                    let e = self.literal_deep(&Ty::Model(m), depth);
                    self.declare(name, Ty::Model(m), true);
                    return vec![Stmt::Let { name, ty: Ty::Model(m), annotated: self.t.chance(1, 2), kind: LetKind::Mut, e }];
                }
                let (name, m) = cands[self.t.below(cands.len())];
                let muts: Vec<usize> = self.models[m].methods.iter().enumerate().filter(|(_, me)| me.mut_self).map(|(i, _)| i).collect();
                if !muts.is_empty() && self.t.chance(1, 2) {
                    self.tag("mut_method_call");
                    let me = muts[self.t.below(muts.len())];
                    let ptys: Vec<Ty> = self.models[m].methods[me].params.iter().map(|p| p.1.clone()).collect();
                    let args = ptys.iter().map(|t| if *t == Ty::Str && !self.cfg.sw.noncopy_var_arg { self.literal(t, 1) } else { self.expr(t, depth + 1, 0) }).collect();
                    vec![Stmt::ExprStmt(Expr::Method(Box::new(Expr::Var(name)), m, me, args))]
                } else {
                    self.tag("field_set");
                    let nf = self.models[m].fields.len();
                    let f = self.t.below(nf);
                    let fty = self.models[m].fields[f].0.clone();
                    if fty == Ty::Str && !sw.str_reassign {
                        return vec![self.print_stmt(depth)];
                    }
                    let e = self.ctor_arg(&fty, depth);
                    vec![Stmt::FieldSet { name, model: m, field: f, e }]
                }
            }
            11 => self.match_stmt(depth),
            12 => {
                self.tag("early_return");
                self.pure_only += 1;
                let c = self.expr(&Ty::Bool, depth, 0);
                self.pure_only -= 1;
                let r = self.return_stmt(depth);
                vec![Stmt::If { arms: vec![(c, vec![r])], els: None }]
            }
            13 => {
                let fs = self.callable_fns(&Ty::Unit);
                if fs.is_empty() {
                    return vec![self.print_stmt(depth)];
                }
                self.tag("call_stmt");
                let f = fs[self.t.below(fs.len())];
                vec![Stmt::ExprStmt(self.call(f, depth))]
            }
            _ => {
                // x = f(..)?  inside a function returning Result
                let fs: Vec<usize> = self.fns.iter().enumerate().filter(|(_, f)| matches!(f.ret, Ty::Res(_))).map(|(i, _)| i).collect();
                if fs.is_empty() || self.loop_depth > 0 {
                    return vec![self.print_stmt(depth)];
                }
                self.tag("try_operator");
                let f = fs[self.t.below(fs.len())];
                let inner = match &self.fns[f].ret {
                    Ty::Res(t) => (**t).clone(),
                    _ => Ty::Int,
                };
                let call = self.call(f, depth);
                let name = self.fresh();
                self.declare(name, inner.clone(), false);
                vec![Stmt::Let { name, ty: inner, annotated: false, kind: LetKind::Plain, e: Expr::Try(Box::new(call)) }]
            }
        }
    }

    fn small_int(&mut self, depth: u32) -> Expr {
        match self.t.below(4) {
            0 => Expr::Int(self.t.below(6) as i64),
            1 => Expr::Int(self.t.below(10) as i64 - 3),
            2 => {
                // a variable, but only if plausibly small: use len(list) or a literal instead
                match self.operand(&Ty::list(Ty::Int), depth, 0, true) {
                    Some(a) => Expr::Len(Box::new(a)),
                    None => Expr::Int(2),
                }
            }
            _ => Expr::Int(3),
        }
    }

    fn return_stmt(&mut self, depth: u32) -> Stmt {
        match self.ret.clone() {
            Some(Ty::Unit) | None => Stmt::Return(None),
            Some(t) => {
                let e = self.expr(&t, depth, 0);
                Stmt::Return(Some(self.no_bare_move(e, &t)))
            }
        }
    }

    fn match_stmt(&mut self, depth: u32) -> Vec<Stmt> {
        let sw = self.cfg.sw.clone();
        let mut choices: Vec<Ty> = Vec::new();
        if sw.enums {
            for e in 0..self.enums.len() {
                choices.push(Ty::Enum(e));
            }
        }
        if sw.option_result {
            choices.push(Ty::Opt(Box::new(Ty::Int)));
            choices.push(Ty::Res(Box::new(Ty::Int)));
        }
        if choices.is_empty() {
            return vec![self.print_stmt(depth)];
        }
        let mut ty = choices[self.t.below(choices.len())].clone();
        if matches!(ty, Ty::Opt(_) | Ty::Res(_)) && !sw.result_literal_binding && self.callable_fns(&ty).is_empty() && self.vars_of(&ty).is_empty() {
            let es: Vec<Ty> = choices.iter().filter(|t| matches!(t, Ty::Enum(_))).cloned().collect();
            if es.is_empty() {
                return vec![self.print_stmt(depth)];
            }
            ty = es[self.t.below(es.len())].clone();
        }
        let mut scrut = self.expr(&ty, depth + 1, 0);
        let mut pre = Vec::new();
        if matches!(scrut, Expr::SomeE(_) | Expr::NoneE | Expr::OkE(_) | Expr::ErrE(_)) {
            if !sw.result_literal_binding {
                return vec![self.print_stmt(depth)];
            }
            let name = self.fresh();
            self.declare(name, ty.clone(), false);
            pre.push(Stmt::Let { name, ty: ty.clone(), annotated: true, kind: LetKind::Let, e: scrut });
            scrut = Expr::Var(name);
        }
        let style = [ArmStyle::CaseBlock, ArmStyle::CaseInline, ArmStyle::FatArrow][self.t.below(3)];
        let mut arms = Vec::new();
        let arm_body = |g: &mut Gen<'a>, binds: Vec<(u32, Ty)>, style: ArmStyle| -> Vec<Stmt> {
            g.scopes.push(binds.into_iter().map(|(n, t)| VarInfo { name: n, ty: t, mutable: false, param: false, reserved: false }).collect());
            let b = if style == ArmStyle::CaseBlock { g.block_in_scope(3, depth + 1) } else { vec![g.print_stmt(depth + 1)] };
            g.scopes.pop();
            b
        };
        match &ty {
            Ty::Enum(e) => {
                self.tag("match_enum");
                let nv = self.enums[*e].variants.len();
                let wildcard_from = if self.t.chance(1, 3) { 1 + self.t.below(nv) } else { nv };
                for v in 0..nv.min(wildcard_from) {
                    let ptys = self.enums[*e].variants[v].clone();
                    let bs: Vec<u32> = ptys.iter().map(|_| self.fresh()).collect();
                    let binds = bs.iter().cloned().zip(ptys.iter().cloned()).collect();
                    let body = arm_body(self, binds, style);
                    arms.push((Pat::Variant(*e, v, bs), body));
                }
                if wildcard_from < nv {
                    self.tag("match_wildcard");
                    let body = arm_body(self, vec![], style);
                    arms.push((Pat::Wild, body));
                }
            }
            Ty::Opt(t) => {
                self.tag("match_option");
                let b = self.fresh();
                let body = arm_body(self, vec![(b, (**t).clone())], style);
                arms.push((Pat::SomeP(b), body));
                let body = arm_body(self, vec![], style);
                arms.push((Pat::NoneP, body));
            }
            Ty::Res(t) => {
                self.tag("match_result");
                let b = self.fresh();
                let body = arm_body(self, vec![(b, (**t).clone())], style);
                arms.push((Pat::OkP(b), body));
                let b2 = self.fresh();
                let body = arm_body(self, vec![(b2, Ty::Str)], style);
                arms.push((Pat::ErrP(b2), body));
            }
            _ => {}
        }
        match style {
            ArmStyle::CaseBlock => self.tag("arm_case_block"),
            ArmStyle::CaseInline => self.tag("arm_case_inline"),
            ArmStyle::FatArrow => self.tag("arm_fat_arrow"),
        }
        pre.push(Stmt::Match { scrut, arms, style });
        pre
    }

    // ---------------------------------------------------------------- declarations

    fn scalar_field_ty(&mut self) -> Ty {
        let v: Vec<Ty> = if self.cfg.sw.float_ops { vec![Ty::Int, Ty::Str, Ty::Bool, Ty::Float, Ty::Int] } else { vec![Ty::Int, Ty::Str, Ty::Bool, Ty::Int] };
        v[self.t.below(v.len())].clone()
    }

    fn gen_enum(&mut self) {
        let nv = 2 + self.t.below(3);
        let mut variants = Vec::new();
        for _ in 0..nv {
            let np = self.t.below(3);
            let mut p = Vec::new();
            for _ in 0..np {
                let want_str = self.t.chance(1, 3);
                p.push(if want_str && self.cfg.sw.enum_str_payload { Ty::Str } else { Ty::Int });
            }
            variants.push(p);
        }
        self.enums.push(EnumDef { variants });
    }

    fn gen_model(&mut self) {
        let m = self.models.len();
        let is_class = self.t.chance(1, 2);
        let nf = 1 + self.t.below(4);
        let mut fields = Vec::new();
        for i in 0..nf {
            let t = self.scalar_field_ty();
            // defaults only on trailing fields
            let d = if i + 1 == nf && self.t.chance(1, 2) { Some(self.literal(&t, 0)) } else { None };
            fields.push((t, d));
        }
        self.pending_fields = Some((m, fields.iter().map(|f| f.0.clone()).collect()));
        self.models.push(ModelDef { is_class, fields: fields.clone(), methods: vec![] });
        let nm = self.t.below(3);
        let mut methods = Vec::new();
        for _ in 0..nm {
            let mut_self = is_class && self.t.chance(1, 2);
            let np = self.t.below(3);
            let mut params = Vec::new();
            for _ in 0..np {
                let n = self.fresh();
                let t = [Ty::Int, Ty::Int, Ty::Str][self.t.below(3)].clone();
                params.push((n, t));
            }
            let ret = if mut_self { Ty::Unit } else { self.scalar_field_ty() };
            self.scopes.push(params.iter().map(|(n, t)| VarInfo { name: *n, ty: t.clone(), mutable: false, param: true, reserved: false }).collect());
            self.self_model = Some((m, mut_self));
            self.ret = Some(ret.clone());
            let saved = self.stmts_left;
            self.stmts_left = 4;
            let mut body = Vec::new();
            if mut_self {
                self.tag("mut_self_method");
                // one or two field updates
                let k = 1 + self.t.below(2);
                for _ in 0..k {
                    let f = self.t.below(nf);
                    let fty = fields[f].0.clone();
                    if fty == Ty::Str && !self.cfg.sw.self_str_ops {
                        body.push(Stmt::Print(Expr::Int(f as i64)));
                        continue;
                    }
                    if fty.is_num() && self.t.chance(1, 2) {
                        let min = if self.cfg.sw.aug_compound_rhs { 0 } else { P_ATOM };
                        let e = self.expr(&fty, 1, min);
                        body.push(Stmt::SelfFieldAug { field: f, op: [BinOp::Add, BinOp::Sub, BinOp::Mul][self.t.below(3)], e });
                    } else {
                        let e = self.expr(&fty, 1, 0);
                        body.push(Stmt::SelfFieldSet { field: f, e });
                    }
                }
            } else {
                self.tag("method");
                if self.t.chance(1, 2) {
                    body.push(self.print_stmt(1));
                }
                body.push(self.return_stmt(1));
            }
            self.stmts_left = saved;
            self.ret = None;
            self.self_model = None;
            self.scopes.pop();
            methods.push(MethodDef { mut_self, params, ret, body });
            self.models[m].methods = methods.clone();
        }
        self.pending_fields = None;
        self.tag(if is_class { "class" } else { "model" });
    }

    /// `def f(n: int, acc: int) -> int: if n <= 0: return acc; [println(n)]; return f(n - 1, acc <op> n)` or the
    /// non-tail form `return n <op> f(n - 1, acc)`
    fn gen_recursive_fn(&mut self) {
        let f = self.fns.len();
        let (n, acc) = (self.fresh(), self.fresh());
        let op = [BinOp::Add, BinOp::Mul, BinOp::Sub][self.t.below(3)];
        let tail = self.t.chance(1, 2);
        let mut body = vec![Stmt::If { arms: vec![(Expr::Bin(BinOp::Le, Box::new(Expr::Var(n)), Box::new(Expr::Int(0))), vec![Stmt::Return(Some(Expr::Var(acc)))])], els: None }];
        if self.t.chance(1, 2) {
            body.push(Stmt::Print(Expr::Var(n)));
        }
        let dec = Expr::Bin(BinOp::Sub, Box::new(Expr::Var(n)), Box::new(Expr::Int(1)));
        if tail {
            let step = Expr::Bin(op, Box::new(Expr::Var(acc)), Box::new(Expr::Var(n)));
            body.push(Stmt::Return(Some(Expr::SelfCall(f, vec![dec, step]))));
        } else {
            let call = Expr::SelfCall(f, vec![dec, Expr::Var(acc)]);
            body.push(Stmt::Return(Some(Expr::Bin(op, Box::new(Expr::Var(n)), Box::new(call)))));
        }
        self.tag("recursion");
        self.fns.push(FnSig { params: vec![(Ty::Int, false), (Ty::Int, false)], ret: Ty::Int });
        self.fn_defs.push(FnDef { params: vec![(n, Ty::Int, None), (acc, Ty::Int, None)], ret: Ty::Int, body });
    }

    fn gen_fn(&mut self) {
        if self.cfg.sw.recursion && self.t.chance(1, 5) {
            return self.gen_recursive_fn();
        }
        let np = self.t.below(4);
        let mut params = Vec::new();
        let ptypes = {
            let mut v = vec![Ty::Int, Ty::Int, Ty::Str, Ty::Bool, Ty::list(Ty::Int)];
            if self.cfg.sw.float_ops {
                v.push(Ty::Float);
            }
            for m in 0..self.models.len() {
                v.push(Ty::Model(m));
            }
            for e in 0..self.enums.len() {
                v.push(Ty::Enum(e));
            }
            v
        };
        for i in 0..np {
            let n = self.fresh();
            let t = ptypes[self.t.below(ptypes.len())].clone();
            let d = if self.cfg.sw.default_args && i + 1 == np && matches!(t, Ty::Int | Ty::Str) && self.t.chance(1, 3) { Some(self.literal(&t, 0)) } else { None };
            params.push((n, t, d));
        }
        let rets = {
            let mut v = vec![Ty::Int, Ty::Int, Ty::Str, Ty::Bool, Ty::Unit, Ty::list(Ty::Int)];
            if self.cfg.sw.float_ops {
                v.push(Ty::Float);
            }
            if self.cfg.sw.option_result {
                v.push(Ty::Opt(Box::new(Ty::Int)));
                v.push(Ty::Res(Box::new(Ty::Int)));
                v.push(Ty::Res(Box::new(Ty::Int)));
            }
            for m in 0..self.models.len() {
                v.push(Ty::Model(m));
            }
            v
        };
        let ret = rets[self.t.below(rets.len())].clone();
        self.scopes.push(params.iter().map(|(n, t, _)| VarInfo { name: *n, ty: t.clone(), mutable: false, param: true, reserved: false }).collect());
        self.ret = Some(ret.clone());
        let saved = self.stmts_left;
        self.stmts_left = 6;
        let mut body = self.block_in_scope(4, 1);
        if !matches!(body.last(), Some(Stmt::Return(_))) {
            if matches!(body.last(), Some(Stmt::Break | Stmt::Continue)) {
                body.pop();
            }
            if ret != Ty::Unit || self.t.chance(1, 4) {
                let r = self.return_stmt(1);
                body.push(r);
            }
        }
        self.stmts_left = saved;
        self.ret = None;
        self.scopes.pop();
        self.tag("function");
        if matches!(ret, Ty::Res(_)) {
            self.tag("fn_returns_result");
        }
        self.fns.push(FnSig { params: params.iter().map(|(_, t, d)| (t.clone(), d.is_some())).collect(), ret: ret.clone() });
        self.fn_defs.push(FnDef { params, ret, body });
    }

    pub fn program(mut self) -> Program {
        let sw = self.cfg.sw.clone();
        if sw.enums {
            let n = self.t.below(3);
            for _ in 0..n {
                self.gen_enum();
            }
            if n > 0 {
                self.tag("enum");
            }
        }
        if sw.models {
            let n = self.t.below(3);
            for _ in 0..n {
                self.gen_model();
            }
        }
        let nf = self.t.below(self.cfg.max_fns + 1);
        for _ in 0..nf {
            self.gen_fn();
        }
        self.scopes.push(Vec::new());
        self.stmts_left = self.cfg.max_stmts;
        let mut main = Vec::new();
        // always a few seed variables so expressions have material
        for ty in [Ty::Int, Ty::Str, Ty::list(Ty::Int)] {
            main.push(self.let_of(ty, 0));
        }
        if sw.float_ops {
            main.push(self.let_of(Ty::Float, 0));
        }
        while self.stmts_left > 0 && !self.t.exhausted() {
            self.stmts_left -= 1;
            main.extend(self.stmt(0));
        }
        // final observation of every printable variable still in scope
        let finals: Vec<(u32, Ty)> = {
            let mut seen = std::collections::BTreeSet::new();
            let mut v = Vec::new();
            for sc in self.scopes.iter().rev() {
                for x in sc.iter().rev() {
                    if seen.insert(x.name) && x.ty.printable() {
                        v.push((x.name, x.ty.clone()));
                    }
                }
            }
            v
        };
        for (n, _) in finals.into_iter().take(6) {
            main.push(Stmt::Print(Expr::Var(n)));
        }
        Program { enums: self.enums, models: self.models, fns: self.fn_defs, main, tags: self.tags }
    }
}

fn contains_str_lit(e: &Expr) -> bool {
    // conservative: anything that renders a quote character
    let mut found = false;
    walk_expr(e, &mut |x| {
        if matches!(x, Expr::Str(_) | Expr::FStr(_) | Expr::DictLit(_)) {
            found = true;
        }
    });
    found
}

fn e_opt(e: Expr) -> Option<Expr> {
    if matches!(e, Expr::NoneE) {
        None
    } else {
        Some(e)
    }
}

pub fn walk_expr(e: &Expr, f: &mut dyn FnMut(&Expr)) {
    f(e);
    match e {
        Expr::Bin(_, a, b) | Expr::Index(a, b) | Expr::Join(a, b) | Expr::In(a, b, _) => {
            walk_expr(a, f);
            walk_expr(b, f);
        }
        Expr::ListFn(_, a) | Expr::Sorted(a) | Expr::Neg(a) | Expr::Not(a) | Expr::Len(a) | Expr::Abs(a) | Expr::ToInt(a) | Expr::ToFloat(a) | Expr::ToStr(a) | Expr::SomeE(a) | Expr::OkE(a) | Expr::ErrE(a) | Expr::Try(a) | Expr::Paren(a) | Expr::TupleIdx(a, _) | Expr::Field(a, _, _) => walk_expr(a, f),
        Expr::SelfCall(_, args) | Expr::Call(_, args, _) | Expr::ListLit(args, _) | Expr::New(_, args) | Expr::Variant(_, _, args) | Expr::TupleLit(args) => {
            for a in args {
                walk_expr(a, f);
            }
        }
        Expr::NewPartial(_, args) => {
            for a in args.iter().flatten() {
                walk_expr(a, f);
            }
        }
        Expr::StrMethod(_, r, args) | Expr::Method(r, _, _, args) => {
            walk_expr(r, f);
            for a in args {
                walk_expr(a, f);
            }
        }
        Expr::Slice(b, s, e2, st) => {
            walk_expr(b, f);
            for o in [s, e2, st].into_iter().flatten() {
                walk_expr(o, f);
            }
        }
        Expr::Comp(el, _, it, c) => {
            walk_expr(el, f);
            walk_expr(it, f);
            if let Some(c) = c {
                walk_expr(c, f);
            }
        }
        Expr::DictLit(kvs) => {
            for (_, v) in kvs {
                walk_expr(v, f);
            }
        }
        Expr::Path(_, steps) => {
            for st in steps {
                if let Step::Index(i) = st {
                    walk_expr(i, f);
                }
            }
        }
        Expr::FStr(parts) => {
            for p in parts {
                if let FPart::E(e) = p {
                    walk_expr(e, f);
                }
            }
        }
        _ => {}
    }
}

/// initializers whose type the checker cannot infer without an annotation
fn needs_annotation(e: &Expr) -> bool {
    match e {
        Expr::ListLit(xs, _) => xs.is_empty(),
        Expr::DictLit(kvs) => kvs.is_empty(),
        Expr::NoneE | Expr::OkE(_) | Expr::ErrE(_) => true,
        Expr::SomeE(_) => false,
        _ => false,
    }
}

/// Generate a program from a choice tape.
pub fn generate(tape: &[u32], cfg: &Cfg) -> Program {
    Gen::new(tape, cfg.clone()).program()
}


// ------------------------------------------------------------------------------------------------
// directed generator: nested assignment targets (field chains, list elements, nested lists)
// ------------------------------------------------------------------------------------------------

/// Programs over fixed declarations (`class Vec2 {x,y}`, `class Body {pos: Vec2, mass: int, vals: List[int]}`) and
/// variables `b: Body`, `bs: List[Body]`, `g: List[List[int]]`, `xs: List[int]`, `k: int`; the body is a tape-chosen
/// sequence of assignments / compound assignments through access paths of depth 1-3, whole-element replacements
/// and reads, followed by a print of every leaf.
pub fn generate_lvalue(tape: &[u32], cfg: &Cfg) -> Program {
    let mut t = Tape::new(tape);
    let vec2 = ModelDef { is_class: true, fields: vec![(Ty::Int, None), (Ty::Int, None)], methods: vec![] };
    let body = ModelDef { is_class: true, fields: vec![(Ty::Model(0), None), (Ty::Int, None), (Ty::list(Ty::Int), None)], methods: vec![] };
    let (b, bs, g, xs, k) = (0u32, 1u32, 2u32, 3u32, 4u32);
    let small = |t: &mut Tape| Expr::Int([0i64, 1, 2, 3, 5, 7, 10, 4][t.below(8)]);
    let mk_vec2 = |t: &mut Tape| Expr::New(0, vec![small(t), small(t)]);
    let mk_list = |t: &mut Tape, n: usize| Expr::ListLit((0..n).map(|_| small(t)).collect(), Ty::Int);
    let mk_body = |t: &mut Tape| {
        let p = mk_vec2(t);
        let m = small(t);
        let v = mk_list(t, 3);
        Expr::New(1, vec![p, m, v])
    };
    let mut main = Vec::new();
    let nb = 2 + t.below(2);
    main.push(Stmt::Let { name: b, ty: Ty::Model(1), annotated: false, kind: LetKind::Mut, e: mk_body(&mut t) });
    let elems: Vec<Expr> = (0..nb).map(|_| mk_body(&mut t)).collect();
    main.push(Stmt::Let { name: bs, ty: Ty::list(Ty::Model(1)), annotated: false, kind: LetKind::Mut, e: Expr::ListLit(elems, Ty::Model(1)) });
    let rows: Vec<Expr> = (0..2).map(|_| mk_list(&mut t, 3)).collect();
    main.push(Stmt::Let { name: g, ty: Ty::list(Ty::list(Ty::Int)), annotated: false, kind: LetKind::Mut, e: Expr::ListLit(rows, Ty::list(Ty::Int)) });
    main.push(Stmt::Let { name: xs, ty: Ty::list(Ty::Int), annotated: false, kind: LetKind::Mut, e: mk_list(&mut t, 3) });
    main.push(Stmt::Let { name: k, ty: Ty::Int, annotated: true, kind: LetKind::Let, e: Expr::Int(t.below(2) as i64) });

    // index operand for a list of length `len`
    let idx = |t: &mut Tape, len: usize, allow_oob: bool| -> Expr {
        match t.below(10) {
            0..=3 => Expr::Int(t.below(len) as i64),
            4..=5 => Expr::Int(-(1 + t.below(len) as i64)),
            6..=7 => Expr::Var(4),
            8 if allow_oob => Expr::Int(len as i64 + t.below(2) as i64),
            _ => Expr::Int(0),
        }
    };
    let oob = cfg.sw.runtime_errors;
    // lists reached through a field are indexed with raw Rust indexing (known finding): no out-of-range there
    let field_oob = cfg.sw.field_list_neg_index;
    // int leaf paths
    let leaf = |t: &mut Tape| -> (u32, Vec<Step>) {
        let rare_oob = oob && t.chance(1, 12);
        match t.below(9) {
            0 => (0, vec![Step::Field(1, 0), Step::Field(0, t.below(2))]),
            1 => (0, vec![Step::Field(1, 1)]),
            2 => (0, vec![Step::Field(1, 2), Step::Index(Box::new(idx(t, 3, rare_oob && field_oob)))]),
            3 => (1, vec![Step::Index(Box::new(idx(t, nb, rare_oob))), Step::Field(1, 1)]),
            4 => (1, vec![Step::Index(Box::new(idx(t, nb, rare_oob))), Step::Field(1, 0), Step::Field(0, t.below(2))]),
            5 => (1, vec![Step::Index(Box::new(idx(t, nb, rare_oob))), Step::Field(1, 2), Step::Index(Box::new(idx(t, 3, rare_oob && field_oob)))]),
            6 | 7 => (2, vec![Step::Index(Box::new(idx(t, 2, rare_oob))), Step::Index(Box::new(idx(t, 3, rare_oob)))]),
            _ => (3, vec![Step::Index(Box::new(idx(t, 3, rare_oob)))]),
        }
    };
    let n = 4 + t.below(10);
    let mut tags: std::collections::BTreeSet<&'static str> = Default::default();
    tags.insert("lvalue_paths");
    for _ in 0..n {
        match t.below(10) {
            0..=4 => {
                let (root, path) = leaf(&mut t);
                let op = [None, Some(BinOp::Add), Some(BinOp::Sub), Some(BinOp::Mul), None][t.below(5)];
                // right-hand side: a leaf read, a literal, or (plain assignment only) a small natural-precedence sum
                let e = match t.below(4) {
                    0 => small(&mut t),
                    1 => {
                        let (r2, p2) = leaf(&mut t);
                        Expr::Path(r2, p2)
                    }
                    2 if op.is_none() || cfg.sw.aug_compound_rhs => {
                        let (r2, p2) = leaf(&mut t);
                        Expr::Bin(BinOp::Add, Box::new(Expr::Path(r2, p2)), Box::new(small(&mut t)))
                    }
                    _ => Expr::Var(4),
                };
                tags.insert(match path.len() {
                    1 => "lvalue_depth1",
                    2 => "lvalue_depth2",
                    _ => "lvalue_depth3",
                });
                if op.is_some() {
                    tags.insert("lvalue_aug");
                }
                main.push(Stmt::PathSet { root, path, op, e });
            }
            5 => {
                // whole-element replacement
                tags.insert("lvalue_replace_element");
                match t.below(4) {
                    0 => main.push(Stmt::PathSet { root: 0, path: vec![Step::Field(1, 0)], op: None, e: mk_vec2(&mut t) }),
                    1 => {
                        let i = idx(&mut t, nb, false);
                        main.push(Stmt::PathSet { root: 1, path: vec![Step::Index(Box::new(i))], op: None, e: mk_body(&mut t) })
                    }
                    2 => {
                        let i = idx(&mut t, 2, false);
                        main.push(Stmt::PathSet { root: 2, path: vec![Step::Index(Box::new(i))], op: None, e: mk_list(&mut t, 3) })
                    }
                    _ => {
                        let i = idx(&mut t, nb, false);
                        main.push(Stmt::PathSet { root: 1, path: vec![Step::Index(Box::new(i)), Step::Field(1, 0)], op: None, e: mk_vec2(&mut t) })
                    }
                }
            }
            6 | 7 => {
                let (root, path) = leaf(&mut t);
                main.push(Stmt::Print(Expr::Path(root, path)));
            }
            _ => {
                // a loop writing through an index variable
                tags.insert("lvalue_in_loop");
                let var = 10 + t.below(3) as u32;
                let body = vec![Stmt::PathSet {
                    root: 2,
                    path: vec![Step::Index(Box::new(Expr::Var(var))), Step::Index(Box::new(Expr::Int(t.below(3) as i64)))],
                    op: Some(BinOp::Add),
                    e: Expr::Var(var),
                }];
                main.push(Stmt::ForRange { var, args: vec![Expr::Int(2)], body });
            }
        }
    }
    // observe every leaf
    for f in 0..2 {
        main.push(Stmt::Print(Expr::Path(0, vec![Step::Field(1, 0), Step::Field(0, f)])));
    }
    main.push(Stmt::Print(Expr::Path(0, vec![Step::Field(1, 1)])));
    for j in 0..3 {
        main.push(Stmt::Print(Expr::Path(0, vec![Step::Field(1, 2), Step::Index(Box::new(Expr::Int(j)))])));
    }
    for i in 0..nb as i64 {
        main.push(Stmt::Print(Expr::Path(1, vec![Step::Index(Box::new(Expr::Int(i))), Step::Field(1, 1)])));
        main.push(Stmt::Print(Expr::Path(1, vec![Step::Index(Box::new(Expr::Int(i))), Step::Field(1, 0), Step::Field(0, 0)])));
        main.push(Stmt::Print(Expr::Path(1, vec![Step::Index(Box::new(Expr::Int(i))), Step::Field(1, 0), Step::Field(0, 1)])));
        for j in 0..3 {
            main.push(Stmt::Print(Expr::Path(1, vec![Step::Index(Box::new(Expr::Int(i))), Step::Field(1, 2), Step::Index(Box::new(Expr::Int(j)))])));
        }
    }
    for i in 0..2 {
        for j in 0..3 {
            main.push(Stmt::Print(Expr::Path(2, vec![Step::Index(Box::new(Expr::Int(i))), Step::Index(Box::new(Expr::Int(j)))])));
        }
    }
    for j in 0..3 {
        main.push(Stmt::Print(Expr::Path(3, vec![Step::Index(Box::new(Expr::Int(j)))])));
    }
    let mut prog = Program { enums: vec![], models: vec![vec2, body], fns: vec![], main, tags };
    if !cfg.sw.field_list_neg_index {
        // reads of `obj.field[-k]` are rewritten to the equivalent non-negative index (lists here have length 3)
        fn fix_expr(e: &mut Expr) {
            if let Expr::Path(_, steps) = e {
                let mut after_field = false;
                for st in steps.iter_mut() {
                    match st {
                        Step::Field(..) => after_field = true,
                        Step::Index(i) => {
                            if after_field {
                                if let Expr::Int(k) = **i {
                                    if k < 0 {
                                        **i = Expr::Int(k + 3);
                                    }
                                }
                            }
                            after_field = false;
                        }
                    }
                }
            }
            if let Expr::Bin(_, l, r) = e {
                fix_expr(l);
                fix_expr(r);
            }
        }
        fn fix_stmts(ss: &mut [Stmt]) {
            for s in ss {
                match s {
                    Stmt::Print(e) => fix_expr(e),
                    Stmt::PathSet { e, op, path, .. } => {
                        fix_expr(e);
                        // a compound assignment reads its own target
                        if op.is_some() {
                            let mut tmp = Expr::Path(0, path.clone());
                            fix_expr(&mut tmp);
                            if let Expr::Path(_, p2) = tmp {
                                *path = p2;
                            }
                        }
                    }
                    Stmt::ForRange { body, .. } => fix_stmts(body),
                    _ => {}
                }
            }
        }
        fix_stmts(&mut prog.main);
    }
    prog
}
