//! Exit protocol: 0 held (KNOWN-FINDING lines allowed), 1 VIOLATION, 2 INCONCLUSIVE.

use crate::evidence::Evidence;
use crate::known::Known;
use std::collections::BTreeSet;
use std::path::PathBuf;

pub struct Outcome {
    pub prop: String,
    pub known: Known,
    pub violations: Vec<(String, PathBuf)>,
    pub inconclusive: Vec<String>,
    reported_known: BTreeSet<String>,
    reported_keys: BTreeSet<String>,
    /// at most this many distinct violation signatures are written out per run
    pub max_reports: usize,
}

impl Outcome {
    pub fn new(prop: &str) -> Outcome {
        Outcome {
            prop: prop.to_string(),
            known: Known::load(prop),
            violations: Vec::new(),
            inconclusive: Vec::new(),
            reported_known: BTreeSet::new(),
            reported_keys: BTreeSet::new(),
            max_reports: 5,
        }
    }

    /// A canonical known-finding input was replayed. `still_fails` = it fails with the recorded signature.
    pub fn known_replayed(&mut self, key: &str, still_fails: bool) {
        if let Some(e) = self.known.get(key) {
            if still_fails {
                if self.reported_known.insert(key.to_string()) {
                    println!("KNOWN-FINDING: property={} key={} {}", self.prop, key, e.text);
                }
            } else {
                println!(
                    "note: property={} known finding key={} no longer reproduces on this tree",
                    self.prop, key
                );
            }
        }
    }

    /// Has this signature already been reported in this run (used to stop shrinking duplicates)?
    pub fn seen(&self, key: &str) -> bool {
        self.reported_keys.contains(key)
    }

    /// Report a violation with signature `key`. Writes the replay file (`ext` without dot) and prints
    /// the VIOLATION line. A signature listed as an open known finding is never reported here: checks
    /// must exclude known constructs by construction; fuzz-style checks call `is_known` first.
    pub fn violation(&mut self, ev: &mut Evidence, key: &str, ext: &str, replay_body: &str, what: &str) -> Option<PathBuf> {
        ev.violations += 1;
        if !self.reported_keys.insert(key.to_string()) {
            return None;
        }
        if self.violations.len() >= self.max_reports {
            return None;
        }
        let dir = crate::verif_root().join("replay").join(&self.prop);
        let _ = std::fs::create_dir_all(&dir);
        let h = crate::util::hash_str(&format!("{key}\n{replay_body}"));
        let path = dir.join(format!("{:016x}.{}", h, ext));
        let _ = std::fs::write(&path, replay_body);
        println!("VIOLATION property={} replay={}", self.prop, path.display());
        println!("  signature: {key}");
        for l in what.lines().take(90) {
            println!("  | {l}");
        }
        self.violations.push((key.to_string(), path.clone()));
        Some(path)
    }

    pub fn is_known(&self, key: &str) -> bool {
        self.known.has(key)
    }

    pub fn inconclusive(&mut self, why: &str) {
        println!("INCONCLUSIVE: property={} {}", self.prop, why);
        self.inconclusive.push(why.to_string());
    }

    /// Write evidence and compute the exit code.
    pub fn finish(self, ev: &Evidence) -> i32 {
        ev.write();
        let code = if !self.violations.is_empty() {
            1
        } else if !self.inconclusive.is_empty() {
            2
        } else {
            0
        };
        println!(
            "{} {}: evaluations={} distinct_nontrivial={} violations={} exit={}",
            self.prop,
            ev.tier,
            ev.evaluations,
            ev.nontrivial_count(),
            ev.violations,
            code
        );
        code
    }
}
