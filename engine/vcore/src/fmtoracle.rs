//! Round-trip oracle for the formatter, shared by C08 (meaning preserved) and C09 (idempotence; needs to know which
//! cases are C08's), plus the table that ties each recorded formatter finding to (a) the G-syn feature switch that
//! avoids it, (b) the AST predicate (a `gsyn::ast_tags` tag) that says a seed file contains the construct and
//! (c) the failure shapes it explains.

use crate::astcanon;
use crate::gsyn::{self, Tag};
use crate::known::Known;
use incan_syntax::ast::Program;
use std::collections::BTreeSet;

#[derive(Clone, Debug)]
pub struct Failure {
    /// automatic root-cause shaped signature: `diff:<node path>:<a>-><b>` | `reparse:<msg>@<line head>` |
    /// `relex:<msg>` | `fmt-panic:<msg>` | `fmt-error`
    pub sig: String,
    pub detail: String,
    pub formatted: Option<String>,
}

pub enum RoundTrip {
    /// the input does not lex/parse: outside the property's domain
    NotParsed(String),
    Ok { a1: Program, formatted: String },
    Fail { a1: Program, failure: Failure },
}

fn mask_keep_ws(s: &str) -> String {
    let mut out = String::new();
    let mut chars = s.chars().peekable();
    while let Some(c) = chars.next() {
        if c == '"' {
            let mut prev = c;
            for d in chars.by_ref() {
                if d == '"' && prev != '\\' {
                    break;
                }
                prev = if prev == '\\' && d == '\\' { ' ' } else { d };
            }
            out.push('S');
        } else if c.is_ascii_digit() {
            while chars.peek().is_some_and(|d| d.is_ascii_digit() || *d == '.') {
                chars.next();
            }
            out.push('N');
        } else {
            out.push(c);
        }
    }
    out
}

#[allow(dead_code)]
fn line_head(text: &str, offset: usize) -> String {
    let mut o = offset.min(text.len());
    while !text.is_char_boundary(o) {
        o -= 1;
    }
    let start = text[..o].rfind('\n').map(|i| i + 1).unwrap_or(0);
    let line = text[start..].lines().next().unwrap_or("").trim_start();
    let word: String = line.chars().take_while(|c| c.is_ascii_alphanumeric() || *c == '_' || *c == '@').collect();
    if word.starts_with('@') {
        "@".to_string()
    } else if incan_core::lang::keywords::from_str(&word).is_some() {
        word
    } else {
        "_".to_string()
    }
}

/// Lex + parse, returning the first error as (message, span start).
pub fn parse_with_pos(src: &str) -> Result<Program, (String, String, usize)> {
    let tokens = match incan_syntax::lexer::lex(src) {
        Ok(t) => t,
        Err(errs) => {
            let e = &errs[0];
            return Err(("relex".into(), e.message.clone(), e.span.start));
        }
    };
    match incan_syntax::parser::parse(&tokens) {
        Ok(p) => Ok(p),
        Err(errs) => {
            let e = &errs[0];
            Err(("reparse".into(), e.message.clone(), e.span.start))
        }
    }
}

/// parse(x) = A1 => format_source(x) = Ok(y), parse(y) = A2, canon(A1) == canon(A2).
pub fn roundtrip(x: &str) -> RoundTrip {
    roundtrip_with(x, None)
}

/// Formatter configurations exercised besides the default (index 0 = default): indent width 2/4/8, line length
/// 40/88/200, all quote styles.
pub fn config(i: usize) -> Option<incan::FormatConfig> {
    use incan::format::QuoteStyle;
    let c = incan::FormatConfig::default();
    match i % 6 {
        0 => None,
        1 => Some(c.with_indent_width(2).with_line_length(40).with_quote_style(QuoteStyle::Single)),
        2 => Some(c.with_indent_width(8).with_line_length(88)),
        3 => Some(c.with_indent_width(4).with_line_length(200).with_quote_style(QuoteStyle::Preserve)),
        4 => Some(c.with_indent_width(8).with_line_length(40).with_quote_style(QuoteStyle::Single)),
        _ => Some(c.with_indent_width(2).with_line_length(200)),
    }
}

pub fn format_with(x: &str, cfg: Option<&incan::FormatConfig>) -> Result<String, incan::format::FormatError> {
    match cfg {
        None => incan::format_source(x),
        Some(c) => incan::format_source_with_config(x, c.clone()),
    }
}

/// Same oracle through `format_source_with_config` when `cfg` is given.
pub fn roundtrip_with(x: &str, cfg: Option<&incan::FormatConfig>) -> RoundTrip {
    let a1 = match crate::util::catch(|| parse_with_pos(x)) {
        Ok(Ok(p)) => p,
        Ok(Err((stage, msg, _))) => return RoundTrip::NotParsed(format!("{stage}: {msg}")),
        Err(p) => return RoundTrip::NotParsed(format!("front end panicked: {p}")),
    };
    let y = match crate::util::catch(|| format_with(x, cfg)) {
        Ok(Ok(y)) => y,
        Ok(Err(e)) => {
            return RoundTrip::Fail { a1, failure: Failure { sig: "fmt-error".into(), detail: format!("format_source returned Err on a parseable input: {e}"), formatted: None } }
        }
        Err(p) => {
            let sig = format!("fmt-panic:{}", mask_keep_ws(crate::util::panic_text(&p)));
            return RoundTrip::Fail { a1, failure: Failure { sig, detail: format!("format_source panicked: {p}"), formatted: None } };
        }
    };
    let a2 = match crate::util::catch(|| parse_with_pos(&y)) {
        Ok(Ok(p)) => p,
        Ok(Err((stage, msg, pos))) => {
            let sig = format!("{stage}:{}", mask_keep_ws(&msg));
            let line_no = y[..pos.min(y.len())].matches('\n').count() + 1;
            return RoundTrip::Fail { a1, failure: Failure { sig, detail: format!("formatted text does not parse: {msg} (line {line_no})"), formatted: Some(y) } };
        }
        Err(p) => {
            return RoundTrip::Fail { a1, failure: Failure { sig: "reparse-panic".into(), detail: format!("front end panicked on formatted text: {p}"), formatted: Some(y) } }
        }
    };
    let c1 = astcanon::canon_compact(&a1);
    let c2 = astcanon::canon_compact(&a2);
    match astcanon::first_diff_compact(&c1, &c2) {
        None => RoundTrip::Ok { a1, formatted: y },
        Some(d) => {
            let detail = format!("AST changed at {}:\n  before: {}\n  after:  {}", d.path, d.left, d.right);
            RoundTrip::Fail { a1, failure: Failure { sig: d.signature(), detail, formatted: Some(y) } }
        }
    }
}

/// A recorded formatter finding.
pub struct KnownDef {
    /// signature in known-findings.txt (property C08)
    pub key: &'static str,
    /// G-syn switch == ast tag of the construct
    pub switch: Tag,
    /// the finding explains a failure whose automatic signature contains any of these
    pub sig_any: &'static [&'static str],
}

/// Table of formatter findings (root cause -> construct -> failure shapes). An entry is *active* only while
/// known-findings.txt lists its key as `open:` for C08; remove the line there and the construct is generated again.
pub const FMT_KNOWN: &[KnownDef] = &[
    KnownDef { key: "printer:param-mut-dropped", switch: "param.mut=1", sig_any: &["Param.is_mut:true->false"] },
    KnownDef { key: "printer:fn-type-params-dropped", switch: "fn.type_params=1", sig_any: &["FunctionDecl.type_params:"] },
    KnownDef { key: "printer:newtype-body-no-colon", switch: "newtype.methods=1", sig_any: &["reparse:Expected declaration, found Indent"] },
    KnownDef { key: "printer:float-integral", switch: "lit.float.integral", sig_any: &["Float(->Int(", "relex:Invalid integer literal"] },
    // `name=Type` re-parses as a value argument; function/tuple/unit types do not parse as expressions at all
    KnownDef { key: "printer:decorator-named-type-arg", switch: "decorator.arg.named_type", sig_any: &["Named:Type(->Expr(", "reparse:Expected ')' after decorator arguments", "reparse:Expected expression, found"] },
    KnownDef { key: "printer:qualified-pattern", switch: "pattern.qualified", sig_any: &["pattern, found Punctuation(ColonColon)"] },
    KnownDef { key: "printer:closure-param-type", switch: "closure.params=1", sig_any: &["reparse:Expected ')', found Punctuation(Colon)"] },
    KnownDef { key: "printer:guard-arrow-form", switch: "arm.guard=1", sig_any: &["reparse:Expected '=>' after pattern, found Keyword(If)"] },
    // raw text between the quotes: once a quote/brace/newline leaks, anything can follow
    KnownDef { key: "printer:fstring-literal-unescaped", switch: "fstring.literal_special", sig_any: &["FString", "relex:", "reparse:"] },
    KnownDef { key: "printer:bytes-unescaped", switch: "lit.bytes.special", sig_any: &["Bytes", "relex:", "reparse:"] },
    KnownDef { key: "printer:if-expr", switch: "expr.if", sig_any: &["reparse:", "relex:", "If("] },
    KnownDef { key: "printer:slice-step-no-end", switch: "slice.step_no_end", sig_any: &["reparse:Expected expression, found Punctuation(ColonColon)"] },
    KnownDef { key: "printer:ctor-pattern-empty-parens", switch: "pattern.ctor.args=0", sig_any: &["pattern:Constructor(->Binding("] },
    KnownDef { key: "printer:compound-target-precedence", switch: "assign.compound_target", sig_any: &["FieldAssignmentStmt.value", "IndexAssignmentStmt.value"] },
    KnownDef { key: "printer:docstring-unescaped", switch: "docstring.special", sig_any: &["declarations.Docstring:", "relex:", "reparse:"] },
    KnownDef { key: "printer:import-crate-bare", switch: "import.path.crate_bare", sig_any: &["reparse:Expected '::' or '.' after 'crate'"] },
    // the parser keeps reading postfix operators after the DEDENT of a block expression; fmt spells every arm `P => ..`
    KnownDef { key: "printer:paren-arm-after-block-arm", switch: "shape.paren_arm_after_block_arm", sig_any: &["reparse:Expected pattern, found Punctuation(FatArrow)", "reparse:"] },
    KnownDef { key: "printer:python-import-unescaped", switch: "import.python.special", sig_any: &["Python", "relex:", "reparse:"] },
];

/// Entries currently listed as open findings.
pub fn active(known: &Known) -> Vec<&'static KnownDef> {
    FMT_KNOWN.iter().filter(|d| known.has(d.key)).collect()
}

/// Which active finding (if any) explains `failure` on an input whose AST has `tags`?
pub fn attribute(failure: &Failure, tags: &BTreeSet<Tag>, active: &[&'static KnownDef]) -> Option<&'static KnownDef> {
    active.iter().copied().find(|d| tags.contains(d.switch) && d.sig_any.iter().any(|s| failure.sig.contains(s)))
}

/// G-syn configuration with the constructs of all active findings switched off.
pub fn gsyn_config(active: &[&'static KnownDef]) -> gsyn::GsynConfig {
    let mut cfg = gsyn::GsynConfig::default();
    for d in active {
        cfg.off.insert(d.switch);
    }
    cfg
}

/// Does the AST contain a construct of an active finding?
pub fn known_constructs(tags: &BTreeSet<Tag>, active: &[&'static KnownDef]) -> Vec<&'static KnownDef> {
    active.iter().copied().filter(|d| tags.contains(d.switch)).collect()
}
