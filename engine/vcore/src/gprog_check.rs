//! C01 / C02 check driver over G-prog programs.
//!
//! C01: accepted + built programs must behave as R-interp says (a build failure is C02's, counted as blocked).
//! C02: every program `incan --check` accepts must build (a behavioural mismatch is C01's, counted only).

use crate::farm::{Farm, Mode, Project};
use crate::gprog::*;
use crate::gprog_run::*;
use crate::{util, Args, Evidence, Outcome};
use proptest::strategy::ValueTree;
use serde_json::json;

const INTERESTING: &[&str] = &[
    "int_addsub", "int_mul", "int_floordiv", "int_mod", "true_div", "float_addsub", "float_mul", "float_mod", "float_floordiv", "cmp_mixed",
    "if", "elif", "while", "for_range", "for_list_int", "break", "continue", "reassign", "aug_assign", "shadow", "list_append", "list_set_index",
    "list_index", "list_slice", "str_index", "str_slice", "str_upper", "str_replace", "fstring", "comprehension", "match_enum", "match_option",
    "match_result", "try_operator", "operator_matrix", "scope_matrix", "lvalue_paths", "method_call", "mut_method_call", "field_set", "dict_get", "dict_set", "call",
];

fn nontrivial(c: &Case) -> bool {
    let prints = match &c.expected {
        Ok(e) => e.lines.len(),
        Err(_) => 0,
    };
    prints >= 3 && c.program.tags.iter().any(|t| INTERESTING.contains(t))
}

fn is_violation(prop: &str, v: &Verdict) -> Option<(String, String)> {
    match (prop, v) {
        ("C01", Verdict::Mismatch(k, d)) => Some((format!("behaviour:{k}"), d.clone())),
        ("C02", Verdict::BuildFailed(s, d)) => Some((s.clone(), d.clone())),
        _ => None,
    }
}

pub fn main(prop: &'static str) {
    let args = Args::parse(prop);
    let mut out = Outcome::new(prop);
    let rule = if prop == "C01" {
        "G-prog: type-directed generator of well-typed programs over the documented core (choice tape from proptest); each is checked, \
         built and run by the real CLI and compared token-wise with an independent reference interpreter (stdout tokens, exit status, \
         documented error text). Non-trivial = prints >= 3 values and contains arithmetic of mixed precedence, a data-dependent branch/loop, \
         mutation, a collection/string operation, a call or a match; distinct = source hash."
    } else {
        "G-prog programs (type-directed, wide construct set) accepted by `incan --check` must pass `incan build` (code generation + rustc). \
         Non-trivial = accepted by the checker, prints >= 3 values and uses at least one non-basic construct; distinct = source hash. \
         Failures are keyed by normalised first error (codegen:/rustc:<code>:<message>)."
    };
    let mut ev = Evidence::new(&args, rule);
    ev.assume("reference interpreter transcribes the documented semantics (numeric_semantics.md, strings.md, scopes_and_name_resolution.md)");
    ev.assume("float/bool output text is not pinned by the docs: floats are compared by value, bools case-insensitively");

    let (sw, off) = switches_from_known(&["C01", "C02", "C13"]);
    let mut cfg = Cfg::default();
    cfg.sw = sw;
    for (p, name) in &off {
        ev.set(&format!("switch_off:{name}"), json!(format!("open known finding of {p}")));
    }
    let names = Names::default();
    let farm = Farm::new(&prop.to_lowercase());

    // ---- replay of one saved input
    if let Some(path) = &args.replay {
        let text = std::fs::read_to_string(path).unwrap_or_default();
        if let Some(rel) = serde_json::from_str::<serde_json::Value>(&text).ok().and_then(|v| v["seed_path"].as_str().map(|s| s.to_string())) {
            let f = crate::repo_root().join(&rel);
            let src = std::fs::read_to_string(&f).unwrap_or_default();
            let name = f.file_stem().map(|s| s.to_string_lossy().to_string()).unwrap_or("seed".into());
            let o = farm.run_one(&Project::single(&name, &src), Mode::CheckBuild);
            ev.case(Some(util::hash_str(&rel)));
            ev.nontrivial(1);
            if o.check.as_ref().is_some_and(|c| c.ok()) && !o.build.as_ref().is_some_and(|b| b.ok()) {
                let (sig, d) = o.build.as_ref().map(build_signature).unwrap_or_default();
                out.violation(&mut ev, &format!("seed:{rel}"), "json", &text, &format!("{sig}\n{d}"));
            } else {
                println!("replay: seed {rel} builds (or is rejected by the checker)");
            }
            std::process::exit(out.finish(&ev));
        }
        let Some(rp) = parse_replay(&text) else {
            out.inconclusive("replay file is not a C01/C02 replay JSON");
            std::process::exit(out.finish(&ev));
        };
        let o = farm.run_one(&Project::single("replay", &rp.source), Mode::CheckBuildRun);
        let exp: Result<Expected, Discard> = rp.expected.clone().ok_or(Discard::Internal("no expectation".into()));
        let v = classify(&exp, &o);
        ev.case(Some(util::hash_str(&rp.source)));
        ev.nontrivial(1);
        ev.sample(json!({"source": rp.source, "verdict": format!("{v:?}")}));
        if let Some((k, d)) = is_violation(prop, &v) {
            out.violation(&mut ev, &k, "json", &text, &d);
        } else {
            println!("replay verdict: {v:?}");
        }
        std::process::exit(out.finish(&ev));
    }

    // ---- canonical inputs of open known findings
    for e in out.known.open.clone() {
        if e.key.starts_with("seed:") {
            continue; // judged in the corpus leg below
        }
        let text = std::fs::read_to_string(&e.replay).unwrap_or_default();
        if let Some(rp) = parse_replay(&text) {
            let o = farm.run_one(&Project::single("known", &rp.source), Mode::CheckBuildRun);
            let exp: Result<Expected, Discard> = rp.expected.clone().ok_or(Discard::Internal("no expectation".into()));
            let v = classify(&exp, &o);
            let still = is_violation(prop, &v).is_some();
            if !still {
                println!("note: known finding {} verdict now {:?}", e.key, v);
            }
            out.known_replayed(&e.key, still);
        } else {
            println!("note: known finding {} has no readable replay file {}", e.key, e.replay.display());
        }
    }

    // ---- regression corpus: canonical inputs of *fixed* findings must keep passing
    let fixed_dir = crate::verif_root().join("known").join(prop).join("fixed");
    if let Ok(rd) = std::fs::read_dir(&fixed_dir) {
        let mut files: Vec<_> = rd.flatten().map(|e| e.path()).filter(|p| p.extension().is_some_and(|e| e == "json")).collect();
        files.sort();
        for f in files {
            let text = std::fs::read_to_string(&f).unwrap_or_default();
            if let Some(rp) = parse_replay(&text) {
                let o = farm.run_one(&Project::single("regress", &rp.source), Mode::CheckBuildRun);
                let exp: Result<Expected, Discard> = rp.expected.clone().ok_or(Discard::Internal("no expectation".into()));
                let v = classify(&exp, &o);
                ev.case(Some(util::hash_str(&rp.source)));
                ev.class("regression_corpus");
                if let Some((k, d)) = is_violation(prop, &v) {
                    let name = f.file_stem().map(|s| s.to_string_lossy().to_string()).unwrap_or_default();
                    out.violation(&mut ev, &format!("regression:{name}:{k}"), "json", &text, &format!("a fixed finding is back\n{d}"));
                }
            }
        }
    }

    // ---- C02 corpus leg: every repository program (a file with `def main`) that `incan --check` accepts must build.
    // Failing seeds are known findings keyed by path (`seed:<relative path>`); a seed that stops building is reported.
    if prop == "C02" && std::env::var("VERIF_NO_SEEDS").is_err() {
        let root = crate::repo_root();
        let thorough = args.tier == crate::Tier::Thorough;
        let mut seeds: Vec<(String, Project)> = Vec::new();
        for f in util::repo_seed_files() {
            let Ok(text) = std::fs::read_to_string(&f) else { continue };
            if !text.lines().any(|l| l.starts_with("def main(") || l.starts_with("async def main(")) {
                continue;
            }
            let heavy = ["async ", "rust::", "@route", "import web", "from web"].iter().any(|k| text.contains(k));
            if heavy && !thorough {
                ev.discard("seed_needs_unwarmed_crates(quick)");
                continue;
            }
            let rel = f.strip_prefix(&root).unwrap_or(&f).to_string_lossy().to_string();
            let parent = f.parent().unwrap_or(&root).to_path_buf();
            // the project is the seed's directory (so sibling modules resolve), bounded in size
            let mut files: Vec<(String, String)> = Vec::new();
            fn walk(base: &std::path::Path, dir: &std::path::Path, out: &mut Vec<(String, String)>) {
                let Ok(rd) = std::fs::read_dir(dir) else { return };
                let mut es: Vec<_> = rd.flatten().map(|e| e.path()).collect();
                es.sort();
                for p in es {
                    if out.len() > 60 {
                        return;
                    }
                    if p.is_dir() {
                        if p.file_name().is_some_and(|n| n == "target" || n == "snapshots") {
                            continue;
                        }
                        walk(base, &p, out);
                    } else if p.extension().is_some_and(|e| e == "incn" || e == "incan") {
                        if let Ok(s) = std::fs::read_to_string(&p) {
                            out.push((p.strip_prefix(base).unwrap_or(&p).to_string_lossy().to_string(), s));
                        }
                    }
                }
            }
            walk(&parent, &parent, &mut files);
            let entry = f.file_name().unwrap().to_string_lossy().to_string();
            let name = f.file_stem().unwrap().to_string_lossy().to_string();
            seeds.push((rel, Project { name, files, entry, run_args: vec![] }));
        }
        let projects: Vec<Project> = seeds.iter().map(|s| s.1.clone()).collect();
        let outs = farm.run_many(&projects, Mode::CheckBuild);
        let list = std::env::var("VERIF_C02_LIST_SEEDS").is_ok();
        for ((rel, _), o) in seeds.iter().zip(outs.iter()) {
            let key = format!("seed:{rel}");
            if let Some(e) = &o.infra_error {
                out.inconclusive(&format!("{key}: {e}"));
                continue;
            }
            let accepted = o.check.as_ref().is_some_and(|c| c.ok());
            if !accepted {
                ev.discard("seed_rejected_by_checker");
                continue;
            }
            ev.case(Some(util::hash_str(rel)));
            ev.class("seed_program");
            match &o.build {
                Some(b) if b.ok() => {
                    if out.is_known(&key) {
                        out.known_replayed(&key, false);
                    }
                }
                Some(b) if b.stderr.contains("no matching package named") || b.stderr.contains("failed to select a version") || b.stderr.contains("failed to download") => {
                    // the sandbox is offline: a crate that is not in the local registry cache is not a verdict
                    ev.discard("seed_needs_crate_missing_from_offline_cache");
                }
                Some(b) => {
                    let (sig, detail) = build_signature(b);
                    if list {
                        println!("SEED-FAIL\t{rel}\t{sig}");
                    }
                    if out.is_known(&key) {
                        out.known_replayed(&key, true);
                        ev.exclude(&key);
                    } else {
                        let body = serde_json::to_string_pretty(&json!({"seed_path": rel, "signature": sig})).unwrap();
                        out.violation(&mut ev, &key, "json", &body, &format!("repository program {rel} is accepted by `incan --check` but does not build: {sig}\n{detail}"));
                    }
                }
                None => {}
            }
        }
    }

    // ---- C02 manifest leg: feature-trigger x `rust::` import templates. The generated Cargo project must at least
    // be a valid manifest (`cargo metadata --offline --no-deps`), a necessary condition for "the project compiles".
    if prop == "C02" && std::env::var("VERIF_NO_SEEDS").is_err() {
        let features: [(&str, &str, &str); 4] = [
            ("plain", "", "def main() -> None:\n    println(1)\n"),
            ("serde", "@derive(Serialize, Deserialize, Debug, Clone)\nmodel P:\n    x: int\n    y: str\n\n", "def main() -> None:\n    p = P(x=1, y=\"a\")\n    println(json_stringify(p))\n"),
            ("async", "async def compute(n: int) -> int:\n    return n * 2\n\n", "async def main() -> None:\n    v = await compute(21)\n    println(v)\n"),
            ("serde+async", "@derive(Serialize, Deserialize, Debug, Clone)\nmodel P:\n    x: int\n\nasync def compute(n: int) -> int:\n    return n * 2\n\n", "async def main() -> None:\n    v = await compute(21)\n    p = P(x=v)\n    println(json_stringify(p))\n"),
        ];
        let imports: [(&str, &str); 8] = [
            ("none", ""),
            ("tokio-from", "from rust::tokio::sync import Notify\n"),
            ("tokio-crate", "import rust::tokio\n"),
            ("serde_json-from", "from rust::serde_json import from_str as json_parse\n"),
            ("serde-from", "from rust::serde import Serialize as SerTrait\n"),
            ("rand-from", "from rust::rand import Rng, thread_rng\n"),
            ("regex+uuid", "from rust::regex import Regex\nfrom rust::uuid import Uuid\n"),
            ("tokio+serde_json+rand", "from rust::tokio::sync import Notify\nfrom rust::serde_json import from_str as json_parse\nfrom rust::rand import Rng\n"),
        ];
        let mut templ: Vec<(String, Project)> = Vec::new();
        for (fname, decls, main) in features.iter() {
            for (iname, imp) in imports.iter() {
                let src = format!("{imp}\n{decls}{main}");
                templ.push((format!("{fname}/{iname}"), Project::single("tmpl", &src)));
            }
        }
        let projects: Vec<Project> = templ.iter().map(|t| t.1.clone()).collect();
        let checks = farm.run_many(&projects, Mode::Check);
        let gens = farm.run_many(&projects, Mode::Generate);
        let jobs: Vec<(usize, std::path::PathBuf)> = gens
            .iter()
            .enumerate()
            .filter(|(i, g)| checks[*i].check.as_ref().is_some_and(|c| c.ok()) && g.build.as_ref().is_some_and(|b| b.ok()))
            .map(|(i, g)| {
                let d = farm.case_dir();
                for (rel, text) in &g.generated {
                    let p = d.join(rel);
                    if let Some(par) = p.parent() {
                        let _ = std::fs::create_dir_all(par);
                    }
                    let _ = std::fs::write(p, text);
                }
                (i, d)
            })
            .collect();
        let metas = farm.par_map(&jobs, |(_, d)| {
            let mut c = std::process::Command::new("cargo");
            c.args(["metadata", "--offline", "--no-deps", "--format-version", "1", "--manifest-path"]).arg(d.join("Cargo.toml")).env("CARGO_NET_OFFLINE", "true");
            let r = crate::farm::run_cmd(c, std::time::Duration::from_secs(300));
            let _ = std::fs::remove_dir_all(d);
            r
        });
        for (i, (name, _)) in templ.iter().enumerate() {
            if !checks[i].check.as_ref().is_some_and(|c| c.ok()) {
                ev.discard("template_rejected_by_checker");
                continue;
            }
            ev.case(Some(util::hash_str(name)));
            ev.class("manifest_template");
            if !gens[i].build.as_ref().is_some_and(|b| b.ok()) {
                let (sig, d) = gens[i].build.as_ref().map(build_signature).unwrap_or_default();
                let key = format!("template:{name}:{sig}");
                if !out.is_known(&key) {
                    let body = replay_json(&templ[i].1.files[0].1, None, &key);
                    out.violation(&mut ev, &key, "json", &body, &format!("accepted by --check but project generation failed\n{d}"));
                }
                continue;
            }
            if let Some(pos) = jobs.iter().position(|(j, _)| *j == i) {
                let m = &metas[pos];
                if m.timed_out {
                    out.inconclusive("cargo metadata watchdog");
                } else if m.status != Some(0) {
                    let first = strip_ansi(&m.stderr).lines().find(|l| l.contains("error")).unwrap_or("").to_string();
                    let key = format!("template:{name}:manifest-invalid");
                    if !out.is_known(&key) {
                        let cargo_toml = gens[i].generated.iter().find(|(r, _)| r == "Cargo.toml").map(|(_, t)| t.clone()).unwrap_or_default();
                        let body = replay_json(&templ[i].1.files[0].1, None, &key);
                        out.violation(&mut ev, &key, "json", &body, &format!("the generated Cargo.toml is rejected by cargo: {first}\n{}\n--- Cargo.toml ---\n{cargo_toml}", util::truncate(&strip_ansi(&m.stderr), 600)));
                    }
                }
            }
        }
    }

    // ---- generated programs
    let n: usize = std::env::var("VERIF_N").ok().and_then(|s| s.parse().ok()).unwrap_or(args.tier.pick(300usize, 6000usize));
    if let Ok(off_list) = std::env::var("VERIF_SW_OFF") {
        for name in off_list.split(',') {
            cfg.sw.set(name.trim(), false);
        }
    }
    if let Ok(v) = std::env::var("VERIF_MAX_STMTS") {
        cfg.max_stmts = v.parse().unwrap_or(cfg.max_stmts);
    }
    if let Ok(v) = std::env::var("VERIF_MAX_FNS") {
        cfg.max_fns = v.parse().unwrap_or(cfg.max_fns);
    }
    let strat = proptest::collection::vec(proptest::num::u32::ANY, 60..700);
    let mut runner = crate::gen::runner(args.subseed(if prop == "C01" { 101 } else { 102 }));
    let mut trees = crate::gen::batch(&strat, &mut runner, n);
    let mut cases: Vec<Case> = trees.iter().map(|t| make_case(t.current(), &cfg, &names)).collect();
    // directed sweeps (C01): operator-nesting matrix and scope matrix, appended after the random cases
    let n_random = cases.len();
    let mut directed_labels: Vec<Vec<String>> = Vec::new();
    if prop == "C01" {
        let (ops, excluded, dropped) = crate::gprog_matrix::operator_programs(&cfg.sw, 120);
        ev.set("operator_matrix_probes", json!(ops.iter().map(|(_, l)| l.len()).sum::<usize>()));
        ev.set("operator_matrix_excluded_by_known_findings", json!(excluded));
        ev.set("operator_matrix_dropped_out_of_domain", json!(dropped));
        let scopes = crate::gprog_matrix::scope_programs(&cfg.sw);
        ev.set("scope_matrix_cells", json!(scopes.iter().map(|(_, l)| l.len()).sum::<usize>()));
        for (program, labels) in ops.into_iter().chain(scopes) {
            let source = render(&program, &names);
            let expected = expected(&program);
            cases.push(Case { tape: vec![], program, source, expected });
            directed_labels.push(labels);
        }
    }
    let mut results = run_cases(&farm, &cases, "prog");
    // a watchdog hit under load is not a verdict: re-run such cases alone with a long limit
    let mut solo = Farm::with_workers(&format!("{}-solo", prop.to_lowercase()), 1);
    solo.run_timeout = std::time::Duration::from_secs(300);
    for (i, c) in cases.iter().enumerate() {
        if matches!(&results[i].1, Verdict::Mismatch(k, _) if k == "nontermination") {
            let o = solo.run_one(&Project::single("solo", &c.source), Mode::CheckBuildRun);
            let v = classify(&c.expected, &o);
            results[i] = (o, v);
        }
    }

    if let Ok(dir) = std::env::var("VERIF_DUMP") {
        let _ = std::fs::create_dir_all(&dir);
        let mut idx = String::new();
        for (i, (c, (_o, v))) in cases.iter().zip(results.iter()).enumerate() {
            let (kind, sig) = match v {
                Verdict::Pass => ("pass", String::new()),
                Verdict::Discard(r) => ("discard", r.clone()),
                Verdict::Rejected(m) => ("rejected", m.lines().next().unwrap_or("").to_string()),
                Verdict::BuildFailed(s, _) => ("buildfail", s.clone()),
                Verdict::Mismatch(k, d) => ("mismatch", format!("{k} {d}")),
                Verdict::Infra(m) => ("infra", m.clone()),
            };
            idx.push_str(&format!("{i}\t{kind}\t{}\t{}\n", sig.replace('\n', " "), c.program.tags.iter().cloned().collect::<Vec<_>>().join(",")));
            let detail = match v {
                Verdict::BuildFailed(_, d) | Verdict::Rejected(d) => d.clone(),
                Verdict::Mismatch(_, d) => d.clone(),
                _ => String::new(),
            };
            let _ = std::fs::write(format!("{dir}/{i}.incn"), format!("{}\n# {kind} {sig}\n# {}\n", c.source, detail.replace('\n', "\n# ")));
        }
        let _ = std::fs::write(format!("{dir}/index.tsv"), idx);
    }

    let mut tag_hist: std::collections::BTreeMap<&'static str, u64> = Default::default();
    let mut shrink_budget = 3usize;
    let mut fail_keys: std::collections::BTreeMap<String, u64> = Default::default();
    for (i, (c, (_o, v))) in cases.iter().zip(results.iter()).enumerate() {
        let judged = match v {
            Verdict::Pass => {
                ev.class("pass");
                true
            }
            Verdict::Discard(r) => {
                ev.discard(&format!("interpreter:{}", r.split('(').next().unwrap_or(r)));
                prop == "C02"
            }
            Verdict::Rejected(m) => {
                ev.discard("rejected_by_checker");
                if ev.want_sample() && i % 7 == 0 {
                    ev.sample(json!({"rejected_by_checker": util::truncate(m, 300), "source": util::truncate(&c.source, 600)}));
                }
                false
            }
            Verdict::BuildFailed(s, _) => {
                ev.class(if prop == "C01" { "blocked_by_C02_build_failure" } else { "build_failed" });
                *fail_keys.entry(s.clone()).or_insert(0) += 1;
                prop == "C02"
            }
            Verdict::Mismatch(k, _) => {
                ev.class(if prop == "C02" { "built_but_behaviour_differs(C01)" } else { "mismatch" });
                if prop == "C01" {
                    *fail_keys.entry(k.clone()).or_insert(0) += 1;
                }
                true
            }
            Verdict::Infra(m) => {
                out.inconclusive(&format!("case {i}: {m}"));
                false
            }
        };
        let nt = judged && nontrivial(c);
        ev.case(if nt { Some(util::hash_str(&c.source)) } else { None });
        if judged {
            for t in &c.program.tags {
                *tag_hist.entry(t).or_insert(0) += 1;
            }
        }
        if matches!(v, Verdict::Pass) && ev.want_sample() && i % 37 == 0 {
            ev.sample(json!({"source": c.source, "expected_lines": c.expected.as_ref().map(|e| e.lines.len()).unwrap_or(0), "verdict": "pass"}));
        }
        if let Some((key, detail)) = is_violation(prop, v) {
            if i >= n_random {
                // directed case: name the probe / cell the failing line belongs to
                let labels = &directed_labels[i - n_random];
                let line = detail.split("line ").nth(1).and_then(|r| r.split(':').next()).and_then(|x| x.trim().parse::<usize>().ok());
                let label = line.map(|l| labels[l % labels.len().max(1)].clone()).unwrap_or_default();
                let key = format!("{key}:directed:{}", label.replace(' ', "_"));
                let body = replay_json(&c.source, c.expected.as_ref().ok(), &format!("{key}: {detail}"));
                out.violation(&mut ev, &key, "json", &body, &format!("{detail}\nprobe/cell: {label}\n--- source ---\n{}", util::truncate(&c.source, 3000)));
                continue;
            }
            if out.seen(&key) || shrink_budget == 0 {
                ev.violations += 1;
                continue;
            }
            shrink_budget -= 1;
            // shrink the tape with the same failure signature (bounded: each step is a real build)
            let want = key.clone();
            let small_tape = crate::gen::shrink(&mut trees[i], args.tier.pick(40, 150), |tape: &Vec<u32>| {
                let cc = make_case(tape.clone(), &cfg, &names);
                let o = farm.run_one(&Project::single("shrink", &cc.source), Mode::CheckBuildRun);
                let vv = classify(&cc.expected, &o);
                is_violation(prop, &vv).map(|(k, _)| k == want).unwrap_or(false)
            });
            let sc = make_case(small_tape, &cfg, &names);
            let o = farm.run_one(&Project::single("shrunk", &sc.source), Mode::CheckBuildRun);
            let vv = classify(&sc.expected, &o);
            let (src, exp, det) = match is_violation(prop, &vv) {
                Some((_, d)) => (sc.source.clone(), sc.expected.clone().ok(), d),
                None => (c.source.clone(), c.expected.clone().ok(), detail.clone()),
            };
            let body = replay_json(&src, exp.as_ref(), &format!("{key}: {det}"));
            out.violation(&mut ev, &key, "json", &body, &format!("{det}\n--- source ---\n{src}"));
        }
    }
    ev.set("construct_tags", json!(tag_hist));
    ev.set("failure_signatures", json!(fail_keys));
    ev.set("switches", json!(Switches::names().iter().map(|n| (n.to_string(), cfg.sw.get(n).unwrap_or(true))).collect::<std::collections::BTreeMap<_, _>>()));
    for (_, name) in &off {
        ev.exclude_n(&format!("gprog:{name}"), n as u64);
    }
    std::process::exit(out.finish(&ev));
}
