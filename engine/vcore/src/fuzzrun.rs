//! Driving the cargo-fuzz project in `<verif>/fuzz` from a check binary (thorough tier) and reading its corpora.
//!
//! * `corpus_files(target)` — the committed corpus `<verif>/corpus/<target>/` (seed + saved inputs); the quick tier
//!   replays these *in-process* with the same oracle, so it needs no fuzz build.
//! * `run_target(..)` — builds the libFuzzer target offline (`cargo +nightly fuzz build -O`), copies the corpus to a
//!   fresh scratch directory, runs `-runs=N -seed=$VERIF_SEED -len_control=0` with the token dictionary, and returns
//!   libFuzzer's counters plus every artifact (crash-*/timeout-*/oom-*) it left behind.
//!   Known findings are passed to the target as an allow-list (`VERIF_FUZZ_ALLOW`, comma separated signatures).

use crate::args::Args;
use serde_json::{json, Value};
use std::path::{Path, PathBuf};
use std::process::Command;

pub struct FuzzRun {
    pub stats: Value,
    /// tool trouble (no fuzz project, build failed, ...): never a verdict
    pub infra: Option<String>,
    /// (file name, bytes) of every artifact
    pub artifacts: Vec<(String, Vec<u8>)>,
    /// stderr tail of the fuzzer (signature lines printed by the target before aborting)
    pub log_tail: String,
}

pub fn fuzz_dir() -> PathBuf {
    crate::verif_root().join("fuzz")
}

fn fuzz_target_dir() -> PathBuf {
    match std::env::var("VERIF_FUZZ_TARGET") {
        Ok(d) if !d.is_empty() => PathBuf::from(d),
        _ => fuzz_dir().join("target"),
    }
}

pub fn target_binary(target: &str) -> PathBuf {
    fuzz_target_dir().join("x86_64-unknown-linux-gnu").join("release").join(target)
}

/// All files of `<verif>/corpus/<target>/` (recursively), sorted by path.
pub fn corpus_files(target: &str) -> Vec<(String, Vec<u8>)> {
    fn walk(d: &Path, out: &mut Vec<PathBuf>) {
        let Ok(rd) = std::fs::read_dir(d) else { return };
        let mut es: Vec<PathBuf> = rd.flatten().map(|e| e.path()).collect();
        es.sort();
        for p in es {
            if p.is_dir() {
                walk(&p, out);
            } else {
                out.push(p);
            }
        }
    }
    let dir = crate::verif_root().join("corpus").join(target);
    let mut ps = Vec::new();
    walk(&dir, &mut ps);
    ps.into_iter()
        .filter_map(|p| std::fs::read(&p).ok().map(|b| (p.strip_prefix(&dir).unwrap_or(&p).display().to_string(), b)))
        .collect()
}

fn copy_dir_flat(src: &Path, dst: &Path) -> usize {
    let mut n = 0;
    let _ = std::fs::create_dir_all(dst);
    for (name, bytes) in {
        fn walk(d: &Path, out: &mut Vec<PathBuf>) {
            let Ok(rd) = std::fs::read_dir(d) else { return };
            let mut es: Vec<PathBuf> = rd.flatten().map(|e| e.path()).collect();
            es.sort();
            for p in es {
                if p.is_dir() {
                    walk(&p, out);
                } else {
                    out.push(p);
                }
            }
        }
        let mut ps = Vec::new();
        walk(src, &mut ps);
        ps.into_iter().filter_map(|p| std::fs::read(&p).ok().map(|b| (p, b))).collect::<Vec<_>>()
    } {
        let fname = format!("{:016x}", crate::util::hash_of(&(&bytes, name.display().to_string())));
        if std::fs::write(dst.join(fname), bytes).is_ok() {
            n += 1;
        }
    }
    n
}

/// Build (if needed) and run one libFuzzer target. `runs == 0`: do nothing (quick tier).
pub fn run_target(target: &str, args: &Args, runs: u64, allow: &[String]) -> FuzzRun {
    let mut r = FuzzRun { stats: json!({"runs_requested": runs}), infra: None, artifacts: Vec::new(), log_tail: String::new() };
    if runs == 0 {
        r.stats = json!({"skipped": "libFuzzer campaigns run in the thorough tier only; the saved corpus is replayed in-process"});
        return r;
    }
    let fdir = fuzz_dir();
    if !fdir.join("Cargo.toml").exists() {
        r.infra = Some(format!("no cargo-fuzz project at {}", fdir.display()));
        return r;
    }
    // build (offline; cargo-fuzz rejects --offline, the environment variable does the same)
    let tdir = fuzz_target_dir();
    let mut b = Command::new("cargo");
    b.current_dir(&fdir)
        .args(["+nightly", "fuzz", "build", "--fuzz-dir"])
        .arg(&fdir)
        .args(["-O", "-s", "none", target, "--target-dir"])
        .arg(&tdir)
        .env("CARGO_NET_OFFLINE", "true")
        .env_remove("RUSTFLAGS")
        .env_remove("CARGO_TARGET_DIR");
    let bo = crate::farm::run_cmd(b, std::time::Duration::from_secs(3 * 3600));
    if bo.status != Some(0) {
        r.infra = Some(format!("cargo fuzz build failed: {}", crate::util::truncate(bo.stderr.trim_end().rsplit('\n').take(6).collect::<Vec<_>>().join(" | ").as_str(), 600)));
        return r;
    }
    let bin = target_binary(target);
    if !bin.exists() {
        r.infra = Some(format!("fuzz binary {} missing after build", bin.display()));
        return r;
    }
    // fresh copies of the corpus, one per job; job k runs runs/J executions with its own libFuzzer seed
    let work = crate::verif_root().join("work").join(format!("fuzz-{target}-{}", args.seed));
    let _ = std::fs::remove_dir_all(&work);
    let arts = work.join("artifacts");
    let _ = std::fs::create_dir_all(&arts);
    let dict = fdir.join("dict").join("incan.dict");
    let jobs = std::env::var("VERIF_WORKERS").ok().and_then(|s| s.parse::<u64>().ok()).unwrap_or(8).clamp(1, 8);
    let per_job = runs.div_ceil(jobs);
    let mut n_seed = 0;
    let mut handles = Vec::new();
    for k in 0..jobs {
        let corpus = work.join(format!("corpus{k}"));
        n_seed = copy_dir_flat(&crate::verif_root().join("corpus").join(target), &corpus);
        let mut c = Command::new(&bin);
        c.current_dir(&work)
            .arg(&corpus)
            .arg(format!("-runs={per_job}"))
            .arg(format!("-seed={}", (crate::util::mix(args.seed.wrapping_mul(64).wrapping_add(k)) % 0xffff_fffe) + 1))
            .arg("-len_control=0")
            .arg("-max_len=6000")
            .arg("-timeout=60")
            // the RSS limit is off: on Linux the child's ru_maxrss inherits the parent's high-water mark across
            // vfork+exec, so a large check process makes libFuzzer report a bogus "oom" at its first sample
            .arg("-rss_limit_mb=0")
            .arg("-malloc_limit_mb=3000")
            .arg("-print_final_stats=1")
            .arg(format!("-artifact_prefix={}/job{k}-", arts.display()))
            .env("VERIF_FUZZ_ALLOW", allow.join(","))
            .env("RUST_BACKTRACE", "0")
            .env("VERIF_ROOT", crate::verif_root())
            .env("VERIF_REPO", crate::repo_root());
        if dict.exists() {
            c.arg(format!("-dict={}", dict.display()));
        }
        handles.push(std::thread::spawn(move || crate::farm::run_cmd(c, std::time::Duration::from_secs(6 * 3600))));
    }
    let outs: Vec<crate::farm::CmdOut> = handles.into_iter().filter_map(|h| h.join().ok()).collect();
    let grab = |err: &str, k: &str| -> u64 { err.lines().rev().find_map(|l| l.strip_prefix(k).and_then(|v| v.trim().parse::<u64>().ok())).unwrap_or(0) };
    let field = |err: &str, name: &str| -> u64 {
        err.lines()
            .rev()
            .find_map(|l| {
                let i = l.find(name)?;
                l[i + name.len()..].split_whitespace().next()?.parse::<u64>().ok()
            })
            .unwrap_or(0)
    };
    let mut executed = 0;
    let mut added = 0;
    let mut cov = 0;
    let mut ft = 0;
    let mut rss = 0;
    let mut tolerated = 0;
    let mut statuses = Vec::new();
    let mut any_timeout = false;
    let mut bad_exit_without_artifact = None;
    let mut slow_units = 0u64;
    if let Ok(rd) = std::fs::read_dir(&arts) {
        let mut ps: Vec<PathBuf> = rd.flatten().map(|e| e.path()).collect();
        ps.sort();
        for p in ps {
            let name = p.file_name().unwrap_or_default().to_string_lossy().to_string();
            // `slow-unit-*` files are libFuzzer's notes about slow inputs, not failures
            if name.contains("slow-unit-") {
                slow_units += 1;
                continue;
            }
            if let Ok(b) = std::fs::read(&p) {
                r.artifacts.push((name, b));
            }
        }
    }
    for (k, o) in outs.iter().enumerate() {
        let err = &o.stderr;
        executed += grab(err, "stat::number_of_executed_units:");
        added += grab(err, "stat::new_units_added:");
        rss = rss.max(grab(err, "stat::peak_rss_mb:"));
        cov = cov.max(field(err, " cov: "));
        ft = ft.max(field(err, " ft: "));
        tolerated += err.lines().filter(|l| l.starts_with("FUZZ-TOLERATED ")).count();
        statuses.push(json!({"job": k, "exit": o.status, "signal": o.signal, "timed_out": o.timed_out}));
        any_timeout |= o.timed_out;
        if o.status != Some(0) {
            let tail = err.lines().rev().take(30).collect::<Vec<_>>().into_iter().rev().collect::<Vec<_>>().join("\n");
            r.log_tail.push_str(&tail);
            r.log_tail.push('\n');
            if !r.artifacts.iter().any(|a| a.0.starts_with(&format!("job{k}-"))) {
                bad_exit_without_artifact = Some(format!("job {k} ended with status {:?} signal {:?} and left no artifact: {}", o.status, o.signal, crate::util::truncate(&tail, 400)));
            }
        }
    }
    let corpus_after: usize = (0..jobs).map(|k| std::fs::read_dir(work.join(format!("corpus{k}"))).map(|d| d.count()).unwrap_or(0)).sum();
    r.stats = json!({
        "runs_requested": runs,
        "jobs": jobs,
        "executed_units": executed,
        "new_units_added": added,
        "peak_rss_mb": rss,
        "coverage_edges_max_over_jobs": cov,
        "features_max_over_jobs": ft,
        "seed_corpus_files": n_seed,
        "corpus_files_after_all_jobs": corpus_after,
        "job_status": statuses,
        "artifacts": r.artifacts.iter().map(|a| a.0.clone()).collect::<Vec<_>>(),
        "tolerated_known_hits": tolerated,
        "slow_unit_notes": slow_units,
    });
    if any_timeout {
        r.infra = Some("a libFuzzer job hit the harness time limit".into());
    } else if let Some(w) = bad_exit_without_artifact {
        r.infra = Some(w);
    }
    let corpus = work.join("corpus0");
    // optional: keep what the campaign learnt (development aid; the committed corpus is changed only on request)
    if std::env::var("VERIF_FUZZ_SAVE_CORPUS").ok().as_deref() == Some("1") {
        let saved = crate::verif_root().join("corpus").join(target).join("saved");
        let _ = std::fs::create_dir_all(&saved);
        let mut m = Command::new(&bin);
        m.current_dir(&work).arg("-merge=1").arg(&saved).arg(&corpus).env("VERIF_FUZZ_ALLOW", allow.join(",")).env("VERIF_FUZZ_TOLERATE_ALL", "1");
        let _ = crate::farm::run_cmd(m, std::time::Duration::from_secs(3600));
    }
    if r.artifacts.is_empty() && r.infra.is_none() {
        let _ = std::fs::remove_dir_all(&work);
    }
    r
}
