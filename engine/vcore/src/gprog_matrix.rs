//! Directed sweeps for C01: the operator-nesting matrix and the scope matrix.
//!
//! Operator matrix: every ordered pair of binary operators (plus unary minus / `not` / `**`) written without
//! parentheses as `a op1 b op2 c`; the tree is the one the documented precedence/associativity gives; operands
//! are parameters of a probe function (so nothing is folded) with values for which the two possible groupings
//! differ. Each probe prints one value; probes whose reference evaluation leaves the domain are dropped.
//!
//! Scope matrix: the documented binding/reassignment patterns (`let`/`mut`/plain) x block kinds.

use crate::gprog::*;

const P0: u32 = 0;
const P1: u32 = 1;
const P2: u32 = 2;
const Q0: u32 = 3;
const Q1: u32 = 4;
const B0: u32 = 5;
const B1: u32 = 6;

fn v(n: u32) -> Expr {
    Expr::Var(n)
}

fn bin(op: BinOp, l: Expr, r: Expr) -> Expr {
    Expr::Bin(op, Box::new(l), Box::new(r))
}

/// tree of `a op1 b op2 c` under the documented precedence (left-assoc, `**` right-assoc)
fn natural(op1: BinOp, op2: BinOp, a: Expr, b: Expr, c: Expr) -> Expr {
    let (p1, p2) = (op1.prec(), op2.prec());
    if p2 > p1 || (p1 == p2 && op1 == BinOp::Pow) {
        bin(op1, a, bin(op2, b, c))
    } else {
        bin(op2, bin(op1, a, b), c)
    }
}

fn ty_of(e: &Expr) -> Ty {
    // only for the small trees built here
    match e {
        Expr::Int(_) => Ty::Int,
        Expr::Float(_) => Ty::Float,
        Expr::Bool(_) => Ty::Bool,
        Expr::Var(n) => match *n {
            P0 | P1 | P2 => Ty::Int,
            Q0 | Q1 => Ty::Float,
            _ => Ty::Bool,
        },
        Expr::Neg(x) => ty_of(x),
        Expr::Not(_) => Ty::Bool,
        Expr::Bin(op, l, r) => match op {
            BinOp::And | BinOp::Or => Ty::Bool,
            o if o.is_cmp() => Ty::Bool,
            BinOp::Div => Ty::Float,
            BinOp::Pow => {
                if ty_of(l) == Ty::Int && matches!(**r, Expr::Int(k) if k >= 0) {
                    Ty::Int
                } else {
                    Ty::Float
                }
            }
            _ => {
                if ty_of(l) == Ty::Float || ty_of(r) == Ty::Float {
                    Ty::Float
                } else {
                    Ty::Int
                }
            }
        },
        _ => Ty::Int,
    }
}

fn well_typed(e: &Expr) -> bool {
    match e {
        Expr::Bin(op, l, r) => {
            if !well_typed(l) || !well_typed(r) {
                return false;
            }
            let (a, b) = (ty_of(l), ty_of(r));
            match op {
                BinOp::And | BinOp::Or => a == Ty::Bool && b == Ty::Bool,
                BinOp::Eq | BinOp::Ne => (a.is_num() && b.is_num()) || (a == Ty::Bool && b == Ty::Bool),
                o if o.is_cmp() => a.is_num() && b.is_num(),
                _ => a.is_num() && b.is_num(),
            }
        }
        Expr::Neg(x) => well_typed(x) && ty_of(x).is_num(),
        Expr::Not(x) => well_typed(x) && ty_of(x) == Ty::Bool,
        _ => true,
    }
}

/// does the probe avoid the constructs switched off by open known findings?
fn allowed(e: &Expr, sw: &Switches) -> bool {
    let mut ok = true;
    crate::gprog_gen::walk_expr(e, &mut |x| match x {
        Expr::Bin(op, l, r) => {
            let (a, b) = (ty_of(l), ty_of(r));
            let simple = |e: &Expr| matches!(e, Expr::Var(_) | Expr::Int(_) | Expr::Float(_));
            if *op == BinOp::Lt {
                if !sw.lt_after_cast && (!simple(l) || a != b) {
                    ok = false;
                }
                if !sw.mixed_lt_int_left && a == Ty::Int && b == Ty::Float {
                    ok = false;
                }
            }
            if *op == BinOp::Pow {
                if ty_of(x) == Ty::Float && !sw.pow_float {
                    ok = false;
                }
                if !matches!(**l, Expr::Var(_)) {
                    ok = false;
                }
            }
            if !sw.mixed_compound_int && a != b && a.is_num() && b.is_num() {
                if (a == Ty::Int && !simple(l)) || (b == Ty::Int && !simple(r)) {
                    ok = false;
                }
            }
            if !sw.float_ops && (a == Ty::Float || b == Ty::Float || *op == BinOp::Div) {
                ok = false;
            }
        }
        Expr::Not(inner) => {
            if !sw.not_over_cmp && matches!(**inner, Expr::Bin(..)) {
                ok = false;
            }
        }
        Expr::Neg(inner) => {
            if !sw.compound_operands && !matches!(**inner, Expr::Var(_)) {
                ok = false;
            }
        }
        _ => {}
    });
    ok
}

pub struct Probe {
    pub expr: Expr,
    pub label: String,
}

pub fn operator_probes(sw: &Switches) -> (Vec<Probe>, usize) {
    let arith = [BinOp::Add, BinOp::Sub, BinOp::Mul, BinOp::Div, BinOp::FloorDiv, BinOp::Mod];
    let cmps = [BinOp::Eq, BinOp::Ne, BinOp::Lt, BinOp::Le, BinOp::Gt, BinOp::Ge];
    let logic = [BinOp::And, BinOp::Or];
    let mut all: Vec<BinOp> = Vec::new();
    all.extend(arith);
    all.extend(cmps);
    all.extend(logic);
    let operand_sets: Vec<(&str, [Expr; 3])> = vec![
        ("iii", [v(P0), v(P1), v(P2)]),
        ("fii", [v(Q0), v(P1), v(P2)]),
        ("ifi", [v(P0), v(Q1), v(P2)]),
        ("iif", [v(P0), v(P1), v(Q1)]),
        ("fff", [v(Q0), v(Q1), v(Q0)]),
        ("bbb", [v(B0), v(B1), v(B0)]),
        ("iib", [v(P0), v(P1), v(B1)]),
        ("bii", [v(B0), v(P1), v(P2)]),
    ];
    let mut probes = Vec::new();
    let mut excluded = 0usize;
    let mut push = |e: Expr, label: String, probes: &mut Vec<Probe>, excluded: &mut usize| {
        if !well_typed(&e) {
            return;
        }
        if !allowed(&e, sw) {
            *excluded += 1;
            return;
        }
        probes.push(Probe { expr: e, label });
    };
    for op1 in all.iter() {
        for op2 in all.iter() {
            // chained comparisons `a < b < c` are not part of the documented language
            if op1.is_cmp() && op2.is_cmp() {
                continue;
            }
            for (tag, ops) in &operand_sets {
                let e = natural(*op1, *op2, ops[0].clone(), ops[1].clone(), ops[2].clone());
                push(e, format!("{tag}: a {} b {} c", op1.text(), op2.text()), &mut probes, &mut excluded);
            }
        }
    }
    // unary minus and `not` against every binary operator, `**` with a literal exponent on either side
    for op in all.iter() {
        for (tag, a, b) in [("ii", v(P0), v(P1)), ("fi", v(Q0), v(P1)), ("if", v(P0), v(Q1)), ("bb", v(B0), v(B1))] {
            push(bin(*op, Expr::Neg(Box::new(a.clone())), b.clone()), format!("{tag}: -a {} b", op.text()), &mut probes, &mut excluded);
            push(bin(*op, a.clone(), Expr::Neg(Box::new(b.clone()))), format!("{tag}: a {} -b", op.text()), &mut probes, &mut excluded);
            // `not a op b` parses as not (a op b) for comparisons and as (not a) op b for and/or
            if op.is_cmp() {
                push(Expr::Not(Box::new(bin(*op, a.clone(), b.clone()))), format!("{tag}: not a {} b", op.text()), &mut probes, &mut excluded);
            } else {
                push(bin(*op, Expr::Not(Box::new(a.clone())), b.clone()), format!("{tag}: not a {} b", op.text()), &mut probes, &mut excluded);
                push(bin(*op, a.clone(), Expr::Not(Box::new(b.clone()))), format!("{tag}: a {} not b", op.text()), &mut probes, &mut excluded);
            }
            let pw = |x: Expr| bin(BinOp::Pow, x, Expr::Int(2));
            push(bin(*op, pw(a.clone()), b.clone()), format!("{tag}: a ** 2 {} b", op.text()), &mut probes, &mut excluded);
            push(bin(*op, a.clone(), pw(b.clone())), format!("{tag}: a {} b ** 2", op.text()), &mut probes, &mut excluded);
        }
    }
    (probes, excluded)
}

/// Pack probes into programs: `def probe(p0.., q0.., b0..) -> None:` with one println per probe, called from
/// main with two argument tuples. Returns programs with the labels of the probes they contain.
pub fn operator_programs(sw: &Switches, per_program: usize) -> (Vec<(Program, Vec<String>)>, usize, usize) {
    let (probes, excluded) = operator_probes(sw);
    let arg_sets: [[Expr; 7]; 2] = [
        [Expr::Int(7), Expr::Int(-3), Expr::Int(2), Expr::Float(2.5), Expr::Float(-0.5), Expr::Bool(true), Expr::Bool(false)],
        [Expr::Int(-8), Expr::Int(5), Expr::Int(3), Expr::Float(-1.25), Expr::Float(4.0), Expr::Bool(false), Expr::Bool(true)],
    ];
    let params: Vec<(u32, Ty, Option<Expr>)> = vec![
        (P0, Ty::Int, None),
        (P1, Ty::Int, None),
        (P2, Ty::Int, None),
        (Q0, Ty::Float, None),
        (Q1, Ty::Float, None),
        (B0, Ty::Bool, None),
        (B1, Ty::Bool, None),
    ];
    // keep probes that evaluate normally for both argument tuples
    let mut kept: Vec<Probe> = Vec::new();
    let mut dropped = 0usize;
    for p in probes {
        let f = FnDef { params: params.clone(), ret: Ty::Unit, body: vec![Stmt::Print(p.expr.clone())] };
        let main: Vec<Stmt> = arg_sets.iter().map(|a| Stmt::ExprStmt(Expr::Call(0, a.to_vec(), false))).collect();
        let prog = Program { fns: vec![f], main, ..Default::default() };
        match expected(&prog) {
            Ok(e) if e.end == End::Normal => kept.push(p),
            _ => dropped += 1,
        }
    }
    let mut out = Vec::new();
    for chunk in kept.chunks(per_program) {
        let body: Vec<Stmt> = chunk.iter().map(|p| Stmt::Print(p.expr.clone())).collect();
        let f = FnDef { params: params.clone(), ret: Ty::Unit, body };
        let main: Vec<Stmt> = arg_sets.iter().map(|a| Stmt::ExprStmt(Expr::Call(0, a.to_vec(), false))).collect();
        let mut prog = Program { fns: vec![f], main, ..Default::default() };
        prog.tags.insert("operator_matrix");
        out.push((prog, chunk.iter().map(|p| p.label.clone()).collect()));
    }
    (out, excluded, dropped)
}

// ------------------------------------------------------------------------------------------------
// scope matrix
// ------------------------------------------------------------------------------------------------

#[derive(Clone, Copy, Debug)]
pub enum BlockKind {
    If,
    Else,
    Elif,
    While,
    ForRange,
    ForList,
    MatchArm,
    NestedIfInFor,
}

fn wrap(kind: BlockKind, body: Vec<Stmt>, fresh: &mut u32) -> Vec<Stmt> {
    let mut f = || {
        *fresh += 1;
        *fresh
    };
    match kind {
        BlockKind::If => vec![Stmt::If { arms: vec![(Expr::Bool(true), body)], els: None }],
        BlockKind::Else => vec![Stmt::If { arms: vec![(Expr::Bool(false), vec![Stmt::Print(Expr::Int(-1))])], els: Some(body) }],
        BlockKind::Elif => vec![Stmt::If { arms: vec![(Expr::Bool(false), vec![Stmt::Print(Expr::Int(-1))]), (Expr::Bool(true), body)], els: None }],
        BlockKind::While => {
            let c = f();
            vec![
                Stmt::Let { name: c, ty: Ty::Int, annotated: false, kind: LetKind::Mut, e: Expr::Int(0) },
                Stmt::While { counter: c, bound: 2, extra: None, body },
            ]
        }
        BlockKind::ForRange => vec![Stmt::ForRange { var: f(), args: vec![Expr::Int(2)], body }],
        BlockKind::ForList => vec![Stmt::ForIn { var: f(), iter: Expr::ListLit(vec![Expr::Int(5), Expr::Int(6)], Ty::Int), body }],
        BlockKind::MatchArm => vec![Stmt::Match {
            scrut: Expr::Variant(0, 0, vec![Expr::Int(1)]),
            arms: vec![(Pat::Variant(0, 0, vec![f()]), body), (Pat::Variant(0, 1, vec![]), vec![Stmt::Print(Expr::Int(-2))])],
            style: ArmStyle::CaseBlock,
        }],
        BlockKind::NestedIfInFor => vec![Stmt::ForRange {
            var: f(),
            args: vec![Expr::Int(2)],
            body: vec![Stmt::If { arms: vec![(Expr::Bool(true), body)], els: None }],
        }],
    }
}

/// One function per (pattern, block kind); each prints what the documented scoping rules say is visible.
pub fn scope_programs(sw: &Switches) -> Vec<(Program, Vec<String>)> {
    let kinds = [
        BlockKind::If,
        BlockKind::Else,
        BlockKind::Elif,
        BlockKind::While,
        BlockKind::ForRange,
        BlockKind::ForList,
        BlockKind::MatchArm,
        BlockKind::NestedIfInFor,
    ];
    let x = 100u32;
    let y = 101u32;
    let mut by_pattern: Vec<(Vec<FnDef>, Vec<String>)> = vec![(vec![], vec![]), (vec![], vec![]), (vec![], vec![]), (vec![], vec![])];
    let mut fresh = 200u32;
    for kind in kinds {
        if matches!(kind, BlockKind::Elif) && !sw.elif {
            continue;
        }
        if matches!(kind, BlockKind::MatchArm) && !sw.enums {
            continue;
        }
        // pattern 1: reassign an outer `mut` from the block (documented: visible after the block)
        let p1 = {
            let inner = vec![Stmt::Assign { name: x, e: bin(BinOp::Add, v(x), Expr::Int(10)) }, Stmt::Print(v(x))];
            let mut b = vec![Stmt::Let { name: x, ty: Ty::Int, annotated: false, kind: LetKind::Mut, e: Expr::Int(1) }];
            b.extend(wrap(kind, inner, &mut fresh));
            b.push(Stmt::Print(v(x)));
            b
        };
        // pattern 2: `let x` in the block shadows; the outer x is unchanged afterwards
        let p2 = {
            let inner = vec![Stmt::Let { name: x, ty: Ty::Int, annotated: false, kind: LetKind::Let, e: Expr::Int(2) }, Stmt::Print(v(x))];
            let mut b = vec![Stmt::Let { name: x, ty: Ty::Int, annotated: false, kind: LetKind::Let, e: Expr::Int(1) }];
            b.extend(wrap(kind, inner, &mut fresh));
            b.push(Stmt::Print(v(x)));
            b
        };
        // pattern 3: compound assignment to an outer mut + a block-local plain binding
        let p3 = {
            let inner = vec![
                Stmt::Let { name: y, ty: Ty::Int, annotated: false, kind: LetKind::Plain, e: bin(BinOp::Mul, v(x), Expr::Int(3)) },
                Stmt::Aug { name: x, op: BinOp::Add, e: v(y) },
                Stmt::Print(v(y)),
            ];
            let mut b = vec![Stmt::Let { name: x, ty: Ty::Int, annotated: true, kind: LetKind::Mut, e: Expr::Int(2) }];
            b.extend(wrap(kind, inner, &mut fresh));
            b.push(Stmt::Print(v(x)));
            b
        };
        // pattern 4: `mut x` in the block shadows an outer mut; inner writes do not leak
        let p4 = {
            let inner = vec![
                Stmt::Let { name: x, ty: Ty::Int, annotated: false, kind: LetKind::Mut, e: Expr::Int(50) },
                Stmt::Assign { name: x, e: bin(BinOp::Add, v(x), Expr::Int(1)) },
                Stmt::Print(v(x)),
            ];
            let mut b = vec![Stmt::Let { name: x, ty: Ty::Int, annotated: false, kind: LetKind::Mut, e: Expr::Int(7) }];
            b.extend(wrap(kind, inner, &mut fresh));
            b.push(Stmt::Print(v(x)));
            b
        };
        for (pi, body) in [p1, p2, p3, p4].into_iter().enumerate() {
            if (pi == 1 || pi == 3) && !sw.shadow {
                continue;
            }
            by_pattern[pi].1.push(format!("{kind:?}/pattern{}", pi + 1));
            by_pattern[pi].0.push(FnDef { params: vec![], ret: Ty::Unit, body });
        }
    }
    let mut out = Vec::new();
    for (fns, labels) in by_pattern {
        if fns.is_empty() {
            continue;
        }
        let main: Vec<Stmt> = (0..fns.len()).map(|i| Stmt::ExprStmt(Expr::Call(i, vec![], false))).collect();
        let mut prog = Program { enums: vec![EnumDef { variants: vec![vec![Ty::Int], vec![]] }], fns, main, ..Default::default() };
        prog.tags.insert("scope_matrix");
        out.push((prog, labels));
    }
    out
}
