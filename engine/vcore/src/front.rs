//! Front-end totality oracle (property C11; shared by `checks/src/bin/c11.rs` and the `fz_frontend` fuzz target).
//!
//! `judge(src, ..)` drives lex -> parse -> typecheck -> format -> emit-rust in one process, every stage under
//! `catch_unwind`, and checks the well-formedness of every diagnostic and of its terminal / editor renderings.
//! It never stops at the first failure: independent stages are still exercised, so that a known panic in one
//! stage does not hide the stages behind it.

use incan::backend::ir::codegen::GenerationError;
use incan::frontend::diagnostics::{format_error, render_miette, CompileError};
use incan::frontend::typechecker::TypeChecker;
use incan::lsp::diagnostics::compile_error_to_diagnostic;
use incan_syntax::ast::Program;
use incan_syntax::lexer::{self, Token, TokenKind};
use incan_syntax::parser;
use std::sync::atomic::{AtomicU8, Ordering};
use tower_lsp::lsp_types::{Range, Url};

use crate::util;

/// Nesting bound of the property ("bracket/block nesting up to a fixed generous depth").
pub const MAX_NESTING: usize = 64;

pub const STAGES: [&str; 8] = ["idle", "lex", "parse", "typecheck", "format", "emit-rust", "render", "done"];

#[derive(Clone, Debug)]
pub struct Fail {
    pub key: String,
    pub what: String,
    /// normalised panic location for panic findings (used to match CLI panics with in-process ones)
    pub loc: Option<String>,
}

#[derive(Default, Debug)]
pub struct Report {
    pub fails: Vec<Fail>,
    pub lexed: bool,
    pub parsed: bool,
    pub typechecked_ok: bool,
    pub emitted_ok: bool,
    pub formatted_ok: bool,
    pub diagnostics: usize,
    pub diag_nonempty_span: bool,
    /// which stages produced diagnostics (histogram material)
    pub diag_stages: Vec<&'static str>,
}

impl Report {
    /// Non-triviality rule of C11: the input passes the lexer, or yields a diagnostic with a non-empty span.
    pub fn nontrivial(&self) -> bool {
        self.lexed || self.diag_nonempty_span
    }
}

/// Upper bound of bracket / block / prefix-operator nesting of a text, computed on the raw characters
/// (strings and comments are not recognised: this over-approximates, which only makes the skip conservative).
pub fn nesting(src: &str) -> usize {
    let mut max = 0usize;
    let mut d = 0usize;
    for c in src.chars() {
        match c {
            '(' | '[' | '{' => {
                d += 1;
                max = max.max(d);
            }
            ')' | ']' | '}' => d = d.saturating_sub(1),
            _ => {}
        }
    }
    // block nesting: number of distinct increasing indentation widths open at once
    let mut stack: Vec<usize> = vec![0];
    for line in src.split('\n') {
        let mut w = 0usize;
        let mut blank = true;
        for ch in line.chars() {
            match ch {
                ' ' => w += 1,
                '\t' => w += 4,
                '\r' => {}
                _ => {
                    blank = false;
                    break;
                }
            }
        }
        if blank {
            continue;
        }
        while *stack.last().unwrap() > w {
            stack.pop();
        }
        if *stack.last().unwrap() < w {
            stack.push(w);
        }
        max = max.max(stack.len() - 1);
    }
    // chains of prefix operators / keywords recurse once per element as well
    let mut run = 0usize;
    let mut it = src.split(|c: char| c == ' ' || c == '\t').peekable();
    while let Some(w) = it.next() {
        if w == "not" || w == "-" || w == "await" {
            run += 1;
            max = max.max(run);
        } else if !w.is_empty() {
            // runs like `---x` or `not(not(`
            let dashes = w.chars().take_while(|c| *c == '-').count();
            max = max.max(dashes);
            run = 0;
        }
    }
    max
}

thread_local! {
    static TL_PANIC: std::cell::RefCell<Option<String>> = const { std::cell::RefCell::new(None) };
}

/// Normalise a source path of a panic location: `<crate>/<path below src>`; the repository's own root crate is `incan`.
/// "/repo/crates/incan_syntax/src/parser/expr.rs" -> "incan_syntax/parser/expr.rs";
/// ".../registry/src/<h>/quote-1.0.42/src/runtime.rs" -> "quote-1.0.42/runtime.rs".
pub fn norm_path(file: &str) -> String {
    let repo = crate::repo_root();
    let repo_name = repo.file_name().map(|s| s.to_string_lossy().to_string()).unwrap_or_default();
    match file.rfind("/src/") {
        Some(i) => {
            let krate = file[..i].rsplit('/').next().unwrap_or("");
            let krate = if krate == repo_name || krate.is_empty() { "incan" } else { krate };
            format!("{krate}/{}", &file[i + 5..])
        }
        None => match file.strip_prefix("src/") {
            Some(rest) => format!("incan/{rest}"),
            None => file.rsplit('/').take(2).collect::<Vec<_>>().into_iter().rev().collect::<Vec<_>>().join("/"),
        },
    }
}

fn is_repo_path(file: &str) -> bool {
    let repo = crate::repo_root();
    !file.starts_with('/') || std::path::Path::new(file).starts_with(&repo)
}

/// First frame of the current backtrace that belongs to the code under test (function path without hash).
fn first_repo_frame() -> Option<String> {
    let bt = std::backtrace::Backtrace::force_capture().to_string();
    for line in bt.lines() {
        let l = line.trim_start();
        let Some((_, sym)) = l.split_once(": ") else { continue };
        let sym = sym.trim();
        let core = sym.trim_start_matches('<');
        if core.starts_with("incan::") || core.starts_with("incan_syntax::") || core.starts_with("incan_core::") || core.starts_with("incan_stdlib::") {
            let mut f = sym.to_string();
            if let Some(i) = f.rfind("::h") {
                if f[i + 3..].len() == 16 && f[i + 3..].chars().all(|c| c.is_ascii_hexdigit()) {
                    f.truncate(i);
                }
            }
            // closures and generic instantiations: keep the path, drop the noise
            let f = f.replace("::{{closure}}", "").replace(' ', "_");
            return Some(f);
        }
    }
    None
}

/// Panic hook for front-end checks: records "msg @ <normalised location>" per thread; for panics raised inside
/// third-party or std code the first frame of the code under test is appended (" <- incan::...::function"), so that
/// the signature names the construct's emitter / checker and not just the shared assertion.
pub fn install_panic_hook() {
    install_panic_hook_with(true)
}

/// `frames = false`: never walk the stack (fuzz targets: a symbolised backtrace per tolerated panic is too slow);
/// signatures then end at the location and are compared up to the `<-` part.
pub fn install_panic_hook_with(frames: bool) {
    std::panic::set_hook(Box::new(move |info| {
        let msg = if let Some(s) = info.payload().downcast_ref::<&str>() {
            s.to_string()
        } else if let Some(s) = info.payload().downcast_ref::<String>() {
            s.clone()
        } else {
            "<non-string panic>".to_string()
        };
        let (file, line) = info.location().map(|l| (l.file().to_string(), l.line())).unwrap_or_default();
        let mut loc = format!("{}:{line}", norm_path(&file));
        if frames && !is_repo_path(&file) {
            if let Some(f) = first_repo_frame() {
                loc.push_str("<-");
                loc.push_str(&f);
            }
        }
        TL_PANIC.with(|c| *c.borrow_mut() = Some(format!("{msg} @ {loc}")));
    }));
}

/// `catch_unwind` returning "msg @ loc" (requires `install_panic_hook`).
pub fn catch<R>(f: impl FnOnce() -> R) -> Result<R, String> {
    TL_PANIC.with(|c| *c.borrow_mut() = None);
    match std::panic::catch_unwind(std::panic::AssertUnwindSafe(f)) {
        Ok(r) => Ok(r),
        Err(_) => Err(TL_PANIC.with(|c| c.borrow_mut().take()).unwrap_or_else(|| "<panic; hook not installed> @ ?".into())),
    }
}

fn panic_loc(p: &str) -> String {
    match p.rfind(" @ ") {
        Some(i) => p[i + 3..].to_string(),
        None => "?".into(),
    }
}

/// Message class: first line, digits and quoted payloads collapsed.
pub fn norm_msg(m: &str) -> String {
    let mut out = String::new();
    let mut quote: Option<char> = None;
    let mut last_digit = false;
    for c in m.lines().next().unwrap_or("").chars() {
        if let Some(q) = quote {
            if c == q {
                quote = None;
                out.push('Q');
            }
            continue;
        }
        match c {
            '\'' | '"' | '`' => {
                quote = Some(c);
                last_digit = false;
            }
            '0'..='9' => {
                if !last_digit {
                    out.push('N');
                }
                last_digit = true;
            }
            ' ' => {
                out.push('_');
                last_digit = false;
            }
            _ if c.is_ascii_alphanumeric() || "_:-.,()[]<>=".contains(c) => {
                out.push(c);
                last_digit = false;
            }
            _ => {
                out.push('?');
                last_digit = false;
            }
        }
    }
    let mut n = 70.min(out.len());
    while !out.is_char_boundary(n) {
        n -= 1;
    }
    out.truncate(n);
    out
}

fn line_lens(doc: &str) -> Vec<u32> {
    doc.split('\n').map(|l| l.chars().count() as u32).collect()
}

fn range_ok(lens: &[u32], r: &Range) -> bool {
    let valid = |l: u32, c: u32| (l as usize) < lens.len() && c <= lens[l as usize];
    (r.start.line, r.start.character) <= (r.end.line, r.end.character) && valid(r.start.line, r.start.character) && valid(r.end.line, r.end.character)
}

/// Span predicate of the property: inside the file, on char boundaries, start <= end.
pub fn span_defect(src: &str, start: usize, end: usize) -> Option<&'static str> {
    if start > end {
        Some("reversed")
    } else if end > src.len() {
        Some("beyond-end")
    } else if !src.is_char_boundary(start) || !src.is_char_boundary(end) {
        Some("not-char-boundary")
    } else {
        None
    }
}

struct Ctx<'a> {
    src: &'a str,
    rep: Report,
    lens: Option<Vec<u32>>,
    fexprs: Option<Vec<String>>,
    uri: Url,
    progress: &'a AtomicU8,
}

impl<'a> Ctx<'a> {
    fn fail(&mut self, key: String, what: String) {
        if !self.rep.fails.iter().any(|f| f.key == key) {
            let loc = if key.starts_with("panic:") || key.contains(":panic:") { key.split(':').skip_while(|p| !p.contains('/')).collect::<Vec<_>>().join(":").split("<-").next().map(|s| s.to_string()) } else { None };
            self.rep.fails.push(Fail { key, what, loc });
        }
    }

    fn fstring_exprs(&mut self) -> &Vec<String> {
        if self.fexprs.is_none() {
            let mut v = Vec::new();
            if let Ok(toks) = lexer::lex(self.src) {
                for t in toks {
                    if let TokenKind::FString(parts) = t.kind {
                        for p in parts {
                            if let incan_syntax::lexer::FStringPart::Expr(x) = p {
                                v.push(x);
                            }
                        }
                    }
                }
            }
            self.fexprs = Some(v);
        }
        self.fexprs.as_ref().unwrap()
    }

    fn stage(&self, s: u8) {
        self.progress.store(s, Ordering::Relaxed);
    }

    /// All well-formedness demands on one diagnostic.
    fn diagnostic(&mut self, stage: &'static str, e: &CompileError) {
        self.rep.diagnostics += 1;
        if !self.rep.diag_stages.contains(&stage) {
            self.rep.diag_stages.push(stage);
        }
        if e.span.end > e.span.start {
            self.rep.diag_nonempty_span = true;
        }
        let src = self.src;
        let defect = span_defect(src, e.span.start, e.span.end);
        if let Some(d) = defect {
            // root cause known from the reading: nodes inside an f-string interpolation carry spans relative to the
            // interpolation text. Recognised when the span fits inside the text of some interpolation of the file.
            let rel = self.fstring_exprs().iter().any(|x| e.span.end <= x.len() && e.span.start <= e.span.end);
            let key = if rel { format!("span:{stage}:{d}:fstring-interpolation-relative") } else { format!("span:{stage}:{d}:{}", norm_msg(&e.message)) };
            self.fail(key, format!("{stage} diagnostic {:?} has span {}..{} ({d}; file length {})", e.message, e.span.start, e.span.end, src.len()));
        }
        let prev = self.progress.swap(6, Ordering::Relaxed);
        match catch(|| format_error("input.incn", src, e)) {
            Ok(text) => {
                if text.is_empty() {
                    self.fail(format!("render:format_error:empty:{stage}"), format!("format_error returned an empty string for {:?}", e.message));
                }
            }
            Err(p) => self.fail(
                format!("render:format_error:panic:{}", panic_loc(&p)),
                format!("format_error panicked on {stage} diagnostic {:?} span {}..{}: {p}", e.message, e.span.start, e.span.end),
            ),
        }
        // miette renderer (public `format_error_smart` path): only judged on well-formed spans — on a malformed
        // span the span itself is the finding
        if defect.is_none() {
            if let Err(p) = catch(|| render_miette(e, "input.incn", src)) {
                self.fail(
                    format!("render:miette:panic:{}", panic_loc(&p)),
                    format!("render_miette panicked on {stage} diagnostic {:?} span {}..{}: {p}", e.message, e.span.start, e.span.end),
                );
            }
        }
        let uri = self.uri.clone();
        match catch(|| compile_error_to_diagnostic(e, src, &uri)) {
            Ok(d) => {
                if self.lens.is_none() {
                    self.lens = Some(line_lens(src));
                }
                let lens = self.lens.as_ref().unwrap();
                let mut ok = range_ok(lens, &d.range);
                if let Some(rel) = &d.related_information {
                    for ri in rel {
                        ok &= range_ok(lens, &ri.location.range);
                    }
                }
                // the range starts where the span starts (independent reference: count LF, count scalars since the last LF)
                if defect.is_none() {
                    let before = &src[..e.span.start];
                    let line = before.matches('\n').count() as u32;
                    let col = before[before.rfind('\n').map(|i| i + 1).unwrap_or(0)..].chars().count() as u32;
                    if (d.range.start.line, d.range.start.character) != (line, col) {
                        self.fail(
                            format!("lsp-range-start:{stage}"),
                            format!("editor range {:?} does not start at the position ({line},{col}) of span start {} ({:?})", d.range, e.span.start, e.message),
                        );
                    }
                }
                // an out-of-document range that merely follows from a malformed span is reported once, as the span
                if !ok && defect.is_none() {
                    self.fail(
                        format!("lsp-range:{stage}:{}", norm_msg(&e.message)),
                        format!("editor range {:?} for span {}..{} is not inside the document / not ordered", d.range, e.span.start, e.span.end),
                    );
                }
            }
            Err(p) => self.fail(
                format!("render:lsp:panic:{}", panic_loc(&p)),
                format!("compile_error_to_diagnostic panicked on {stage} diagnostic {:?} span {}..{}: {p}", e.message, e.span.start, e.span.end),
            ),
        }
        self.progress.store(prev, Ordering::Relaxed);
    }

    fn diagnostics(&mut self, stage: &'static str, errs: &[CompileError]) {
        if errs.is_empty() {
            self.fail(format!("empty-errors:{stage}"), format!("{stage} returned Err with an empty diagnostics list"));
        }
        // bounded: pathological inputs produce thousands of identical diagnostics
        for e in errs.iter().take(64) {
            self.diagnostic(stage, e);
        }
    }
}

/// Run the whole front end on one input. `progress` is updated with the index (into `STAGES`) of the stage that is
/// running, so that a watchdog can name the stage of a hang.
pub fn judge(src: &str, progress: &AtomicU8) -> Report {
    let mut cx = Ctx { src, rep: Report::default(), lens: None, fexprs: None, uri: Url::parse("file:///input.incn").expect("url"), progress };

    cx.stage(1);
    let tokens: Option<Vec<Token>> = match catch(|| lexer::lex(src)) {
        Ok(Ok(t)) => {
            cx.rep.lexed = true;
            if !matches!(t.last().map(|t| &t.kind), Some(TokenKind::Eof)) {
                cx.fail("lex:no-eof-token".into(), "token stream does not end with Eof".into());
            }
            // token spans obey the same predicate (they become diagnostic spans later)
            for tk in &t {
                if let Some(d) = span_defect(src, tk.span.start, tk.span.end) {
                    cx.fail(format!("token-span:{d}"), format!("token {:?} has span {}..{} ({d})", tk.kind, tk.span.start, tk.span.end));
                    break;
                }
            }
            Some(t)
        }
        Ok(Err(errs)) => {
            cx.diagnostics("lex", &errs);
            None
        }
        Err(p) => {
            cx.fail(format!("panic:lex:{}", panic_loc(&p)), format!("lexer panicked: {p}"));
            None
        }
    };

    cx.stage(2);
    let ast: Option<Program> = match &tokens {
        None => None,
        Some(t) => match catch(|| parser::parse(t)) {
            Ok(Ok(a)) => {
                cx.rep.parsed = true;
                Some(a)
            }
            Ok(Err(errs)) => {
                cx.diagnostics("parse", &errs);
                None
            }
            Err(p) => {
                cx.fail(format!("panic:parse:{}", panic_loc(&p)), format!("parser panicked: {p}"));
                None
            }
        },
    };

    if let Some(ast) = &ast {
        cx.stage(3);
        match catch(|| TypeChecker::new().check_program(ast)) {
            Ok(Ok(())) => cx.rep.typechecked_ok = true,
            Ok(Err(errs)) => cx.diagnostics("typecheck", &errs),
            Err(p) => cx.fail(format!("panic:typecheck:{}", panic_loc(&p)), format!("type checker panicked: {p}")),
        }
    }

    cx.stage(4);
    match catch(|| incan::format_source(src)) {
        Ok(Ok(_)) => {
            cx.rep.formatted_ok = true;
            if ast.is_none() {
                // not demanded by the property (the formatter documents "requires valid syntax"); recorded only
            }
        }
        Ok(Err(e)) => {
            let msg = e.to_string();
            if msg.trim().is_empty() {
                cx.fail("empty-errors:format".into(), "format_source returned an error with an empty message".into());
            }
        }
        Err(p) => cx.fail(format!("panic:format:{}", panic_loc(&p)), format!("format_source panicked: {p}")),
    }

    if let Some(ast) = &ast {
        cx.stage(5);
        match catch(|| incan::IrCodegen::new().try_generate(ast)) {
            Ok(Ok(_)) => cx.rep.emitted_ok = true,
            Ok(Err(GenerationError::TypeCheck(errs))) => cx.diagnostics("typecheck", &errs),
            Ok(Err(GenerationError::Lowering(errs))) => {
                if errs.0.is_empty() {
                    cx.fail("empty-errors:lowering".into(), "lowering returned an empty error list".into());
                }
                for e in errs.0.iter().take(64) {
                    cx.rep.diagnostics += 1;
                    if e.message.is_empty() {
                        cx.fail("empty-message:lowering".into(), "lowering error with an empty message".into());
                    }
                    if let Some(d) = span_defect(src, e.span.start, e.span.end) {
                        cx.fail(
                            format!("span:lowering:{d}:{}", norm_msg(&e.message)),
                            format!("lowering error {:?} has span {}..{} ({d}; file length {})", e.message, e.span.start, e.span.end, src.len()),
                        );
                    }
                }
                if !cx.rep.diag_stages.contains(&"lowering") {
                    cx.rep.diag_stages.push("lowering");
                }
            }
            Ok(Err(GenerationError::Emission(e))) => {
                cx.rep.diagnostics += 1;
                if e.to_string().is_empty() {
                    cx.fail("empty-message:emission".into(), "emission error with an empty message".into());
                }
                if !cx.rep.diag_stages.contains(&"emission") {
                    cx.rep.diag_stages.push("emission");
                }
            }
            Err(p) => cx.fail(format!("panic:emit-rust:{}", panic_loc(&p)), format!("IrCodegen::try_generate panicked: {p}")),
        }
    }
    cx.stage(7);
    cx.rep
}

// ------------------------------------------------------------------------------------------------------------
// input mutators (pure functions of the seed text and raw selectors; proptest / libFuzzer supply the selectors)
// ------------------------------------------------------------------------------------------------------------

/// Scalars spliced into programs: ASCII oddities, BOM, NBSP, bidi marks, line separators, combining, astral.
pub const SCALARS: [&str; 28] = [
    "\u{FEFF}", "\u{00A0}", "\u{200F}", "\u{202E}", "\u{2028}", "\u{2029}", "\u{0301}", "😀", "𝒳", "é", "€", "\0", "\r", "\t", "\u{000C}", "\u{000B}", "\\",
    "$", "`", "~", "!", "?", ";", "^", "&", "|", "\u{7f}", "\u{85}",
];

pub const BROKEN_LITERALS: [&str; 30] = [
    "\"", "'", "\"\"\"", "'''", "f\"", "f'", "f\"{", "f\"{x", "f\"{{", "f\"}", "f\"{}\"", "f\"{\"", "b\"", "b'", "b\"\\x", "b\"\\x4", "b\"\\xZZ\"", "b\"é\"", "\"\\", "'\\",
    "f\"\\", "b\"\\", "\"abc\ndef\"", "f\"a{b\nc}\"", "\"\"\"x\"\"", "f\"{a.}\"", "f\"é{undefined_name}\"", "f\"{é}\"", "f\"😀{1 +}\"", "f\"{f\"{x}\"}\"",
];

pub const NUMBERS: [&str; 30] = [
    "99999999999999999999", "9223372036854775808", "1e999", "1e", "1e+", "1_", "1__2", "0x1F", "0b2", "1.2.3", "1.", "1..2", "1.e5", "00", "1_000_000", "1.5e-400",
    "9223372036854775807", "9223372036854775809", "-9223372036854775808", "9_223_372_036_854_775_808", "9223372036854775808.0", "18446744073709551615", "18446744073709551616",
    "2147483648", "340282366920938463463374607431768211456", "1e308", "1e309", "1e99999999999999999999", "0xFFFFFFFFFFFFFFFFFF", "12abc",
];

/// Literal kinds of the directed escape leg: (class name, opening text, closing text).
pub const ESC_KINDS: [(&str, &str, &str); 9] = [
    ("escape:str-dq", "\"", "\""),
    ("escape:str-sq", "'", "'"),
    ("escape:bytes-dq", "b\"", "\""),
    ("escape:bytes-sq", "b'", "'"),
    ("escape:fstr-dq", "f\"", "\""),
    ("escape:fstr-sq", "f'", "'"),
    ("escape:triple-dq", "\"\"\"", "\"\"\""),
    ("escape:triple-sq", "'''", "'''"),
    ("escape:fstr-interpolation", "f\"{", "}\""),
];

/// Escape introducers the lexer knows (plus the ones it does not: `\u`, line continuation, a bare backslash) and the
/// f-string brace forms.
pub const ESC_INTRO: [&str; 14] = ["\\x", "\\u", "\\u{", "\\0", "\\n", "\\\\", "\\\"", "\\'", "\\\n", "\\", "{", "}", "{{", "}}"];

/// Following scalars: hex digit, hex letter, non-hex ASCII, 2-, 3-, 4-byte scalar, combining mark, the closing quote
/// (`Q`), newline, end of file (`E`).
pub const ESC_FOLLOW: [&str; 10] = ["4", "a", "z", "é", "€", "😀", "\u{301}", "Q", "\n", "E"];

/// One input of the escape leg. `seq` indexes `ESC_FOLLOW`; placement 0 = file start, 1 = after code (and before more
/// code), 2 = last thing in the file (no newline behind it).
pub fn escape_input(kind: usize, intro: usize, seq: &[usize], placement: usize) -> (&'static str, String) {
    let (class, open, close) = ESC_KINDS[kind % ESC_KINDS.len()];
    let quote = &close[close.len() - 1..];
    let mut lit = String::from(open);
    lit.push_str(ESC_INTRO[intro % ESC_INTRO.len()]);
    let mut eof = false;
    for &i in seq {
        match ESC_FOLLOW[i % ESC_FOLLOW.len()] {
            "Q" => lit.push_str(quote),
            "E" => {
                eof = true;
                break;
            }
            s => lit.push_str(s),
        }
    }
    if !eof {
        lit.push_str(close);
    }
    let text = match placement % 3 {
        0 => {
            if eof {
                lit
            } else {
                format!("{lit}\n")
            }
        }
        1 => {
            if eof {
                format!("def main() -> None:\n    x = {lit}")
            } else {
                format!("def main() -> None:\n    x = {lit}\n    println(\"done\")\n")
            }
        }
        _ => format!("x = {lit}"),
    };
    (class, text)
}

/// The escape leg, exhaustive within its bounds: every literal kind x every introducer x every sequence of 0..=2
/// following scalars x 3 placements, plus sequences of 3 after the multi-character introducers (`\x`, `\u`, `\u{`) in
/// the middle placement; `full` = sequences of 3 everywhere. Duplicates (sequences cut by EOF) are removed.
pub fn escape_cases(full: bool) -> Vec<(&'static str, String)> {
    let mut out = Vec::new();
    let mut seen = std::collections::HashSet::new();
    let n = ESC_FOLLOW.len();
    let mut seqs: Vec<Vec<usize>> = vec![vec![]];
    for a in 0..n {
        seqs.push(vec![a]);
        for b in 0..n {
            seqs.push(vec![a, b]);
        }
    }
    let mut seqs3: Vec<Vec<usize>> = Vec::new();
    for a in 0..n {
        for b in 0..n {
            for c in 0..n {
                seqs3.push(vec![a, b, c]);
            }
        }
    }
    for kind in 0..ESC_KINDS.len() {
        for intro in 0..ESC_INTRO.len() {
            for placement in 0..3 {
                for q in &seqs {
                    let (c, t) = escape_input(kind, intro, q, placement);
                    if seen.insert(util::hash_str(&t)) {
                        out.push((c, t));
                    }
                }
                if full || (intro < 3 && placement == 1) {
                    for q in &seqs3 {
                        let (c, t) = escape_input(kind, intro, q, placement);
                        if seen.insert(util::hash_str(&t)) {
                            out.push((c, t));
                        }
                    }
                }
            }
        }
    }
    out
}

/// The same scalars (alone, after `x`, after `x4`) spliced right after every backslash of a seed text.
pub fn backslash_splices(seed: &str) -> Vec<(&'static str, String)> {
    let mut out = Vec::new();
    for (p, _) in seed.char_indices().filter(|(_, c)| *c == '\\') {
        let after = p + 1;
        for f in ESC_FOLLOW {
            for pre in ["", "x", "x4", "u{"] {
                let t = match f {
                    "E" => format!("{}{pre}", &seed[..after]),
                    "Q" => format!("{}{pre}\"{}", &seed[..after], &seed[after..]),
                    s => format!("{}{pre}{s}{}", &seed[..after], &seed[after..]),
                };
                out.push(("escape:seed-backslash-splice", t));
            }
        }
    }
    out
}

// ------------------------------------------------------------------------------------------------------------
// directed numeric-literal leg
// ------------------------------------------------------------------------------------------------------------

/// decimal string + small delta (non-negative decimal strings; a result below zero is clamped to "0")
fn dec_add(s: &str, d: i32) -> String {
    let mut digits: Vec<i32> = s.bytes().map(|b| (b - b'0') as i32).collect();
    let mut carry = d;
    for x in digits.iter_mut().rev() {
        let v = *x + carry;
        *x = v.rem_euclid(10);
        carry = v.div_euclid(10);
        if carry == 0 {
            break;
        }
    }
    if carry < 0 {
        return "0".into();
    }
    let mut out = String::new();
    if carry > 0 {
        out.push_str(&carry.to_string());
    }
    out.extend(digits.iter().map(|d| (b'0' + *d as u8) as char));
    let t = out.trim_start_matches('0');
    if t.is_empty() {
        "0".into()
    } else {
        t.to_string()
    }
}

fn group3(s: &str) -> String {
    let mut out = String::new();
    for (i, c) in s.chars().enumerate() {
        if i > 0 && (s.len() - i) % 3 == 0 {
            out.push('_');
        }
        out.push(c);
    }
    out
}

/// Numeric literal spellings: every {i,u}{8,16,32,64,128}::{MIN,MAX} magnitude +-{0,1,2} in several spellings, digit
/// runs, radix prefixes, floats with boundary integer parts, extreme exponents, malformed shapes.
pub fn numeric_literals() -> Vec<String> {
    let mut v: Vec<String> = Vec::new();
    let mut mags: Vec<String> = Vec::new();
    for k in [8u32, 16, 32, 64, 128] {
        let half = (1u128 << (k - 1)).to_string(); // |iK::MIN|
        let full = if k == 128 { "340282366920938463463374607431768211456".to_string() } else { (1u128 << k).to_string() }; // uK::MAX + 1
        for base in [half, full] {
            for d in -3..=2 {
                mags.push(dec_add(&base, d)); // base-1 = MAX; MAX +- {0,1,2} and MIN magnitude +- {0,1,2}
            }
        }
    }
    mags.sort();
    mags.dedup();
    for m in &mags {
        for neg in ["", "-"] {
            v.push(format!("{neg}{m}"));
            v.push(format!("{neg}{}", group3(m)));
            v.push(format!("{neg}0{m}"));
            v.push(format!("{neg}000_{m}"));
            v.push(format!("{neg}{m}.0"));
            v.push(format!("{neg}{m}.5"));
            v.push(format!("{neg}{m}e0"));
            v.push(format!("{neg}{m}e1"));
            v.push(format!("{neg}{m}_"));
        }
    }
    for n in 1..=60usize {
        for c in ["9", "1", "0"] {
            v.push(c.repeat(n));
        }
    }
    for n in [20usize, 39, 40, 60] {
        v.push(format!("{}.{}", "9".repeat(n), "9".repeat(n)));
        v.push(format!("0.{}1", "0".repeat(n)));
    }
    for x in [
        "0x0", "0x1F", "0xff", "0xFFFFFFFF", "0x7FFFFFFFFFFFFFFF", "0x8000000000000000", "0xFFFFFFFFFFFFFFFF", "0xFFFFFFFFFFFFFFFFFF", "0x", "0xG", "0X1f", "0x_1",
        "0o7", "0o777", "0o1777777777777777777777", "0o7777777777777777777777777777", "0o8", "0o", "0b1", "0b0", "0b2", "0b",
        "0b1111111111111111111111111111111111111111111111111111111111111111", "0b11111111111111111111111111111111111111111111111111111111111111111111111",
        "1e308", "1e309", "1.7976931348623157e308", "1.7976931348623159e308", "-1e309", "1e-400", "5e-324", "4e-324", "2e-324", "1e99999999999999999999", "1e-99999999999999999999",
        "1E5", "1e+5", "1e-5", "1e05", "1e+", "1e-", "1e", "1E", ".5", "5.", "1.e3", "1.2.3", "1..2", "1...2", "1_e5", "1e_5", "1e5_", "1_.5", "1._5", "1.5_", "1__2", "1_", "_1",
        "12abc", "1x", "1f", "1j", "1L", "1u8", "1i64", "1.0f32", "1e5f", "00", "007", "0.0", "-0", "-0.0", "0e0", "0_0", "1_000_000", "1e1e1", "1.5.e3", "1.-5", "1e--5", "0.1e-0",
    ] {
        v.push(x.to_string());
    }
    v.sort();
    v.dedup();
    v
}

/// Every literal of `numeric_literals` in six syntactic positions (statement expression, const initialiser, match
/// pattern, slice bounds, parameter default, f-string interpolation).
pub fn numeric_cases() -> Vec<(&'static str, String)> {
    let mut out = Vec::new();
    for l in numeric_literals() {
        out.push(("numeric:statement", format!("def main() -> None:\n    {l}\n")));
        out.push(("numeric:const", format!("const C = {l}\n\ndef main() -> None:\n    println(C)\n")));
        out.push(("numeric:match-pattern", format!("def main() -> None:\n    x = 1\n    match x:\n        case {l}:\n            pass\n        case _:\n            pass\n")));
        out.push(("numeric:slice-bound", format!("def main() -> None:\n    xs = [1, 2, 3]\n    ys = xs[{l}:{l}]\n")));
        out.push(("numeric:default-value", format!("def f(a: int = {l}) -> int:\n    return a\n")));
        out.push(("numeric:fstring-interpolation", format!("def main() -> None:\n    println(f\"{{{l}}}\")\n")));
    }
    out
}

/// Token dictionary: every keyword / operator / punctuation spelling the registries know, plus layout characters.
pub fn dictionary() -> Vec<String> {
    let mut v: Vec<String> = Vec::new();
    for k in incan_core::lang::keywords::KEYWORDS.iter() {
        v.push(k.canonical.to_string());
        for a in k.aliases {
            v.push(a.to_string());
        }
    }
    for o in incan_core::lang::operators::OPERATORS.iter() {
        for s in o.spellings {
            v.push(s.to_string());
        }
    }
    for p in incan_core::lang::punctuation::PUNCTUATION.iter() {
        v.push(p.canonical.to_string());
    }
    for extra in ["\\x", "\\x4", "\\u", "\\u{", "\\0", "\\\n", "b\"\\x", "b'\\x", "f\"{", "é", "€", "😀", "\u{301}", "\"\"\"", "'''"] {
        v.push(extra.to_string());
    }
    for extra in ["9223372036854775807", "9223372036854775808", "18446744073709551616", "2147483648", "1e309", "1e-400", "0x", "0b", "0o", "_"] {
        v.push(extra.to_string());
    }
    for extra in ["\n", "\n    ", "\n        ", "\n\t", " ", "x", "self", "1", "2.5", "\"s\"", "f\"{x}\"", "b\"a\"", "#c", "\"\"\"", "println", "int", "str", "List", "Option", "Some", "Ok", "Err", "Result"] {
        v.push(extra.to_string());
    }
    v.sort();
    v.dedup();
    v
}

fn floor_cb(s: &str, mut i: usize) -> usize {
    i = i.min(s.len());
    while !s.is_char_boundary(i) {
        i -= 1;
    }
    i
}

fn at(raw: u16, len: usize) -> usize {
    crate::gen::idx(raw, len)
}

/// One mutation of `seed`. `class` selects the family, `r` are raw selectors. Returns (class name, text).
pub fn mutate(seed: &str, class: u8, r: &[u16; 6], dict: &[String]) -> (&'static str, String) {
    let tokens: Vec<Token> = lexer::lex(seed).unwrap_or_default();
    let real: Vec<&Token> = tokens.iter().filter(|t| t.span.end > t.span.start && t.span.end <= seed.len()).collect();
    let pos = |raw: u16| floor_cb(seed, at(raw, seed.len() + 1));
    let splice = |a: usize, b: usize, with: &str| format!("{}{}{}", &seed[..a], with, &seed[b..]);
    let lines: Vec<(usize, usize)> = {
        let mut v = Vec::new();
        let mut s = 0;
        for l in seed.split_inclusive('\n') {
            v.push((s, s + l.len()));
            s += l.len();
        }
        v
    };
    match class % 15 {
        0 if !real.is_empty() => {
            // token deletion (1..3 adjacent tokens)
            let i = at(r[0], real.len());
            let j = (i + (r[1] as usize % 3)).min(real.len() - 1);
            ("token-delete", splice(real[i].span.start, real[j].span.end, ""))
        }
        1 if !real.is_empty() => {
            let t = real[at(r[0], real.len())];
            let txt = &seed[t.span.start..t.span.end];
            let rep = 1 + r[1] as usize % 3;
            ("token-duplicate", splice(t.span.end, t.span.end, &format!(" {txt}").repeat(rep)))
        }
        2 if real.len() >= 2 => {
            let i = at(r[0], real.len());
            let j = at(r[1], real.len());
            let (i, j) = (i.min(j), i.max(j));
            if i == j || real[i].span.end > real[j].span.start {
                return ("token-swap", splice(real[i].span.start, real[i].span.end, ""));
            }
            let (a, b) = (real[i], real[j]);
            let s = format!(
                "{}{}{}{}{}",
                &seed[..a.span.start],
                &seed[b.span.start..b.span.end],
                &seed[a.span.end..b.span.start],
                &seed[a.span.start..a.span.end],
                &seed[b.span.end..]
            );
            ("token-swap", s)
        }
        3 => {
            // bracket unbalancing: delete a bracket, insert one, or replace one by another kind
            let brs: Vec<usize> = seed.char_indices().filter(|(_, c)| "()[]{}".contains(*c)).map(|(i, _)| i).collect();
            let b = ["(", ")", "[", "]", "{", "}"][r[2] as usize % 6];
            if brs.is_empty() || r[1] % 3 == 0 {
                let p = pos(r[0]);
                ("bracket-insert", splice(p, p, b))
            } else if r[1] % 3 == 1 {
                let p = brs[at(r[0], brs.len())];
                ("bracket-delete", splice(p, p + 1, ""))
            } else {
                let p = brs[at(r[0], brs.len())];
                ("bracket-replace", splice(p, p + 1, b))
            }
        }
        4 if !lines.is_empty() => {
            // indentation damage on 1..3 lines
            let mut s = seed.to_string();
            let n = 1 + r[5] as usize % 3;
            for k in 0..n {
                let ls: Vec<(usize, usize)> = {
                    let mut v = Vec::new();
                    let mut st = 0;
                    for l in s.split_inclusive('\n') {
                        v.push((st, st + l.len()));
                        st += l.len();
                    }
                    v
                };
                if ls.is_empty() {
                    break;
                }
                let (a, b) = ls[at(r[k].wrapping_add(k as u16 * 7919), ls.len())];
                let line = &s[a..b];
                let body = line.trim_start_matches([' ', '\t']);
                let cur = line.len() - body.len();
                let new_ws: String = match r[3].wrapping_add(k as u16) % 8 {
                    0 => String::new(),
                    1 => " ".repeat(cur + 1),
                    2 => " ".repeat(cur.saturating_sub(1)),
                    3 => " ".repeat(cur + 4),
                    4 => " ".repeat(cur.saturating_sub(4)),
                    5 => "\t".repeat(cur / 4 + 1),
                    6 => format!("{}\t", " ".repeat(cur % 3)),
                    _ => " ".repeat((r[4] % 17) as usize),
                };
                s = format!("{}{}{}{}", &s[..a], new_ws, body, &s[b..]);
            }
            ("indent-damage", s)
        }
        5 => {
            // unterminated / malformed literal spliced in (at a token boundary half of the time)
            let lit = BROKEN_LITERALS[r[1] as usize % BROKEN_LITERALS.len()];
            let p = if r[2] % 2 == 0 && !real.is_empty() { real[at(r[0], real.len())].span.start } else { pos(r[0]) };
            ("broken-literal", splice(p, p, lit))
        }
        6 => {
            // cut a string-like token short (drop its closing quote / truncate inside) or truncate the file inside it
            let strs: Vec<&&Token> = real.iter().filter(|t| matches!(t.kind, TokenKind::String(_) | TokenKind::FString(_) | TokenKind::Bytes(_))).collect();
            if strs.is_empty() {
                let p = pos(r[0]);
                return ("broken-literal", splice(p, p, "\""));
            }
            let t = strs[at(r[0], strs.len())];
            let inner = floor_cb(seed, t.span.start + 1 + at(r[1], t.span.end - t.span.start));
            match r[2] % 3 {
                0 => ("string-unclose", splice(t.span.end - 1, t.span.end, "")),
                1 => ("string-truncate-file", seed[..inner].to_string()),
                _ => ("string-cut", splice(inner, t.span.end, "")),
            }
        }
        7 => {
            // 1..4 scalars at random char boundaries
            let mut s = seed.to_string();
            for k in 0..(1 + r[5] as usize % 4) {
                let p = floor_cb(&s, at(r[k].wrapping_mul(31).wrapping_add(k as u16), s.len() + 1));
                s.insert_str(p, SCALARS[(r[4] as usize + k * 5) % SCALARS.len()]);
            }
            ("scalar-splice", s)
        }
        8 => {
            // stays lexically valid: non-ASCII text in comments and inside string tokens, then a semantic error
            // (undefined name, swapped identifiers, literal of another type) so that later stages produce diagnostics
            let mut s = String::new();
            if r[5] % 2 == 0 {
                s.push_str("# é😀 ünïcödé ☃ header\n");
            }
            let strs: Vec<&&Token> = real.iter().filter(|t| matches!(t.kind, TokenKind::String(_) | TokenKind::FString(_))).collect();
            let idents: Vec<&&Token> = real.iter().filter(|t| matches!(t.kind, TokenKind::Ident(_))).collect();
            let lits: Vec<&&Token> = real.iter().filter(|t| matches!(t.kind, TokenKind::Int(_) | TokenKind::Float(_))).collect();
            // collect replacements (start, end, text), apply right-to-left
            let mut reps: Vec<(usize, usize, String)> = Vec::new();
            if !strs.is_empty() {
                let t = strs[at(r[0], strs.len())];
                let txt = &seed[t.span.start..t.span.end];
                if !txt.starts_with("\"\"\"") && txt.len() >= 2 && !txt.contains('\n') {
                    let q = t.span.end - 1;
                    reps.push((q, q, "é€😀".to_string()));
                }
            }
            if !idents.is_empty() {
                let t = idents[at(r[1], idents.len())];
                let with = match r[2] % 4 {
                    0 => "undefined_zz".to_string(),
                    1 => {
                        let o = idents[at(r[3], idents.len())];
                        seed[o.span.start..o.span.end].to_string()
                    }
                    2 => "None".to_string(),
                    _ => "f\"ñ{undefined_zz.q}\"".to_string(),
                };
                reps.push((t.span.start, t.span.end, with));
            }
            if !lits.is_empty() && r[4] % 2 == 0 {
                let t = lits[at(r[3], lits.len())];
                reps.push((t.span.start, t.span.end, ["\"ß\"", "f\"é{nope}\"", "[1, \"ü\"]", "None"][r[4] as usize / 2 % 4].to_string()));
            }
            reps.sort_by_key(|x| std::cmp::Reverse(x.0));
            let mut body = seed.to_string();
            let mut last = usize::MAX;
            for (a, b, w) in reps {
                if b <= last {
                    body.replace_range(a..b, &w);
                    last = a;
                }
            }
            s.push_str(&body);
            ("valid-unicode+semantic-error", s)
        }
        9 if !real.is_empty() => {
            // literal replaced by a malformed / extreme number or an f-string with a broken sub-expression
            let cands: Vec<&&Token> = real
                .iter()
                .filter(|t| matches!(t.kind, TokenKind::Int(_) | TokenKind::Float(_) | TokenKind::String(_) | TokenKind::FString(_) | TokenKind::Ident(_)))
                .collect();
            if cands.is_empty() {
                return ("number-replace", format!("{seed}\nx = {}\n", NUMBERS[r[1] as usize % NUMBERS.len()]));
            }
            let t = cands[at(r[0], cands.len())];
            if r[2] % 2 == 0 {
                ("number-replace", splice(t.span.start, t.span.end, NUMBERS[r[1] as usize % NUMBERS.len()]))
            } else {
                ("fstring-replace", splice(t.span.start, t.span.end, BROKEN_LITERALS[5 + r[1] as usize % (BROKEN_LITERALS.len() - 5)]))
            }
        }
        10 => {
            // token soup from the dictionary
            let n = 1 + r[0] as usize % 60;
            let mut s = String::new();
            let mut z = (r[1] as u64) << 32 | (r[2] as u64) << 16 | r[3] as u64;
            for _ in 0..n {
                z = util::mix(z);
                s.push_str(&dict[(z % dict.len() as u64) as usize]);
                if z >> 60 > 3 {
                    s.push(' ');
                }
            }
            if r[4] % 2 == 0 {
                s.push('\n');
            }
            ("token-soup", s)
        }
        11 => {
            // nesting up to (and a little beyond) the bound; deeper inputs are skipped by the caller and counted
            let depth = 1 + (r[0] as usize % 80);
            let shape = r[1] % 10;
            let s = match shape {
                0 => format!("x = {}1{}\n", "(".repeat(depth), ")".repeat(depth)),
                1 => format!("x = {}1{}\n", "[".repeat(depth), "]".repeat(depth)),
                2 => format!("x = {}\n", "(".repeat(depth)),
                3 => format!("x = {}1\n", "{".repeat(depth)),
                4 => {
                    let mut s = String::from("def f() -> None:\n");
                    for d in 1..=depth {
                        s.push_str(&format!("{}if x:\n", "    ".repeat(d)));
                    }
                    s.push_str(&format!("{}pass\n", "    ".repeat(depth + 1)));
                    s
                }
                5 => format!("x = {}y\n", "not ".repeat(depth)),
                6 => format!("x = {}1\n", "-".repeat(depth)),
                7 => format!("x = {}a{}\n", "f(".repeat(depth), ")".repeat(depth)),
                8 => format!("x: {}int{} = 1\n", "List[".repeat(depth), "]".repeat(depth)),
                _ => {
                    let mut s = String::from("def f() -> None:\n");
                    for d in 1..=depth {
                        s.push_str(&format!("{}match x:\n{}case _:\n", "    ".repeat(2 * d - 1), "    ".repeat(2 * d)));
                    }
                    s.push_str(&format!("{}pass\n", "    ".repeat(2 * depth + 1)));
                    s
                }
            };
            ("nesting", s)
        }
        14 => {
            // escape shapes (see `escape_input`): literal kind x introducer x 0..3 following scalars, standalone or
            // spliced into the seed at a token boundary
            let nseq = r[2] as usize % 4;
            let seq: Vec<usize> = (0..nseq).map(|k| (r[3 + k.min(2)] as usize >> (k * 3)) % ESC_FOLLOW.len()).collect();
            if r[5] % 2 == 0 || real.is_empty() {
                let (_, t) = escape_input(r[0] as usize, r[1] as usize, &seq, r[5] as usize / 2);
                ("escape-shape", t)
            } else {
                let (_, lit) = escape_input(r[0] as usize, r[1] as usize, &seq, 2);
                let t = real[at(r[4], real.len())];
                ("escape-shape-in-seed", splice(t.span.start, t.span.end, lit.trim_start_matches("x = ")))
            }
        }
        12 if !lines.is_empty() => {
            // line-level damage: delete / duplicate / move a line, join two lines
            let (a, b) = lines[at(r[0], lines.len())];
            match r[1] % 4 {
                0 => ("line-delete", splice(a, b, "")),
                1 => ("line-duplicate", splice(b, b, &seed[a..b])),
                2 => {
                    let (c, _) = lines[at(r[2], lines.len())];
                    let line = seed[a..b].to_string();
                    let without = splice(a, b, "");
                    let c = floor_cb(&without, c.min(without.len()));
                    ("line-move", format!("{}{}{}", &without[..c], line, &without[c..]))
                }
                _ => {
                    let e = if b > a && seed.as_bytes()[b - 1] == b'\n' { b - 1 } else { b };
                    ("line-join", splice(e, b, " "))
                }
            }
        }
        _ => {
            // prefix / suffix / middle cut at char boundaries
            let p = pos(r[0]);
            let q = pos(r[1]);
            let (p, q) = (p.min(q), p.max(q));
            match r[2] % 3 {
                0 => ("cut-prefix", seed[..q].to_string()),
                1 => ("cut-suffix", seed[p..].to_string()),
                _ => ("cut-middle", splice(p, q, "")),
            }
        }
    }
}

/// Greedy text minimisation (line chunks, then character chunks) keeping `fails(text)` true. Bounded work.
pub fn minimize(text: &str, max_tests: usize, mut fails: impl FnMut(&str) -> bool) -> String {
    let mut cur = text.to_string();
    let mut tests = 0usize;
    // lines
    let mut chunk = cur.split_inclusive('\n').count().max(1) / 2;
    while chunk >= 1 && tests < max_tests {
        let lines: Vec<&str> = cur.split_inclusive('\n').collect();
        let mut i = 0;
        let mut changed = false;
        let mut out: Vec<&str> = lines.clone();
        while i < out.len() && tests < max_tests {
            let end = (i + chunk).min(out.len());
            let cand: String = out[..i].iter().chain(out[end..].iter()).copied().collect();
            tests += 1;
            if fails(&cand) {
                out.drain(i..end);
                changed = true;
            } else {
                i += chunk;
            }
        }
        let next: String = out.concat();
        cur = next;
        if !changed {
            chunk /= 2;
        }
    }
    // characters
    let mut chunk = (cur.chars().count() / 2).max(1);
    while chunk >= 1 && tests < max_tests {
        let chars: Vec<char> = cur.chars().collect();
        let mut out = chars.clone();
        let mut i = 0;
        let mut changed = false;
        while i < out.len() && tests < max_tests {
            let end = (i + chunk).min(out.len());
            let cand: String = out[..i].iter().chain(out[end..].iter()).collect();
            tests += 1;
            if fails(&cand) {
                out.drain(i..end);
                changed = true;
            } else {
                i += chunk;
            }
        }
        cur = out.into_iter().collect();
        if !changed {
            if chunk == 1 {
                break;
            }
            chunk /= 2;
        }
    }
    cur
}
