//! G-syn — the shared grammar-directed syntax generator (DESIGN.md §1.1).
//!
//! Produces *source text that parses* (it need not type-check) and covers every `Declaration`, `Statement`, `Expr`,
//! `Pattern`, `Type` and `Literal` variant of `incan_syntax::ast` the parser can produce, both states of every
//! optional field, and the alternative spellings the parser accepts (`def`/`fn`, `case`/`=>`, quote styles,
//! `pass`/`...`, import path styles, newtype spellings, trailing commas, multi-line brackets, comments, indent unit).
//!
//! # API
//!
//! ```ignore
//! let cfg = GsynConfig::default().without("param.mut");           // feature switch off (known finding)
//! let strat = gsyn::program(&cfg);                                // Strategy<Value = GenProgram>
//! let trees = vcore::gen::batch(&strat, &mut runner, 1000);       // proptest value trees: shrinking works on the
//! let p: GenProgram = trees[0].current();                         //   harness tree, text is re-rendered
//! p.source; p.tags; p.parsed
//! gsyn::program_tree(&cfg)  -> Strategy<Value = GProgram>         // the harness tree itself (C10 wants structure)
//! gsyn::render(&tree)       -> GenProgram                         // tree -> text (+ tags)
//! gsyn::ast_tags(&program)  -> BTreeSet<Tag>                      // same tag vocabulary, from a *real* AST (seeds)
//! gsyn::all_tags()          -> &[Tag]                             // for coverage tables: what was never produced
//! gsyn::all_switches()      -> &[(Tag, &str)]                     // feature switches understood by `GsynConfig::off`
//! gsyn::parse(src)          -> Result<Program, String>            // lex + parse with the real front end
//! ```
//!
//! Size/depth stress classes (same value type, same rendering/tags/shrinking): `gsyn::stress::deep(&cfg)` (6..=16 nested
//! blocks incl. match arms and methods), `gsyn::stress::long(&cfg)` (one construct far beyond any line length),
//! `gsyn::stress::many(&cfg)` (50..=70 declarations). `gsyn::max_indent_columns(src)` measures the deepest indentation.
//!
//! * `GenProgram::tags` = AST-observable tags (node kinds + optional-field states, computed by parsing the rendered
//!   text with the real parser and scanning the AST, so they are truthful) + `surface.*` tags for spellings the AST
//!   does not record (computed by the renderer).
//! * `GenProgram::parsed` is false when the real lexer/parser rejected the text: that is *generator noise* — the
//!   consumer discards and counts it, it is never a violation. The fraction must be near zero.
//! * Feature switches: a switch name is the tag of the construct it disables. A construct whose switch is in
//!   `GsynConfig::off` is never produced (by construction, not by rejection).
//! * `Match` / `If` *expressions* are block-structured; the lexer drops NEWLINE/INDENT inside brackets, so they are
//!   generated only in tail position at bracket depth 0 (assignment value, `return` value, expression statement,
//!   inline arm body).
//! * Not reachable from text (listed in `UNREACHABLE_TAGS`): `Expr::Constructor`, `BindingKind::Reassign`, typed
//!   closure parameters, `Type::Tuple([])`, match arms with an empty block.

pub mod asttags;
pub mod render;
pub mod strat;
pub mod stress;
pub mod tree;

use proptest::prelude::*;
use std::collections::BTreeSet;

pub use asttags::ast_tags;
pub use tree::*;

pub type Tag = &'static str;

/// One generated program.
#[derive(Clone, Debug)]
pub struct GenProgram {
    pub source: String,
    /// node kinds + optional-field states present (see module docs)
    pub tags: BTreeSet<Tag>,
    /// the real lexer + parser accepted `source`
    pub parsed: bool,
}

#[derive(Clone, Debug)]
pub struct GsynConfig {
    /// switched-off constructs (see `all_switches`)
    pub off: BTreeSet<Tag>,
    pub max_decls: usize,
    /// statements per block
    pub max_body: usize,
    pub expr_depth: u32,
    pub stmt_depth: u32,
    /// false: canonical layout only (4 spaces, two blank lines, no comments, one final newline)
    pub layout_variation: bool,
}

impl Default for GsynConfig {
    fn default() -> Self {
        GsynConfig { off: BTreeSet::new(), max_decls: 4, max_body: 3, expr_depth: 3, stmt_depth: 2, layout_variation: true }
    }
}

impl GsynConfig {
    pub fn without(mut self, switch: Tag) -> Self {
        self.off.insert(switch);
        self
    }
    pub fn on(&self, switch: &str) -> bool {
        !self.off.contains(switch)
    }
    /// weight `w` if the switch is on, 0 otherwise
    pub fn w(&self, switch: &str, w: u32) -> u32 {
        if self.on(switch) {
            w
        } else {
            0
        }
    }
}

/// Feature switches: (name, what is no longer produced when the name is in `GsynConfig::off`).
pub fn all_switches() -> &'static [(Tag, &'static str)] {
    &[
        ("param.mut=1", "`mut` on a function/method parameter"),
        ("fn.type_params=1", "type parameters on a top-level function"),
        ("newtype.methods=1", "newtype with a method body"),
        ("lit.float.integral", "float literals whose value has no fractional part (1.0, 2e3, 1e300)"),
        ("decorator.arg.named_type", "decorator argument `name: Type`"),
        ("pattern.qualified", "qualified pattern `Type.Variant[(..)]`"),
        ("closure.params=1", "closures with at least one parameter"),
        ("arm.guard=1", "match arm guards (`case P if c:`)"),
        ("fstring.literal_special", "f-string literal text containing braces, quotes, backslashes or escapes"),
        ("lit.bytes.special", "byte strings whose value contains `\"` or `\\`"),
        ("expr.if", "`if` used as an expression"),
        ("expr.match", "`match` expressions"),
        ("slice.step_no_end", "slices with a step but no end (`x[a: :c]`)"),
        ("pattern.ctor.args=0", "constructor patterns with empty parentheses `Name()`"),
        ("assign.compound_target", "`obj.f op= e` / `obj[i] op= e` whose right side binds looser than `op`"),
        ("docstring.special", "module docstrings containing `\"` or `\\`"),
        ("import.path.crate_bare", "`import crate::` with no segment"),
        ("import.path.empty", "bare `import` / `import super` style empty paths"),
        ("import.python.special", "python import package strings containing `\"` or `\\`"),
        ("shape.paren_arm_after_block_arm", "a `(..)` pattern arm right after an arm whose inline body is a `match`/`if` expression"),
        ("expr.yield", "yield expressions"),
        ("expr.closure", "closures"),
        ("expr.fstring", "f-strings"),
        ("stmt.tuple_assign", "tuple assignment to lvalues"),
        ("stmt.chained", "chained assignment"),
        ("decl.docstring", "module-level docstrings"),
        ("type.tuple.single", "one-element tuple types `(A,)`"),
        ("type.generic.empty", "generic types with an empty argument list `Foo[]`"),
        ("lit.string.multiline", "triple-quoted strings with raw newlines"),
        ("surface.comment", "comments in the layout"),
        ("surface.indent.tab", "tab indentation"),
        ("surface.multiline_brackets", "line breaks inside brackets"),
    ]
}

/// AST shapes no source text can produce (kept so coverage tables can say why they are never hit).
pub const UNREACHABLE_TAGS: &[Tag] = &["expr.constructor", "binding.reassign", "closure.param.typed"];

/// Every tag G-syn or `ast_tags` can emit.
pub fn all_tags() -> &'static [Tag] {
    asttags::ALL_TAGS
}

/// Lex + parse with the real front end.
pub fn parse(src: &str) -> Result<incan_syntax::ast::Program, String> {
    let tokens = incan_syntax::lexer::lex(src).map_err(|e| format!("lex: {}", e.first().map(|e| e.message.clone()).unwrap_or_default()))?;
    incan_syntax::parser::parse(&tokens).map_err(|e| format!("parse: {}", e.first().map(|e| e.message.clone()).unwrap_or_default()))
}

/// Render a harness tree to text, parse it with the real parser and collect tags.
pub fn render(p: &GProgram) -> GenProgram {
    let (source, mut tags) = render::render_program(p);
    let parsed = match crate::util::catch(|| parse(&source)) {
        Ok(Ok(prog)) => {
            tags.extend(ast_tags(&prog));
            true
        }
        _ => false,
    };
    GenProgram { source, tags, parsed }
}

/// Strategy over harness trees.
pub fn program_tree(cfg: &GsynConfig) -> BoxedStrategy<GProgram> {
    strat::program(cfg)
}

/// Strategy over rendered programs (shrinks on the tree).
pub fn program(cfg: &GsynConfig) -> BoxedStrategy<GenProgram> {
    strat::program(cfg).prop_map(|t| render(&t)).boxed()
}

/// Deepest indentation (in columns) of any non-blank line: a cheap measure of block nesting for evidence tables.
pub fn max_indent_columns(src: &str) -> usize {
    src.lines().filter(|l| !l.trim().is_empty()).map(|l| l.len() - l.trim_start().len()).max().unwrap_or(0)
}
