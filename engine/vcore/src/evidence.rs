use crate::args::Args;
use serde_json::{json, Map, Value};
use std::collections::{BTreeMap, HashSet};
use std::time::Instant;

/// Evidence accumulator. All counts are incremented by the check as it runs.
pub struct Evidence {
    pub prop: String,
    pub tier: &'static str,
    pub seed: u64,
    pub level: &'static str,
    start: Instant,
    pub evaluations: u64,
    nontrivial: HashSet<u64>,
    pub rule: String,
    samples: Vec<Value>,
    pub max_samples: usize,
    classes: BTreeMap<String, u64>,
    discarded: BTreeMap<String, u64>,
    excluded: BTreeMap<String, u64>,
    extra: Map<String, Value>,
    pub assumptions: Vec<String>,
    pub violations: u64,
    pub exhaustive: Option<bool>,
    /// replay runs judge one saved input: their (tiny) evidence goes to work/replay-evidence/, never to evidence/
    pub replay: bool,
}

impl Evidence {
    pub fn new(args: &Args, rule: &str) -> Evidence {
        Evidence {
            prop: args.prop.clone(),
            tier: args.tier.name(),
            seed: args.seed,
            level: "exploration",
            start: Instant::now(),
            evaluations: 0,
            nontrivial: HashSet::new(),
            rule: rule.to_string(),
            samples: Vec::new(),
            max_samples: 8,
            classes: BTreeMap::new(),
            discarded: BTreeMap::new(),
            excluded: BTreeMap::new(),
            extra: Map::new(),
            assumptions: Vec::new(),
            violations: 0,
            exhaustive: None,
            replay: args.replay.is_some(),
        }
    }

    /// One generated case was evaluated. `nontrivial_id` is Some(hash identifying the case) when
    /// the case is non-trivial by the check's rule; distinctness is measured with a hash set.
    pub fn case(&mut self, nontrivial_id: Option<u64>) {
        self.evaluations += 1;
        if let Some(h) = nontrivial_id {
            self.nontrivial.insert(h);
        }
    }
    pub fn cases(&mut self, n: u64) {
        self.evaluations += n;
    }
    pub fn nontrivial(&mut self, id: u64) {
        self.nontrivial.insert(id);
    }
    pub fn nontrivial_count(&self) -> usize {
        self.nontrivial.len()
    }
    pub fn class(&mut self, name: &str) {
        *self.classes.entry(name.to_string()).or_insert(0) += 1;
    }
    pub fn class_n(&mut self, name: &str, n: u64) {
        *self.classes.entry(name.to_string()).or_insert(0) += n;
    }
    pub fn discard(&mut self, reason: &str) {
        *self.discarded.entry(reason.to_string()).or_insert(0) += 1;
    }
    pub fn exclude(&mut self, finding: &str) {
        *self.excluded.entry(finding.to_string()).or_insert(0) += 1;
    }
    pub fn exclude_n(&mut self, finding: &str, n: u64) {
        *self.excluded.entry(finding.to_string()).or_insert(0) += n;
    }
    pub fn sample(&mut self, v: Value) {
        if self.samples.len() < self.max_samples {
            self.samples.push(v);
        }
    }
    pub fn want_sample(&self) -> bool {
        self.samples.len() < self.max_samples
    }
    pub fn set(&mut self, key: &str, v: Value) {
        self.extra.insert(key.to_string(), v);
    }
    pub fn add(&mut self, key: &str, n: u64) {
        let cur = self.extra.get(key).and_then(|v| v.as_u64()).unwrap_or(0);
        self.extra.insert(key.to_string(), json!(cur + n));
    }
    pub fn assume(&mut self, s: &str) {
        self.assumptions.push(s.to_string());
    }

    pub fn to_json(&self) -> Value {
        let mut cov = Map::new();
        cov.insert("evaluations".into(), json!(self.evaluations));
        cov.insert("distinct_nontrivial".into(), json!(self.nontrivial.len()));
        cov.insert("rule".into(), json!(self.rule));
        cov.insert("samples".into(), Value::Array(self.samples.clone()));
        if let Some(e) = self.exhaustive {
            cov.insert("exhaustive".into(), json!(e));
        }
        if !self.classes.is_empty() {
            cov.insert("classes".into(), json!(self.classes));
        }
        if !self.discarded.is_empty() {
            cov.insert("discarded".into(), json!(self.discarded));
        }
        if !self.excluded.is_empty() {
            cov.insert("excluded_by_known_finding".into(), json!(self.excluded));
        }
        for (k, v) in &self.extra {
            cov.insert(k.clone(), v.clone());
        }
        json!({
            "property_id": self.prop,
            "tier": self.tier,
            "seed": self.seed,
            "level": self.level,
            "coverage": Value::Object(cov),
            "assumptions": self.assumptions,
            "wall_s": self.start.elapsed().as_secs_f64(),
            "violations": self.violations,
        })
    }

    pub fn write(&self) {
        let dir = if self.replay { crate::verif_root().join("work").join("replay-evidence") } else { crate::verif_root().join("evidence") };
        let _ = std::fs::create_dir_all(&dir);
        let path = dir.join(format!("{}.json", self.prop));
        let text = serde_json::to_string_pretty(&self.to_json()).unwrap_or_else(|_| "{}".into());
        if let Err(e) = std::fs::write(&path, text + "\n") {
            eprintln!("cannot write evidence {}: {e}", path.display());
        }
    }
}
