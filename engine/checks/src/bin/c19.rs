//! C19 — editor positions and byte offsets convert consistently.
//!
//! Exhaustive sweep over all documents up to a length bound on a 7-symbol alphabet (ASCII, 2/3/4-byte scalars,
//! LF, CR, space) x all char-boundary offsets x all positions in a bounding box x all span pairs, plus
//! proptest-generated longer documents. Oracle: an independent line/character reference (count '\n', count
//! scalars since the last '\n').

use incan::frontend::diagnostics::{format_error, CompileError};
use incan::frontend::ast::Span;
use incan::lsp::diagnostics::{compile_error_to_diagnostic, offset_to_position, position_to_offset, span_to_range};
use proptest::prelude::*;
use proptest::strategy::ValueTree;
use serde_json::json;
use tower_lsp::lsp_types::{Position, Range, Url};
use vcore::{util, Args, Evidence, Outcome, Tier};

const ALPHABET: [char; 7] = ['a', 'é', '€', '😀', '\n', '\r', ' '];

struct Fail {
    key: String,
    what: String,
}

/// Reference: (line, character) of byte offset `o` (a char boundary <= len).
fn ref_pos(doc: &str, o: usize) -> (u32, u32) {
    let before = &doc[..o];
    let line = before.matches('\n').count() as u32;
    let last = before.rfind('\n').map(|i| i + 1).unwrap_or(0);
    (line, before[last..].chars().count() as u32)
}

/// Char length of every line (lines are separated by '\n'; the '\r' of a CRLF counts as a character).
fn line_lens(doc: &str) -> Vec<u32> {
    doc.split('\n').map(|l| l.chars().count() as u32).collect()
}

fn valid_pos(lens: &[u32], p: Position) -> bool {
    (p.line as usize) < lens.len() && p.character <= lens[p.line as usize]
}

fn range_ok(lens: &[u32], r: &Range) -> bool {
    (r.start.line, r.start.character) <= (r.end.line, r.end.character) && valid_pos(lens, r.start) && valid_pos(lens, r.end)
}

fn boundaries(doc: &str) -> Vec<usize> {
    let mut v: Vec<usize> = doc.char_indices().map(|(i, _)| i).collect();
    v.push(doc.len());
    v
}

/// Strip ANSI escapes.
fn strip_ansi(s: &str) -> String {
    let mut out = String::new();
    let mut it = s.chars().peekable();
    while let Some(c) = it.next() {
        if c == '\x1b' {
            for d in it.by_ref() {
                if d == 'm' {
                    break;
                }
            }
        } else {
            out.push(c);
        }
    }
    out
}

/// Judge one document completely. `span_budget`: None = all span pairs, Some(stride) = every stride-th pair.
fn judge_doc(doc: &str, all_spans: bool, counters: &mut (u64, u64, u64)) -> Vec<Fail> {
    let mut fails = Vec::new();
    let len = doc.len();
    let lens = line_lens(doc);
    let bs = boundaries(doc);
    let uri = Url::parse("file:///t.incn").unwrap();

    // 1. offset -> position: equals reference, round-trips, strictly monotone
    let mut prev: Option<(u32, u32)> = None;
    for &o in &bs {
        counters.0 += 1;
        let r = util::catch(|| offset_to_position(doc, o));
        let p = match r {
            Ok(p) => p,
            Err(m) => {
                fails.push(Fail { key: "offset_to_position:panic".into(), what: format!("offset {o}: {m}") });
                continue;
            }
        };
        let want = ref_pos(doc, o);
        if (p.line, p.character) != want {
            fails.push(Fail {
                key: "offset_to_position:wrong".into(),
                what: format!("offset {o}: got ({},{}) want {:?}", p.line, p.character, want),
            });
        }
        match util::catch(|| position_to_offset(doc, p)) {
            Ok(Some(back)) if back == o => {}
            Ok(other) => fails.push(Fail {
                key: "roundtrip".into(),
                what: format!("offset {o} -> ({},{}) -> {:?}", p.line, p.character, other),
            }),
            Err(m) => fails.push(Fail { key: "position_to_offset:panic".into(), what: format!("pos of offset {o}: {m}") }),
        }
        if let Some(pp) = prev {
            if !(pp < (p.line, p.character)) {
                fails.push(Fail {
                    key: "monotone".into(),
                    what: format!("offset {o}: position ({},{}) not after {:?}", p.line, p.character, pp),
                });
            }
        }
        prev = Some((p.line, p.character));
    }
    // offsets past the end clamp to the end position
    for extra in 1..=3 {
        let p = offset_to_position(doc, len + extra);
        if (p.line, p.character) != ref_pos(doc, len) {
            fails.push(Fail { key: "offset_to_position:past-end".into(), what: format!("offset len+{extra}") });
        }
    }

    // 2. position -> offset over a bounding box: None or an in-bounds char boundary; valid positions map back
    let max_col = lens.iter().copied().max().unwrap_or(0);
    for l in 0..(lens.len() as u32 + 2) {
        for c in 0..(max_col + 3) {
            counters.1 += 1;
            let p = Position::new(l, c);
            match util::catch(|| position_to_offset(doc, p)) {
                Ok(None) => {
                    if valid_pos(&lens, p) {
                        fails.push(Fail { key: "position_to_offset:valid-none".into(), what: format!("({l},{c}) is a valid position but maps to None") });
                    }
                }
                Ok(Some(x)) => {
                    if x > len || !doc.is_char_boundary(x) {
                        fails.push(Fail { key: "position_to_offset:out-of-bounds".into(), what: format!("({l},{c}) -> {x}") });
                    } else if valid_pos(&lens, p) && ref_pos(doc, x) != (l, c) {
                        fails.push(Fail { key: "position_to_offset:wrong".into(), what: format!("({l},{c}) -> {x} which is {:?}", ref_pos(doc, x)) });
                    }
                }
                Err(m) => fails.push(Fail { key: "position_to_offset:panic".into(), what: format!("({l},{c}): {m}") }),
            }
        }
    }

    // 3. spans (empty, reversed, past the end): range inside the document, start <= end; same via diagnostics;
    //    terminal rendering: line number = reference, column = byte or char column, never panics
    let mut ends: Vec<usize> = bs.clone();
    ends.extend([len + 1, len + 2, len + 3]);
    let stride = if all_spans { 1 } else { 1 + ends.len() / 12 };
    for (si, &s) in ends.iter().enumerate() {
        for (ei, &e) in ends.iter().enumerate() {
            if !all_spans && (si * 7 + ei) % stride != 0 && s != e && e != len && s != len {
                continue;
            }
            counters.2 += 1;
            match util::catch(|| span_to_range(doc, s, e)) {
                Ok(r) => {
                    if !range_ok(&lens, &r) {
                        fails.push(Fail { key: "span_to_range:bad-range".into(), what: format!("span ({s},{e}) -> {:?}", r) });
                    }
                    // the range start is the position of the (clamped) span start
                    let want = ref_pos(doc, s.min(len));
                    if (r.start.line, r.start.character) != want {
                        fails.push(Fail { key: "span_to_range:start".into(), what: format!("span ({s},{e}) start {:?} want {:?}", r.start, want) });
                    }
                }
                Err(m) => fails.push(Fail { key: "span_to_range:panic".into(), what: format!("span ({s},{e}): {m}") }),
            }
            let err = CompileError::type_error("m".to_string(), Span { start: s, end: e }).with_hint("h").with_note("n");
            match util::catch(|| compile_error_to_diagnostic(&err, doc, &uri)) {
                Ok(d) => {
                    let mut ok = range_ok(&lens, &d.range);
                    if let Some(rel) = &d.related_information {
                        for ri in rel {
                            ok &= range_ok(&lens, &ri.location.range);
                        }
                    }
                    if !ok {
                        fails.push(Fail { key: "diagnostic:bad-range".into(), what: format!("span ({s},{e}) -> {:?}", d.range) });
                    }
                }
                Err(m) => fails.push(Fail { key: "diagnostic:panic".into(), what: format!("span ({s},{e}): {m}") }),
            }
            match util::catch(|| format_error("f.incn", doc, &err)) {
                Ok(text) => {
                    let plain = strip_ansi(&text);
                    let loc = plain.lines().find_map(|l| l.trim_start().strip_prefix("--> f.incn:").map(|x| x.to_string()));
                    let so = s.min(len);
                    let (rl, rc) = ref_pos(doc, so);
                    let line_start = doc[..so].rfind('\n').map(|i| i + 1).unwrap_or(0);
                    let bytecol = so - line_start;
                    match loc.and_then(|l| {
                        let mut it = l.trim().split(':');
                        Some((it.next()?.parse::<u64>().ok()?, it.next()?.parse::<u64>().ok()?))
                    }) {
                        Some((l, c)) => {
                            if l != rl as u64 + 1 {
                                fails.push(Fail { key: "format_error:line".into(), what: format!("span ({s},{e}) line {l} want {}", rl + 1) });
                            }
                            if c != rc as u64 + 1 && c != bytecol as u64 + 1 {
                                fails.push(Fail { key: "format_error:col".into(), what: format!("span ({s},{e}) col {c} want {} or {}", rc + 1, bytecol + 1) });
                            }
                        }
                        None => fails.push(Fail { key: "format_error:no-location".into(), what: format!("span ({s},{e}): {plain:?}") }),
                    }
                }
                Err(m) => fails.push(Fail { key: "format_error:panic".into(), what: format!("span ({s},{e}): {m}") }),
            }
        }
    }
    fails
}

fn nontrivial(doc: &str) -> bool {
    doc.chars().any(|c| c.len_utf8() > 1 || c == '\r') || doc.contains("\n\n") || doc.starts_with('\n') || !doc.ends_with('\n')
}

fn report(out: &mut Outcome, ev: &mut Evidence, doc: &str, fails: &[Fail]) {
    for f in fails {
        if out.seen(&f.key) {
            ev.violations += 1;
            continue;
        }
        let body = serde_json::to_string_pretty(&json!({"doc": doc, "signature": f.key, "what": f.what})).unwrap();
        out.violation(ev, &f.key, "json", &body, &format!("doc={doc:?}\n{}", f.what));
    }
}

fn main() {
    let args = Args::parse("C19");
    util::install_quiet_panic_hook();
    let mut out = Outcome::new("C19");
    let mut ev = Evidence::new(
        &args,
        "exhaustive: all documents of length <= N over {a,é,€,😀,LF,CR,space} x all char-boundary offsets x all positions \
         in a bounding box x all (start,end) span pairs up to len+3; random: proptest documents <= 300 scalars with LF/CRLF \
         mixes. A document is non-trivial if it has a multi-byte scalar, a CR, an empty line or no final newline; distinct = \
         document hash.",
    );
    ev.assume("spans handed to the editor/terminal renderers lie on char boundaries or past the end (C11 establishes that)");
    ev.assume("terminal column may be the byte column or the character column (the statement does not say which)");

    if let Some(path) = &args.replay {
        let text = std::fs::read_to_string(path).unwrap_or_default();
        let doc = serde_json::from_str::<serde_json::Value>(&text)
            .ok()
            .and_then(|v| v["doc"].as_str().map(|s| s.to_string()))
            .unwrap_or(text);
        let mut counters = (0, 0, 0);
        let fails = judge_doc(&doc, true, &mut counters);
        ev.case(Some(util::hash_str(&doc)));
        ev.nontrivial(1);
        ev.sample(json!({"doc": doc}));
        report(&mut out, &mut ev, &doc, &fails);
        std::process::exit(out.finish(&ev));
    }

    let max_len = args.tier.pick(5usize, 6usize);
    let mut counters = (0u64, 0u64, 0u64);

    // ---- exhaustive sweep (parallel over first symbol choice blocks)
    use rayon::prelude::*;
    let mut docs: Vec<String> = vec![String::new()];
    let mut frontier = vec![String::new()];
    for _ in 0..max_len {
        let mut next = Vec::with_capacity(frontier.len() * ALPHABET.len());
        for d in &frontier {
            for c in ALPHABET {
                let mut n = d.clone();
                n.push(c);
                next.push(n);
            }
        }
        docs.extend(next.iter().cloned());
        frontier = next;
    }
    let results: Vec<(Vec<Fail>, (u64, u64, u64))> = docs
        .par_iter()
        .map(|d| {
            let mut c = (0, 0, 0);
            let f = judge_doc(d, true, &mut c);
            (f, c)
        })
        .collect();
    for (d, (fails, c)) in docs.iter().zip(results.iter()) {
        counters.0 += c.0;
        counters.1 += c.1;
        counters.2 += c.2;
        ev.case(if nontrivial(d) { Some(util::hash_str(d)) } else { None });
        if !fails.is_empty() {
            report(&mut out, &mut ev, d, fails);
        }
    }
    ev.class_n("exhaustive_documents", docs.len() as u64);
    for i in [7usize, 300, 5000, 12000] {
        if let Some(d) = docs.get(i) {
            ev.sample(json!({"doc": d, "kind": "exhaustive"}));
        }
    }

    // ---- random longer documents
    let n_random = args.tier.pick(3_000usize, 200_000usize);
    let piece = prop_oneof![
        4 => "[a-z ]{0,12}".prop_map(|s| s),
        2 => Just("\n".to_string()),
        2 => Just("\r\n".to_string()),
        1 => Just("\r".to_string()),
        2 => proptest::char::any().prop_map(|c| c.to_string()),
        1 => Just("é€😀".to_string()),
        1 => Just("\u{301}".to_string()),
    ];
    let strat = proptest::collection::vec(piece, 0..40).prop_map(|v| {
        let s: String = v.concat();
        s.chars().take(300).collect::<String>()
    });
    let mut runner = vcore::gen::runner(args.subseed(19));
    let mut trees = vcore::gen::batch(&strat, &mut runner, n_random);
    let rdocs: Vec<String> = trees.iter().map(|t| t.current()).collect();
    let rres: Vec<(Vec<Fail>, (u64, u64, u64))> = rdocs
        .par_iter()
        .map(|d| {
            let mut c = (0, 0, 0);
            let f = judge_doc(d, false, &mut c);
            (f, c)
        })
        .collect();
    for (i, (d, (fails, c))) in rdocs.iter().zip(rres.iter()).enumerate() {
        counters.0 += c.0;
        counters.1 += c.1;
        counters.2 += c.2;
        ev.case(if nontrivial(d) { Some(util::hash_str(d)) } else { None });
        if i % (n_random / 3).max(1) == 1 {
            ev.sample(json!({"doc": util::truncate(d, 200), "kind": "random"}));
        }
        if let Some(first) = fails.first() {
            if !out.seen(&first.key) {
                // shrink with proptest, keeping the same signature
                let key = first.key.clone();
                let small = vcore::gen::shrink(&mut trees[i], 400, |doc: &String| {
                    let mut c = (0, 0, 0);
                    judge_doc(doc, true, &mut c).iter().any(|f| f.key == key)
                });
                let mut c = (0, 0, 0);
                let f2 = judge_doc(&small, true, &mut c);
                report(&mut out, &mut ev, &small, &f2);
            } else {
                ev.violations += 1;
            }
        }
    }
    ev.class_n("random_documents", rdocs.len() as u64);
    ev.set("offset_evaluations", json!(counters.0));
    ev.set("position_evaluations", json!(counters.1));
    ev.set("span_evaluations", json!(counters.2));
    ev.set("exhaustive_max_len", json!(max_len));
    ev.exhaustive = Some(true);
    ev.set("exhaustive_scope", json!(format!("documents of length <= {max_len} over the 7-symbol alphabet; the random leg is sampled")));
    let _ = Tier::Quick;
    std::process::exit(out.finish(&ev));
}
