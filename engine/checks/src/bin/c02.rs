fn main() { vcore::gprog_check::main("C02") }
