//! C03 — ill-typed programs are rejected with a located diagnostic.
//!
//! Generator: `context skeleton x violation`. A case is (rule, root, nesting path, how many scopes above the hole the
//! rule's binding is declared, variant bytes). The renderer produces two programs from it: the *violating* program
//! (one instance of a listed static rule broken inside the hole) and its *valid twin* (the same program with the
//! edit undone / made type-correct), plus the byte range of the smallest statement / declaration containing the
//! edit.
//!
//! Oracle: (1) the twin is accepted by `TypeChecker::check_with_imports` (else generator noise: discarded and
//! counted); (2) the violating program is rejected and at least one error has `construct.start <= span.start <=
//! construct.end`. "rejected at all" and "located" are separate signatures. A sample is replayed through the real
//! CLI `incan --check`.

use incan::frontend::diagnostics::CompileError;
use incan::frontend::typechecker::TypeChecker;
use incan::frontend::{lexer, parser};
use proptest::prelude::*;
use proptest::strategy::ValueTree;
use rayon::prelude::*;
use serde_json::{json, Value};
use std::collections::BTreeMap;
use std::time::Duration;
use vcore::farm as vf;
use vcore::{util, Args, Evidence, Outcome};

// ---------------------------------------------------------------------------------------------------------------------
// Context skeleton
// ---------------------------------------------------------------------------------------------------------------------

#[derive(Clone, Copy, Debug, PartialEq, Eq, Hash, PartialOrd, Ord)]
enum Root {
    Func,
    ModelMethod,
    ClassMethod,
    NewtypeMethod,
    TraitDefault,
}
const ROOTS: [Root; 5] = [Root::Func, Root::ModelMethod, Root::ClassMethod, Root::NewtypeMethod, Root::TraitDefault];
impl Root {
    fn name(self) -> &'static str {
        match self {
            Root::Func => "function",
            Root::ModelMethod => "model-method",
            Root::ClassMethod => "class-method",
            Root::NewtypeMethod => "newtype-method",
            Root::TraitDefault => "trait-default-method",
        }
    }
    fn from_name(s: &str) -> Option<Root> {
        ROOTS.iter().copied().find(|r| r.name() == s)
    }
    fn is_method(self) -> bool {
        self != Root::Func
    }
}

#[derive(Clone, Copy, Debug, PartialEq, Eq, Hash, PartialOrd, Ord)]
enum Nest {
    If,
    Elif,
    Else,
    While,
    For,
    CaseBlock,
    CaseInline,
    ArrowBlock,
    ArrowInline,
    Closure,
    CompElem,
    CompFilter,
    DictCompVal,
    DictCompKey,
    DictCompFilter,
    IfCond,
    ElifCond,
    WhileCond,
}
const NESTS: [Nest; 18] = [
    Nest::If,
    Nest::Elif,
    Nest::Else,
    Nest::While,
    Nest::For,
    Nest::CaseBlock,
    Nest::CaseInline,
    Nest::ArrowBlock,
    Nest::ArrowInline,
    Nest::Closure,
    Nest::CompElem,
    Nest::CompFilter,
    Nest::DictCompVal,
    Nest::DictCompKey,
    Nest::DictCompFilter,
    Nest::IfCond,
    Nest::ElifCond,
    Nest::WhileCond,
];
impl Nest {
    fn name(self) -> &'static str {
        match self {
            Nest::If => "if",
            Nest::Elif => "elif",
            Nest::Else => "else",
            Nest::While => "while",
            Nest::For => "for",
            Nest::CaseBlock => "match-case-block",
            Nest::CaseInline => "match-case-inline",
            Nest::ArrowBlock => "match-arrow-block",
            Nest::ArrowInline => "match-arrow-inline",
            Nest::Closure => "closure",
            Nest::CompElem => "comp-element",
            Nest::CompFilter => "comp-filter",
            Nest::DictCompVal => "dictcomp-value",
            Nest::DictCompKey => "dictcomp-key",
            Nest::DictCompFilter => "dictcomp-filter",
            Nest::IfCond => "if-condition",
            Nest::ElifCond => "elif-condition",
            Nest::WhileCond => "while-condition",
        }
    }
    fn from_name(s: &str) -> Option<Nest> {
        NESTS.iter().copied().find(|r| r.name() == s)
    }
    fn is_block(self) -> bool {
        matches!(self, Nest::If | Nest::Elif | Nest::Else | Nest::While | Nest::For | Nest::CaseBlock | Nest::ArrowBlock)
    }
    fn is_inline(self) -> bool {
        matches!(self, Nest::CaseInline | Nest::ArrowInline)
    }
    fn is_expr(self) -> bool {
        matches!(
            self,
            Nest::Closure | Nest::CompElem | Nest::CompFilter | Nest::DictCompVal | Nest::DictCompKey | Nest::DictCompFilter
        )
    }
    /// the hole is (inside) the condition of a statement: legal where a statement is, holds an expression
    fn is_cond(self) -> bool {
        matches!(self, Nest::IfCond | Nest::ElifCond | Nest::WhileCond)
    }
    /// the inner expression is used as a condition / dict key: closures cannot stand there directly
    fn needs_plain_value(self) -> bool {
        self.is_cond() || matches!(self, Nest::CompFilter | Nest::DictCompFilter | Nest::DictCompKey)
    }
    fn is_elif(self) -> bool {
        matches!(self, Nest::Elif | Nest::ElifCond)
    }
}

// ---------------------------------------------------------------------------------------------------------------------
// Rules
// ---------------------------------------------------------------------------------------------------------------------

/// Which syntactic shapes the hole filler of a rule can take.
#[derive(Clone, Copy, Debug, PartialEq, Eq)]
enum Kind {
    /// an expression: usable as a statement, as an inline arm body, and inside closures / comprehensions
    Expr,
    /// a `return` statement: block or inline arm
    Return,
    /// a one-line statement: block contexts only
    Stmt,
    /// a multi-line `match` statement: block contexts only
    Match,
    /// a declaration (trait adoption): no nesting path
    Decl,
}

#[derive(Clone, Copy, Debug, PartialEq, Eq, Hash, PartialOrd, Ord)]
enum Rule {
    UnknownValue,
    UnknownCallee,
    UnknownField,
    UnknownMethod,
    AssignAnnotated,
    AssignReassign,
    AssignCompound,
    AssignField,
    AssignIndex,
    ReturnType,
    PassPositional,
    PassNamed,
    PassPositionalNonScalar,
    PassNamedNonScalar,
    PassMethod,
    PassMethodNamed,
    PassCtorField,
    Reassign,
    Compound,
    FieldWrite,
    IndexWrite,
    SelfFieldWrite,
    TryNonResult,
    TryOption,
    TryIncompatibleErr,
    TryInNonResultFn,
    MatchEnumUnit,
    MatchEnumData,
    MatchOption,
    MatchResult,
    CtorMissing,
    CtorDuplicate,
    CtorUnknown,
    TraitMissingMethod,
    TraitMissingField,
    TraitFieldType,
    /// informational only (docs are contradictory on whether `xs.append(..)` needs `mut xs`): never a violation
    InfoMutatingMethod,
}
const RULES: [Rule; 37] = [
    Rule::UnknownValue,
    Rule::UnknownCallee,
    Rule::UnknownField,
    Rule::UnknownMethod,
    Rule::AssignAnnotated,
    Rule::AssignReassign,
    Rule::AssignCompound,
    Rule::AssignField,
    Rule::AssignIndex,
    Rule::ReturnType,
    Rule::PassPositional,
    Rule::PassNamed,
    Rule::PassPositionalNonScalar,
    Rule::PassNamedNonScalar,
    Rule::PassMethod,
    Rule::PassMethodNamed,
    Rule::PassCtorField,
    Rule::Reassign,
    Rule::Compound,
    Rule::FieldWrite,
    Rule::IndexWrite,
    Rule::SelfFieldWrite,
    Rule::TryNonResult,
    Rule::TryOption,
    Rule::TryIncompatibleErr,
    Rule::TryInNonResultFn,
    Rule::MatchEnumUnit,
    Rule::MatchEnumData,
    Rule::MatchOption,
    Rule::MatchResult,
    Rule::CtorMissing,
    Rule::CtorDuplicate,
    Rule::CtorUnknown,
    Rule::TraitMissingMethod,
    Rule::TraitMissingField,
    Rule::TraitFieldType,
    Rule::InfoMutatingMethod,
];

impl Rule {
    fn name(self) -> &'static str {
        match self {
            Rule::UnknownValue => "unknown-name:value",
            Rule::UnknownCallee => "unknown-name:callee",
            Rule::UnknownField => "unknown-name:field",
            Rule::UnknownMethod => "unknown-name:method",
            Rule::AssignAnnotated => "wrong-type:assign-annotated",
            Rule::AssignReassign => "wrong-type:reassign",
            Rule::AssignCompound => "wrong-type:compound-assign",
            Rule::AssignField => "wrong-type:field-assign",
            Rule::AssignIndex => "wrong-type:index-assign",
            Rule::ReturnType => "wrong-type:return",
            Rule::PassPositional => "wrong-type:call-positional",
            Rule::PassNamed => "wrong-type:call-named",
            Rule::PassPositionalNonScalar => "wrong-type:call-positional-nonscalar",
            Rule::PassNamedNonScalar => "wrong-type:call-named-nonscalar",
            Rule::PassMethod => "wrong-type:method-arg",
            Rule::PassMethodNamed => "wrong-type:method-arg-named",
            Rule::PassCtorField => "wrong-type:ctor-field",
            Rule::Reassign => "immutable:reassign",
            Rule::Compound => "immutable:compound-assign",
            Rule::FieldWrite => "immutable:field-write",
            Rule::IndexWrite => "info:index-write",
            Rule::SelfFieldWrite => "immutable:self-field-write",
            Rule::TryNonResult => "try:non-result",
            Rule::TryOption => "try:option",
            Rule::TryIncompatibleErr => "try:incompatible-error",
            Rule::TryInNonResultFn => "try:in-non-result-fn",
            Rule::MatchEnumUnit => "match:enum-unit-variant",
            Rule::MatchEnumData => "match:enum-data-variant",
            Rule::MatchOption => "match:option",
            Rule::MatchResult => "match:result",
            Rule::CtorMissing => "ctor:missing-field",
            Rule::CtorDuplicate => "ctor:duplicate-field",
            Rule::CtorUnknown => "ctor:unknown-field",
            Rule::TraitMissingMethod => "trait:missing-method",
            Rule::TraitMissingField => "trait:missing-requires-field",
            Rule::TraitFieldType => "trait:requires-field-type",
            Rule::InfoMutatingMethod => "info:mutating-method",
        }
    }
    fn from_name(s: &str) -> Option<Rule> {
        RULES.iter().copied().find(|r| r.name() == s)
    }
    fn kind(self) -> Kind {
        use Rule::*;
        match self {
            UnknownValue | UnknownCallee | UnknownField | UnknownMethod | PassPositional | PassNamed | PassPositionalNonScalar
            | PassNamedNonScalar | PassMethod
            | PassMethodNamed | PassCtorField | TryNonResult | TryOption | TryIncompatibleErr | TryInNonResultFn
            | CtorMissing | CtorDuplicate | CtorUnknown => Kind::Expr,
            ReturnType => Kind::Return,
            AssignAnnotated | AssignReassign | AssignCompound | AssignField | AssignIndex | Reassign | Compound
            | FieldWrite | IndexWrite | SelfFieldWrite | InfoMutatingMethod => Kind::Stmt,
            MatchEnumUnit | MatchEnumData | MatchOption | MatchResult => Kind::Match,
            TraitMissingMethod | TraitMissingField | TraitFieldType => Kind::Decl,
        }
    }
    /// Recorded, never judged. `xs.append(..)` and `d[k] = v` through a binding that is not `mut`: the statement says
    /// "mutating a binding not declared `mut`", but the docs' own tutorial (book/08_collections_and_iteration.md) writes
    /// `name_counts: Dict[str, int] = {}` followed by `name_counts[name] = ..`, and tutorials/web_framework.md appends to a
    /// non-`mut` list. Where statement and docs disagree nothing is demanded.
    fn informational(self) -> bool {
        matches!(self, Rule::InfoMutatingMethod | Rule::IndexWrite)
    }
    /// The rule introduces a binding whose declaration can sit several scopes above the hole.
    fn has_decl(self) -> bool {
        use Rule::*;
        matches!(
            self,
            AssignReassign | AssignCompound | AssignField | AssignIndex | Reassign | Compound | FieldWrite | IndexWrite | InfoMutatingMethod
        )
    }
    /// Roots the rule can be placed in.
    fn root_ok(self, root: Root) -> bool {
        match self {
            // `self.hx = ..` needs a method with a field-bearing `self`
            Rule::SelfFieldWrite => matches!(root, Root::ModelMethod | Root::ClassMethod | Root::TraitDefault),
            r if r.kind() == Kind::Decl => root == Root::Func,
            _ => true,
        }
    }
    /// Nesting kinds the rule may pass through (beyond the shape restrictions of `Kind`).
    fn nest_ok(self, n: Nest) -> bool {
        match self {
            // In Rust a closure has its own return type; whether `?` inside a closure refers to the enclosing function's
            // error type is not documented, so error-type compatibility is not demanded there. A non-Result operand is
            // wrong either way.
            Rule::TryIncompatibleErr | Rule::TryInNonResultFn => n != Nest::Closure,
            _ => true,
        }
    }
    fn ret(self) -> Ret {
        match self {
            Rule::TryNonResult | Rule::TryOption | Rule::TryIncompatibleErr => Ret::Result,
            _ => Ret::Int,
        }
    }
}

#[derive(Clone, Copy, Debug, PartialEq, Eq)]
enum Ret {
    Int,
    Result,
}

#[derive(Clone, Copy, Debug, PartialEq, Eq)]
enum Ty {
    Int,
    Point,
    Counter,
    List,
    Dict,
    Fn,
}

// ---------------------------------------------------------------------------------------------------------------------
// Preceding siblings: well-typed statements placed before the hole (same block or an enclosing block) that make the
// checker enter/leave contexts or swap per-function state. Twins get the same siblings.
// ---------------------------------------------------------------------------------------------------------------------

#[derive(Clone, Copy, Debug, PartialEq, Eq, Hash, PartialOrd, Ord)]
enum Sib {
    ClosureDef,
    ClosureCall,
    ListComp,
    DictComp,
    MatchBindings,
    IfElifLet,
    ForBlock,
    WhileBlock,
    TryUse,
    ResultMatch,
    LetShadow,
    MutMethod,
}
const SIBS: [Sib; 12] = [
    Sib::ClosureDef,
    Sib::ClosureCall,
    Sib::ListComp,
    Sib::DictComp,
    Sib::MatchBindings,
    Sib::IfElifLet,
    Sib::ForBlock,
    Sib::WhileBlock,
    Sib::TryUse,
    Sib::ResultMatch,
    Sib::LetShadow,
    Sib::MutMethod,
];
impl Sib {
    fn name(self) -> &'static str {
        match self {
            Sib::ClosureDef => "closure-def",
            Sib::ClosureCall => "closure-def+call",
            Sib::ListComp => "list-comprehension",
            Sib::DictComp => "dict-comprehension",
            Sib::MatchBindings => "match-with-bindings",
            Sib::IfElifLet => "if-elif-else-with-let",
            Sib::ForBlock => "for-block",
            Sib::WhileBlock => "while-block",
            Sib::TryUse => "try-use",
            Sib::ResultMatch => "result-call-matched",
            Sib::LetShadow => "inner-let-shadowing",
            Sib::MutMethod => "mut-binding+mut-method",
        }
    }
    fn from_name(s: &str) -> Option<Sib> {
        SIBS.iter().copied().find(|r| r.name() == s)
    }
    /// lines (extra indent, text); `k` makes the names unique; `?` is only legal in a Result-returning function
    fn lines(self, k: usize, ret: Ret, use_elif: bool) -> Vec<(usize, String)> {
        let l = |i: usize, t: String| (i, t);
        match self {
            Sib::ClosureDef => vec![l(0, format!("sf{k} = (a{k}) => a{k} + n"))],
            Sib::ClosureCall => vec![l(0, format!("sf{k} = (a{k}) => a{k} + 1")), l(0, format!("sg{k} = sf{k}(2)"))],
            Sib::ListComp => vec![l(0, format!("sl{k} = [j{k} * 2 for j{k} in xs if j{k} > 0]"))],
            Sib::DictComp => vec![l(0, format!("sd{k} = {{j{k}: j{k} + 1 for j{k} in xs}}"))],
            Sib::MatchBindings => vec![
                l(0, "match opt:".to_string()),
                l(1, format!("case Some(sq{k}):")),
                l(2, format!("sm{k} = sq{k} + 1")),
                l(1, "case None:".to_string()),
                l(2, "pass".to_string()),
            ],
            Sib::IfElifLet => {
                let mut v = vec![l(0, "if n > 9:".to_string()), l(1, format!("let sv{k} = n"))];
                if use_elif {
                    v.push(l(0, "elif n > 8:".to_string()));
                    v.push(l(1, format!("let sv{k} = n + 1")));
                }
                v.push(l(0, "else:".to_string()));
                v.push(l(1, format!("let sv{k} = 0")));
                v
            }
            Sib::ForBlock => vec![l(0, format!("for sj{k} in xs:")), l(1, format!("st{k} = sj{k} + n"))],
            Sib::WhileBlock => vec![l(0, "while n > 5:".to_string()), l(1, format!("sw{k} = n")), l(1, "break".to_string())],
            Sib::TryUse if ret == Ret::Result => vec![l(0, format!("sr{k} = fallible(n)?"))],
            Sib::TryUse | Sib::ResultMatch => vec![
                l(0, "match fallible(n):".to_string()),
                l(1, format!("case Ok(so{k}): pass")),
                l(1, format!("case Err(se{k}): pass")),
            ],
            Sib::LetShadow => vec![
                l(0, format!("let sx{k} = n")),
                l(0, "if n > 0:".to_string()),
                l(1, format!("let sx{k} = \"s\"")),
                l(1, format!("sy{k} = sx{k} + \"t\"")),
                l(0, format!("sz{k} = sx{k} + 1")),
            ],
            Sib::MutMethod => vec![l(0, format!("mut sc{k} = Counter(count=1, label=\"a\")")), l(0, format!("sb{k} = sc{k}.bump(1)"))],
        }
    }
}

// ---------------------------------------------------------------------------------------------------------------------
// Case
// ---------------------------------------------------------------------------------------------------------------------

#[derive(Clone, Debug, PartialEq, Eq, Hash)]
struct Case {
    rule: Rule,
    root: Root,
    path: Vec<Nest>,
    /// requested distance (in scopes) between the rule's binding declaration and the hole; clamped by `eff_decl_up`
    decl_up: u8,
    v: [u8; 4],
    /// preceding siblings: (kind, how many blocks above the hole's statement; clamped)
    sib: Vec<(Sib, u8)>,
}

impl Case {
    fn depth(&self) -> usize {
        self.path.len()
    }
    /// number of leading block contexts = index of the scope that holds the hole's statement
    fn stmt_scope(&self) -> usize {
        self.path.iter().take_while(|n| n.is_block()).count()
    }
    fn eff_decl_up(&self) -> usize {
        if self.rule.has_decl() {
            (self.decl_up as usize).min(self.stmt_scope())
        } else {
            0
        }
    }
    fn ctx_name(&self) -> String {
        match self.path.last() {
            Some(n) => n.name().to_string(),
            None => self.root.name().to_string(),
        }
    }
    fn path_names(&self) -> Vec<&'static str> {
        self.path.iter().map(|n| n.name()).collect()
    }
    fn to_json(&self) -> Value {
        let sib: Vec<Value> = self.sib.iter().map(|(k, up)| json!([k.name(), up])).collect();
        json!({"rule": self.rule.name(), "root": self.root.name(), "path": self.path_names(), "decl_up": self.decl_up, "v": self.v, "sib": sib})
    }
    fn from_json(v: &Value) -> Option<Case> {
        let rule = Rule::from_name(v["rule"].as_str()?)?;
        let root = Root::from_name(v["root"].as_str()?)?;
        let mut path = Vec::new();
        for p in v["path"].as_array()? {
            path.push(Nest::from_name(p.as_str()?)?);
        }
        let decl_up = v["decl_up"].as_u64()? as u8;
        let mut vv = [0u8; 4];
        for (i, x) in v["v"].as_array()?.iter().enumerate().take(4) {
            vv[i] = x.as_u64()? as u8;
        }
        let mut sib = Vec::new();
        if let Some(a) = v["sib"].as_array() {
            for x in a {
                sib.push((Sib::from_name(x[0].as_str()?)?, x[1].as_u64()? as u8));
            }
        }
        Some(Case { rule, root, path, decl_up, v: vv, sib })
    }
    fn nontrivial(&self) -> bool {
        if self.rule.kind() == Kind::Decl {
            // adopter lists two traits (the required one is not alone in the `with` clause)
            self.v[1] % 3 != 0
        } else {
            self.depth() >= 1 || self.root.is_method() || !self.sib.is_empty()
        }
    }

    /// Construct predicates of known root causes this case exercises. A failure of leg "accepted" on a case that
    /// matches one of these is reported under that key (root cause + construct), independent of rule/context.
    fn construct_keys(&self) -> Vec<&'static str> {
        // rule-level causes first: a field write inside an `elif` stays accepted when only the `elif` defect is repaired
        let mut k = Vec::new();
        if matches!(self.rule, Rule::Reassign | Rule::AssignReassign) && self.eff_decl_up() > 0 {
            k.push(KEY_OUTER_ASSIGN);
        }
        if matches!(self.rule, Rule::PassPositionalNonScalar | Rule::PassNamedNonScalar) {
            k.push(KEY_CALL_ARGS_NONSCALAR);
        }
        if self.rule == Rule::TryInNonResultFn {
            k.push(KEY_TRY_NON_RESULT_FN);
        }
        if self.rule == Rule::FieldWrite {
            k.push(KEY_FIELD_WRITE);
        }
        if self.rule == Rule::SelfFieldWrite {
            k.push(KEY_SELF_FIELD_WRITE);
        }
        if self.path.iter().any(|n| n.is_elif()) {
            k.push(KEY_ELIF);
        }
        k
    }
}

const KEY_ELIF: &str = "elif-body-unchecked";
const KEY_OUTER_ASSIGN: &str = "plain-assign-outer-binding-lookup-local";
const KEY_CALL_ARGS_NONSCALAR: &str = "function-call-nonscalar-arg-type-unchecked";
const KEY_TRY_NON_RESULT_FN: &str = "try-in-non-result-fn-unchecked";
const KEY_FIELD_WRITE: &str = "field-write-immutable-binding-unchecked";
const KEY_SELF_FIELD_WRITE: &str = "self-field-write-immutable-self-unchecked";
const ALL_CONSTRUCT_KEYS: [&str; 6] =
    [KEY_ELIF, KEY_OUTER_ASSIGN, KEY_CALL_ARGS_NONSCALAR, KEY_TRY_NON_RESULT_FN, KEY_FIELD_WRITE, KEY_SELF_FIELD_WRITE];

#[derive(Clone, Copy, PartialEq)]
enum St {
    /// a statement is expected (function body or a block context)
    Block,
    /// the one-line body of an inline match arm
    AfterInline,
    /// inside an expression
    Expr,
    /// inside an expression that is used as a condition / dict key (a closure cannot stand here directly)
    Plain,
}

fn nest_allowed(rule: Rule, st: St, n: Nest) -> bool {
    if !rule.nest_ok(n) {
        return false;
    }
    let kind = rule.kind();
    match st {
        St::Block => match kind {
            Kind::Expr => true,
            Kind::Return => n.is_block() || n.is_inline(),
            Kind::Stmt | Kind::Match => n.is_block(),
            Kind::Decl => false,
        },
        St::AfterInline | St::Expr => kind == Kind::Expr && n.is_expr(),
        St::Plain => kind == Kind::Expr && n.is_expr() && n != Nest::Closure,
    }
}

fn next_state(n: Nest) -> St {
    if n.is_block() {
        St::Block
    } else if n.is_inline() {
        St::AfterInline
    } else if n.needs_plain_value() {
        St::Plain
    } else {
        St::Expr
    }
}

/// Make a raw path valid for the rule *by construction*: every position picks from the kinds that are legal there.
/// `avoid_elif`: the elif finding is open, so `elif` (body and condition) is not offered.
fn build_path(rule: Rule, raw: &[u8], avoid_elif: bool) -> Vec<Nest> {
    let mut st = St::Block;
    let mut out = Vec::new();
    for &r in raw {
        let allowed: Vec<Nest> =
            NESTS.iter().copied().filter(|&n| nest_allowed(rule, st, n)).filter(|&n| !(avoid_elif && n.is_elif())).collect();
        if allowed.is_empty() {
            break;
        }
        let n = allowed[((r as usize) * allowed.len()) >> 8]; // monotone, so byte shrinking moves towards the first kind
        st = next_state(n);
        out.push(n);
    }
    out
}

/// Is this explicit path legal for the rule (used by the exhaustive sweeps)?
fn path_valid(rule: Rule, path: &[Nest]) -> bool {
    if rule.kind() == Kind::Decl {
        return path.is_empty();
    }
    let mut st = St::Block;
    for &n in path {
        if !nest_allowed(rule, st, n) {
            return false;
        }
        st = next_state(n);
    }
    true
}

// ---------------------------------------------------------------------------------------------------------------------
// Renderer
// ---------------------------------------------------------------------------------------------------------------------

const PRELUDE: &str = r#"enum Color:
    Red
    Green
    Blue


enum Shape:
    Circle(int)
    Rect(int, int)
    Dot


model Point:
    x: int
    y: int

    def norm(self) -> int:
        return self.x + self.y

    def scale(self, k: int) -> int:
        return self.x * k


class Counter:
    count: int
    label: str

    def bump(mut self, by: int) -> int:
        self.count = self.count + by
        return self.count


def helper(n: int) -> int:
    return n + 1


def norm_of(p: Point) -> int:
    return p.x + p.y


def fallible(n: int) -> Result[int, str]:
    if n > 0:
        return Ok(n)
    return Err("neg")


"#;

const PARAMS: &str =
    "n: int, pt: Point, col: Color, sh: Shape, opt: Option[int], res: Result[int, str], res2: Result[int, int], ro: Result[Option[int], str], xs: list[int]";

enum Body {
    Expr { text: String, ty: Ty },
    Return(String),
    Stmt(String),
    /// lines relative to the statement's indent: (extra indent levels, text)
    Match(Vec<(usize, String)>),
    None,
}

struct Fill {
    decls: Vec<String>,
    body: Body,
    mut_self: bool,
}

fn fill(c: &Case, violate: bool) -> Fill {
    use Rule::*;
    let v2 = c.v[2];
    let v3 = c.v[3];
    let pick = |bad: &str, good: &str| if violate { bad.to_string() } else { good.to_string() };
    let expr = |bad: &str, good: &str, ty: Ty| Fill { decls: vec![], body: Body::Expr { text: pick(bad, good), ty }, mut_self: false };
    let stmt = |decls: Vec<String>, s: String| Fill { decls, body: Body::Stmt(s), mut_self: false };
    let self_field = c.root != Root::Func && c.root != Root::NewtypeMethod && v2 % 2 == 1;
    match c.rule {
        UnknownValue => match v2 % 3 {
            0 => expr("nosuch_v", "n", Ty::Int),
            1 => expr("n + nosuch_v", "n + n", Ty::Int),
            _ => expr("helper(nosuch_v)", "helper(n)", Ty::Int),
        },
        UnknownCallee => expr("nosuch_fn(n)", "helper(n)", Ty::Int),
        UnknownField => {
            if self_field {
                expr("self.nosuch", "self.hx", Ty::Int)
            } else {
                expr("pt.nosuch", "pt.x", Ty::Int)
            }
        }
        UnknownMethod => expr("pt.nosuch()", "pt.norm()", Ty::Int),
        AssignAnnotated => match v2 % 3 {
            0 => stmt(vec![], format!("let w: int = {}", pick("\"s\"", "1"))),
            1 => stmt(vec![], format!("w: str = {}", pick("n", "\"s\""))),
            _ => stmt(vec![], format!("mut w: bool = {}", pick("1.5", "true"))),
        },
        AssignReassign => stmt(vec!["mut mv = 0".into()], format!("mv = {}", pick("\"s\"", "7"))),
        AssignCompound => stmt(vec!["mut mv = 0".into()], format!("mv += {}", pick("\"s\"", "2"))),
        AssignField => stmt(vec!["mut mp = Point(x=1, y=2)".into()], format!("mp.x = {}", pick("\"s\"", "3"))),
        AssignIndex => stmt(vec!["mut ml: list[int] = [1, 2]".into()], format!("ml[0] = {}", pick("\"s\"", "3"))),
        ReturnType => Fill {
            decls: vec![],
            body: Body::Return(match v2 % 3 {
                0 => pick("\"s\"", "1"),
                1 => pick("pt", "pt.x"),
                _ => pick("n > 1", "n + 1"),
            }),
            mut_self: false,
        },
        PassPositional => expr("helper(\"s\")", "helper(1)", Ty::Int),
        PassNamed => expr("helper(n=\"s\")", "helper(n=1)", Ty::Int),
        // a model value for a scalar parameter / a scalar for a model parameter
        PassPositionalNonScalar => {
            if v2 % 2 == 0 {
                expr("helper(pt)", "helper(pt.x)", Ty::Int)
            } else {
                expr("norm_of(\"s\")", "norm_of(pt)", Ty::Int)
            }
        }
        PassNamedNonScalar => {
            if v2 % 2 == 0 {
                expr("helper(n=pt)", "helper(n=pt.x)", Ty::Int)
            } else {
                expr("norm_of(p=n)", "norm_of(p=pt)", Ty::Int)
            }
        }
        PassMethod => expr("pt.scale(\"s\")", "pt.scale(2)", Ty::Int),
        PassMethodNamed => expr("pt.scale(k=\"s\")", "pt.scale(k=2)", Ty::Int),
        PassCtorField => {
            if v2 % 2 == 0 {
                expr("Point(x=\"s\", y=2)", "Point(x=1, y=2)", Ty::Point)
            } else {
                expr("Counter(count=1, label=2)", "Counter(count=1, label=\"a\")", Ty::Counter)
            }
        }
        Reassign => {
            let d = match v2 % 3 {
                0 => pick("let iv = 1", "mut iv = 1"),
                1 => pick("iv = 1", "mut iv = 1"),
                _ => pick("let iv: int = 1", "mut iv: int = 1"),
            };
            stmt(vec![d], "iv = 2".into())
        }
        Compound => {
            let d = pick(if v2 % 2 == 0 { "let iv = 1" } else { "iv = 1" }, "mut iv = 1");
            let op = ["+=", "-=", "*="][(v3 % 3) as usize];
            stmt(vec![d], format!("iv {op} 1"))
        }
        FieldWrite => stmt(vec![pick("ip = Point(x=1, y=2)", "mut ip = Point(x=1, y=2)")], "ip.x = 5".into()),
        IndexWrite => stmt(vec![pick("il = [1, 2]", "mut il = [1, 2]")], "il[0] = 5".into()),
        SelfFieldWrite => Fill { decls: vec![], body: Body::Stmt("self.hx = 5".into()), mut_self: !violate },
        TryNonResult => match v2 % 2 {
            0 => expr("n?", "res?", Ty::Int),
            _ => expr("helper(n)?", "res?", Ty::Int),
        },
        TryOption => expr("opt?", "res?", Ty::Int),
        TryIncompatibleErr => expr("res2?", "res?", Ty::Int),
        TryInNonResultFn => expr("res?", "helper(n)", Ty::Int),
        MatchEnumUnit | MatchEnumData | MatchOption | MatchResult => fill_match(c, violate),
        CtorMissing => {
            if v2 % 2 == 0 {
                expr(if v3 % 2 == 0 { "Point(x=1)" } else { "Point(y=2)" }, "Point(x=1, y=2)", Ty::Point)
            } else {
                expr("Counter(label=\"a\")", "Counter(count=1, label=\"a\")", Ty::Counter)
            }
        }
        CtorDuplicate => {
            if v2 % 2 == 0 {
                expr("Point(x=1, x=2, y=3)", "Point(x=1, y=3)", Ty::Point)
            } else {
                expr("Counter(count=1, label=\"a\", count=2)", "Counter(count=1, label=\"a\")", Ty::Counter)
            }
        }
        CtorUnknown => {
            if v2 % 2 == 0 {
                expr("Point(x=1, y=2, zz=3)", "Point(x=1, y=2)", Ty::Point)
            } else {
                expr("Counter(count=1, label=\"a\", zz=3)", "Counter(count=1, label=\"a\")", Ty::Counter)
            }
        }
        TraitMissingMethod | TraitMissingField | TraitFieldType => Fill { decls: vec![], body: Body::None, mut_self: false },
        InfoMutatingMethod => stmt(vec![pick("il = [1, 2]", "mut il = [1, 2]")], "il.append(3)".into()),
    }
}

#[derive(Clone, Copy, PartialEq)]
enum Pay {
    Int,
    Str,
    OptInt,
}

struct VariantShape {
    qualified: &'static str,
    /// unqualified spelling (documented for data variants; an unqualified unit variant would be a binding)
    unqualified: Option<&'static str>,
    payload: &'static [Pay],
}

/// deterministic stream of small numbers derived from the variant bytes (the shape of a match is generated, not fixed)
struct Mix(u64);
impl Mix {
    fn next(&mut self, n: usize) -> usize {
        self.0 = util::mix(self.0);
        ((self.0 >> 17) as usize) % n.max(1)
    }
}

/// `match` over enum / Option / Result with one variant omitted (violating) or complete (twin).
/// The remaining arms have a generated shape: 1-3 arms per handled variant (literal / nested / guarded arms before the
/// irrefutable one), hence often more arms than variants, arms of different variants interleaved in any order, qualified
/// and unqualified constructor spellings, four arm spellings. The twin adds the missing variant or a catch-all arm.
fn fill_match(c: &Case, violate: bool) -> Fill {
    let mut rng = Mix(util::hash_of(&(c.v, c.rule.name())));
    let (subject, variants): (&str, Vec<VariantShape>) = match c.rule {
        Rule::MatchEnumUnit => (
            "col",
            vec![
                VariantShape { qualified: "Color.Red", unqualified: None, payload: &[] },
                VariantShape { qualified: "Color.Green", unqualified: None, payload: &[] },
                VariantShape { qualified: "Color.Blue", unqualified: None, payload: &[] },
            ],
        ),
        Rule::MatchEnumData => (
            "sh",
            vec![
                VariantShape { qualified: "Shape.Circle", unqualified: Some("Circle"), payload: &[Pay::Int] },
                VariantShape { qualified: "Shape.Rect", unqualified: Some("Rect"), payload: &[Pay::Int, Pay::Int] },
                VariantShape { qualified: "Shape.Dot", unqualified: None, payload: &[] },
            ],
        ),
        Rule::MatchOption => (
            "opt",
            vec![
                VariantShape { qualified: "Some", unqualified: None, payload: &[Pay::Int] },
                VariantShape { qualified: "None", unqualified: None, payload: &[] },
            ],
        ),
        _ => {
            if rng.next(2) == 0 {
                (
                    "res",
                    vec![
                        VariantShape { qualified: "Ok", unqualified: None, payload: &[Pay::Int] },
                        VariantShape { qualified: "Err", unqualified: None, payload: &[Pay::Str] },
                    ],
                )
            } else {
                (
                    "ro",
                    vec![
                        VariantShape { qualified: "Ok", unqualified: None, payload: &[Pay::OptInt] },
                        VariantShape { qualified: "Err", unqualified: None, payload: &[Pay::Str] },
                    ],
                )
            }
        }
    };
    let omit = rng.next(variants.len());
    let spelling = rng.next(4); // 0 case-block, 1 case-inline, 2 arrow-block, 3 arrow-inline
    let can_guard = spelling < 2;
    // every remaining arm guarded: nothing is really covered, the twin needs a catch-all
    let all_guarded = can_guard && rng.next(5) == 0;

    // (variant index, rank within the variant, pattern text, guard)
    let mut arms: Vec<(usize, usize, String, Option<String>)> = Vec::new();
    let mut serial = 0usize;
    let mut pattern = |v: &VariantShape, refutable_at: Option<usize>, rng: &mut Mix| -> String {
        serial += 1;
        let head = match v.unqualified {
            Some(u) if rng.next(2) == 1 => u,
            _ => v.qualified,
        };
        if v.payload.is_empty() {
            return head.to_string();
        }
        let subs: Vec<String> = v
            .payload
            .iter()
            .enumerate()
            .map(|(i, p)| {
                if Some(i) == refutable_at {
                    match p {
                        Pay::Int => ["0", "1", "7"][rng.next(3)].to_string(),
                        Pay::Str => "\"x\"".to_string(),
                        Pay::OptInt => {
                            if rng.next(2) == 0 {
                                format!("Some(m{serial}n)")
                            } else {
                                "None".to_string()
                            }
                        }
                    }
                } else if rng.next(4) == 0 {
                    "_".to_string()
                } else {
                    format!("m{serial}{}", ["a", "b"][i % 2])
                }
            })
            .collect();
        format!("{head}({})", subs.join(", "))
    };
    for (vi, v) in variants.iter().enumerate() {
        if vi == omit {
            continue;
        }
        let mut k = 1 + rng.next(3);
        if v.payload.is_empty() && !can_guard {
            k = 1; // an unguarded unit-variant arm cannot be made refutable
        }
        for rank in 0..k {
            let last = rank + 1 == k;
            if last {
                let pat = pattern(v, None, &mut rng);
                let guard = if all_guarded { Some(format!("n > {rank}")) } else { None };
                arms.push((vi, rank, pat, guard));
            } else if !v.payload.is_empty() && (!can_guard || rng.next(3) != 0) {
                let at = rng.next(v.payload.len());
                let pat = pattern(v, Some(at), &mut rng);
                arms.push((vi, rank, pat, None));
            } else {
                let pat = pattern(v, None, &mut rng);
                arms.push((vi, rank, pat, Some(format!("n > {}", rank + 1))));
            }
        }
    }
    // any order: shuffle, then within each variant put the arms back in rank order (specific before irrefutable)
    for i in (1..arms.len()).rev() {
        let j = rng.next(i + 1);
        arms.swap(i, j);
    }
    for vi in 0..variants.len() {
        let slots: Vec<usize> = (0..arms.len()).filter(|&i| arms[i].0 == vi).collect();
        let mut mine: Vec<(usize, usize, String, Option<String>)> = slots.iter().map(|&i| arms[i].clone()).collect();
        mine.sort_by_key(|a| a.1);
        for (slot, a) in slots.into_iter().zip(mine.into_iter()) {
            arms[slot] = a;
        }
    }
    if !violate {
        // the twin: the missing variant back (irrefutable, anywhere), or a catch-all arm at the end
        let style = if all_guarded { 1 + rng.next(2) } else { rng.next(3) };
        match style {
            0 => {
                let pat = pattern(&variants[omit], None, &mut rng);
                let at = rng.next(arms.len() + 1);
                arms.insert(at, (omit, 0, pat, None));
            }
            1 => arms.push((usize::MAX, 0, "_".to_string(), None)),
            _ => arms.push((usize::MAX, 0, "other".to_string(), None)),
        }
    }
    let mut lines: Vec<(usize, String)> = vec![(0, format!("match {subject}:"))];
    for (_, _, pat, guard) in &arms {
        let g = guard.as_ref().map(|g| format!(" if {g}")).unwrap_or_default();
        match spelling {
            0 => {
                lines.push((1, format!("case {pat}{g}:")));
                lines.push((2, "pass".into()));
            }
            1 => lines.push((1, format!("case {pat}{g}: pass"))),
            2 => {
                lines.push((1, format!("{pat} =>")));
                lines.push((2, "pass".into()));
            }
            _ => lines.push((1, format!("{pat} => pass"))),
        }
    }
    Fill { decls: vec![], body: Body::Match(lines), mut_self: false }
}

struct Rendered {
    src: String,
    construct: (usize, usize),
}

struct Rend<'a> {
    c: &'a Case,
    f: Fill,
    out: String,
    construct: Option<(usize, usize)>,
    decl_scope: usize,
    use_elif_in_siblings: bool,
}

impl<'a> Rend<'a> {
    fn line(&mut self, level: usize, text: &str) -> (usize, usize) {
        for _ in 0..level {
            self.out.push_str("    ");
        }
        let s = self.out.len();
        self.out.push_str(text);
        let e = self.out.len();
        self.out.push('\n');
        (s, e)
    }

    fn default_return(&self) -> &'static str {
        match self.c.rule.ret() {
            Ret::Int => "return 0",
            Ret::Result => "return Ok(0)",
        }
    }

    fn boolify(e: &str, ty: Ty) -> String {
        match ty {
            Ty::Int => format!("{e} > 0"),
            Ty::Point => format!("{e}.x > 0"),
            Ty::Counter => format!("{e}.count > 0"),
            Ty::List | Ty::Dict => format!("len({e}) > 0"),
            Ty::Fn => format!("{e}"),
        }
    }

    /// expression for path[idx..] (all expression contexts) ending in the hole
    fn expr_chain(&self, idx: usize) -> (String, Ty) {
        if idx == self.c.path.len() {
            match &self.f.body {
                Body::Expr { text, ty } => return (text.clone(), *ty),
                _ => unreachable!("expression chain for a non-expression rule"),
            }
        }
        let (inner, ity) = self.expr_chain(idx + 1);
        let vb = self.c.v[1].wrapping_add(idx as u8);
        match self.c.path[idx] {
            Nest::Closure => {
                if vb % 2 == 0 {
                    (format!("(c{idx}) => {inner}"), Ty::Fn)
                } else {
                    (format!("() => {inner}"), Ty::Fn)
                }
            }
            Nest::CompElem => {
                if vb % 2 == 0 {
                    (format!("[{inner} for i{idx} in xs]"), Ty::List)
                } else {
                    (format!("[{inner} for i{idx} in xs if i{idx} > 1]"), Ty::List)
                }
            }
            Nest::CompFilter => (format!("[i{idx} for i{idx} in xs if {}]", Self::boolify(&inner, ity)), Ty::List),
            Nest::DictCompVal => (format!("{{i{idx}: {inner} for i{idx} in xs}}"), Ty::Dict),
            Nest::DictCompKey => {
                // keys must be hashable: use the value itself when it is an int, a derived int otherwise
                let key = match ity {
                    Ty::Int => inner.clone(),
                    Ty::Point => format!("{inner}.x"),
                    Ty::Counter => format!("{inner}.count"),
                    _ => format!("len({inner})"),
                };
                (format!("{{{key}: i{idx} for i{idx} in xs}}"), Ty::Dict)
            }
            Nest::DictCompFilter => (format!("{{i{idx}: i{idx} for i{idx} in xs if {}}}", Self::boolify(&inner, ity)), Ty::Dict),
            _ => unreachable!("statement context inside an expression chain"),
        }
    }

    /// one-line statement for an inline match arm at path position idx; returns the text
    fn inline_stmt(&self, idx: usize) -> String {
        if idx == self.c.path.len() {
            match &self.f.body {
                Body::Expr { text, .. } => text.clone(),
                Body::Return(x) => format!("return {x}"),
                _ => unreachable!("inline arm for a block-only rule"),
            }
        } else {
            self.expr_chain(idx).0
        }
    }

    fn match_arms(&self, idx: usize) -> (&'static str, Vec<String>) {
        let sel = (self.c.v[0] as usize + idx) % 5;
        match sel {
            0 => ("col", vec!["Color.Red".into(), "Color.Green".into(), "Color.Blue".into()]),
            1 => ("opt", vec![format!("Some(q{idx})"), "None".into()]),
            2 => ("res", vec![format!("Ok(q{idx})"), format!("Err(e{idx})")]),
            3 => ("sh", vec![format!("Shape.Circle(r{idx})"), format!("Shape.Rect(a{idx}, b{idx})"), "Shape.Dot".into()]),
            _ => ("n", vec!["0".into(), "1".into(), "_".into()]),
        }
    }

    fn emit_leaf(&mut self, level: usize) {
        let vb = self.c.v[1];
        // take the body out to avoid borrowing self
        let body = std::mem::replace(&mut self.f.body, Body::None);
        match &body {
            Body::Expr { text, .. } => {
                let s = match vb % 3 {
                    0 => format!("w = {text}"),
                    1 => format!("let w = {text}"),
                    _ => text.clone(),
                };
                let r = self.line(level, &s);
                self.construct = Some(r);
            }
            Body::Return(x) => {
                let r = self.line(level, &format!("return {x}"));
                self.construct = Some(r);
            }
            Body::Stmt(s) => {
                let r = self.line(level, s);
                self.construct = Some(r);
            }
            Body::Match(lines) => {
                let mut start = None;
                let mut end = 0;
                for (extra, t) in lines {
                    let r = self.line(level + extra, t);
                    if start.is_none() {
                        start = Some(r.0);
                    }
                    end = r.1;
                }
                self.construct = Some((start.unwrap_or(0), end));
            }
            Body::None => {}
        }
        self.f.body = body;
    }

    fn emit_block(&mut self, level: usize, idx: usize, scope: usize) {
        if scope == self.decl_scope {
            let decls = self.f.decls.clone();
            for d in &decls {
                self.line(level, d);
            }
        }
        let stmt_scope = self.c.stmt_scope();
        for (k, (kind, up)) in self.c.sib.clone().into_iter().enumerate() {
            if stmt_scope - (up as usize).min(stmt_scope) == scope {
                for (extra, t) in kind.lines(k, self.c.rule.ret(), self.use_elif_in_siblings) {
                    self.line(level + extra, &t);
                }
            }
        }
        let noise = self.c.v[1].wrapping_add((idx as u8).wrapping_mul(3));
        if noise % 4 == 1 {
            self.line(level, &format!("t{idx} = n + {idx}"));
        }
        if idx == self.c.path.len() {
            self.emit_leaf(level);
            let is_return = matches!(self.f.body, Body::Return(_));
            if noise % 4 == 2 && !is_return {
                self.line(level, &format!("u{idx} = n * 2"));
            }
            return;
        }
        let k = self.c.path[idx];
        let vb = self.c.v[3].wrapping_add(idx as u8);
        match k {
            Nest::If => {
                self.line(level, if vb % 2 == 0 { "if n > 0:" } else { "if n > 0 and n < 50:" });
                self.emit_block(level + 1, idx + 1, scope + 1);
                if vb % 3 == 1 {
                    self.line(level, "else:");
                    self.line(level + 1, "pass");
                }
            }
            Nest::Elif => {
                self.line(level, "if n > 100:");
                self.line(level + 1, "pass");
                if vb % 2 == 1 {
                    self.line(level, "elif n > 50:");
                    self.line(level + 1, "pass");
                }
                self.line(level, "elif n > 1:");
                self.emit_block(level + 1, idx + 1, scope + 1);
                if vb % 3 == 1 {
                    self.line(level, "else:");
                    self.line(level + 1, "pass");
                }
            }
            Nest::Else => {
                self.line(level, "if n > 100:");
                self.line(level + 1, "pass");
                self.line(level, "else:");
                self.emit_block(level + 1, idx + 1, scope + 1);
            }
            Nest::While => {
                self.line(level, "while n > 0:");
                self.emit_block(level + 1, idx + 1, scope + 1);
                self.line(level + 1, "break");
            }
            Nest::For => {
                if vb % 2 == 0 {
                    self.line(level, &format!("for i{idx} in xs:"));
                } else {
                    self.line(level, &format!("for i{idx} in range(3):"));
                }
                self.emit_block(level + 1, idx + 1, scope + 1);
            }
            Nest::CaseBlock | Nest::ArrowBlock | Nest::CaseInline | Nest::ArrowInline => {
                let (subject, arms) = self.match_arms(idx);
                let hole_arm = (self.c.v[1] as usize + idx) % arms.len();
                self.line(level, &format!("match {subject}:"));
                let is_case = matches!(k, Nest::CaseBlock | Nest::CaseInline);
                for (i, a) in arms.iter().enumerate() {
                    if i == hole_arm {
                        if k.is_block() {
                            if is_case {
                                self.line(level + 1, &format!("case {a}:"));
                            } else {
                                self.line(level + 1, &format!("{a} =>"));
                            }
                            self.emit_block(level + 2, idx + 1, scope + 1);
                        } else {
                            let st = self.inline_stmt(idx + 1);
                            let prefix = if is_case { format!("case {a}: ") } else { format!("{a} => ") };
                            let r = self.line(level + 1, &format!("{prefix}{st}"));
                            self.construct = Some((r.0 + prefix.len(), r.1));
                        }
                    } else if is_case {
                        self.line(level + 1, &format!("case {a}: pass"));
                    } else {
                        self.line(level + 1, &format!("{a} => pass"));
                    }
                }
            }
            Nest::IfCond | Nest::ElifCond | Nest::WhileCond => {
                let (e, ty) = self.expr_chain(idx + 1);
                let cond = Self::boolify(&e, ty);
                let r = match k {
                    Nest::IfCond => self.line(level, &format!("if {cond}:")),
                    Nest::WhileCond => self.line(level, &format!("while {cond}:")),
                    _ => {
                        self.line(level, "if n > 100:");
                        self.line(level + 1, "pass");
                        self.line(level, &format!("elif {cond}:"))
                    }
                };
                self.construct = Some(r);
                self.line(level + 1, if k == Nest::WhileCond { "break" } else { "pass" });
            }
            Nest::Closure | Nest::CompElem | Nest::CompFilter | Nest::DictCompVal | Nest::DictCompKey | Nest::DictCompFilter => {
                let (e, _) = self.expr_chain(idx);
                let s = if self.c.v[1] % 2 == 0 { format!("z{idx} = {e}") } else { format!("let z{idx} = {e}") };
                let r = self.line(level, &s);
                self.construct = Some(r);
            }
        }
        if noise % 4 == 3 {
            self.line(level, &format!("u{idx} = n - 1"));
        }
    }
}

fn render(c: &Case, violate: bool) -> Rendered {
    if c.rule.kind() == Kind::Decl {
        return render_decl(c, violate);
    }
    let f = fill(c, violate);
    let decl_scope = c.stmt_scope() - c.eff_decl_up();
    let mut r = Rend { c, f, out: String::with_capacity(2048), construct: None, decl_scope, use_elif_in_siblings: c.v[0] % 2 == 0 };
    r.out.push_str(PRELUDE);
    let ret = match c.rule.ret() {
        Ret::Int => "int",
        Ret::Result => "Result[int, str]",
    };
    let recv = if r.f.mut_self { "mut self" } else { "self" };
    let level = match c.root {
        Root::Func => {
            r.line(0, &format!("def target({PARAMS}) -> {ret}:"));
            1
        }
        Root::ModelMethod => {
            r.line(0, "model Host:");
            r.line(1, "hx: int");
            r.line(0, "");
            r.line(1, &format!("def target({recv}, {PARAMS}) -> {ret}:"));
            2
        }
        Root::ClassMethod => {
            r.line(0, "class HostC:");
            r.line(1, "hx: int");
            r.line(0, "");
            r.line(1, &format!("def target({recv}, {PARAMS}) -> {ret}:"));
            2
        }
        Root::NewtypeMethod => {
            r.line(0, "type Wrapped = newtype int:");
            r.line(1, &format!("def target({recv}, {PARAMS}) -> {ret}:"));
            2
        }
        Root::TraitDefault => {
            r.line(0, "@requires(hx: int)");
            r.line(0, "trait HostT:");
            r.line(1, &format!("def target({recv}, {PARAMS}) -> {ret}:"));
            2
        }
    };
    r.emit_block(level, 0, 0);
    let dr = r.default_return();
    r.line(level, dr);
    let construct = r.construct.unwrap_or((0, 0));
    Rendered { src: r.out, construct }
}

/// Trait adoption rules: declaration level, no nesting path.
fn render_decl(c: &Case, violate: bool) -> Rendered {
    let mut out = String::from(PRELUDE);
    let class = c.v[0] % 2 == 1;
    let position = c.v[1] % 3; // 0: `with Tagged`, 1: `with Other, Tagged`, 2: `with Tagged, Other`
    let extra_default = c.v[2] % 2 == 1;
    out.push_str("@requires(tag: int)\ntrait Tagged:\n    def describe(self) -> str: ...\n");
    if extra_default {
        out.push_str("\n    def twice(self) -> int:\n        return self.tag * 2\n");
    }
    out.push_str("\n\ntrait Other:\n    def other(self) -> int:\n        return 1\n\n\n");
    let start = out.len();
    let with = match position {
        0 => "Tagged",
        1 => "Other, Tagged",
        _ => "Tagged, Other",
    };
    out.push_str(&format!("{} Adopter with {with}:\n", if class { "class" } else { "model" }));
    out.push_str("    extra: str\n");
    match (c.rule, violate) {
        (Rule::TraitMissingField, true) => {}
        (Rule::TraitFieldType, true) => out.push_str("    tag: str\n"),
        _ => out.push_str("    tag: int\n"),
    }
    out.push_str("\n    def size(self) -> int:\n        return 1\n");
    if !(c.rule == Rule::TraitMissingMethod && violate) {
        out.push_str("\n    def describe(self) -> str:\n        return \"a\"\n");
    }
    let end = out.trim_end().len();
    out.push_str("\n\ndef target(n: int) -> int:\n    return n\n");
    Rendered { src: out, construct: (start, end) }
}

// ---------------------------------------------------------------------------------------------------------------------
// Oracle
// ---------------------------------------------------------------------------------------------------------------------

enum Checked {
    Accepted,
    ParseError(String),
    Rejected(Vec<CompileError>),
    Panic(String),
}

fn check_src(src: &str) -> Checked {
    let r = util::catch(|| {
        let tokens = match lexer::lex(src) {
            Ok(t) => t,
            Err(es) => return Checked::ParseError(es.first().map(|e| e.message.clone()).unwrap_or_default()),
        };
        let ast = match parser::parse(&tokens) {
            Ok(a) => a,
            Err(es) => return Checked::ParseError(es.first().map(|e| e.message.clone()).unwrap_or_default()),
        };
        let mut tc = TypeChecker::new();
        match tc.check_with_imports(&ast, &[]) {
            Ok(()) => Checked::Accepted,
            Err(es) => Checked::Rejected(es),
        }
    });
    match r {
        Ok(c) => c,
        Err(m) => Checked::Panic(m),
    }
}

#[derive(Clone, Debug)]
enum Verdict {
    Pass,
    Noise(String),
    Fail { leg: &'static str, detail: String },
}

fn errs_text(es: &[CompileError]) -> String {
    es.iter().map(|e| format!("[{}..{}] {}", e.span.start, e.span.end, e.message)).collect::<Vec<_>>().join("; ")
}

fn judge_texts(twin: &str, bad: &str, construct: (usize, usize)) -> Verdict {
    match check_src(twin) {
        Checked::Accepted => {}
        Checked::ParseError(m) => return Verdict::Noise(format!("twin-parse-error: {m}")),
        Checked::Rejected(es) => return Verdict::Noise(format!("twin-rejected: {}", es.first().map(|e| e.message.clone()).unwrap_or_default())),
        Checked::Panic(m) => return Verdict::Noise(format!("twin-panic: {m}")),
    }
    match check_src(bad) {
        Checked::Accepted => Verdict::Fail { leg: "accepted", detail: "the violating program type-checks (Ok)".into() },
        Checked::ParseError(m) => Verdict::Noise(format!("violating-parse-error: {m}")),
        Checked::Panic(m) => Verdict::Fail { leg: "panic", detail: m },
        Checked::Rejected(es) => {
            if es.iter().any(|e| construct.0 <= e.span.start && e.span.start <= construct.1) {
                Verdict::Pass
            } else {
                Verdict::Fail {
                    leg: "unlocated",
                    detail: format!("rejected, but no error starts inside the construct {}..{}: {}", construct.0, construct.1, errs_text(&es)),
                }
            }
        }
    }
}

struct Judged {
    verdict: Verdict,
    twin: String,
    bad: String,
    construct: (usize, usize),
}

fn judge(c: &Case) -> Judged {
    let t = render(c, false);
    let b = render(c, true);
    let verdict = if t.src == b.src {
        Verdict::Noise("self-check: twin equals violating program".into())
    } else if b.construct.1 <= b.construct.0 || b.construct.1 > b.src.len() {
        Verdict::Noise("self-check: empty construct range".into())
    } else {
        judge_texts(&t.src, &b.src, b.construct)
    };
    Judged { verdict, twin: t.src, bad: b.src, construct: b.construct }
}

/// Root-cause shaped signature of a failure.
/// 1. a known construct predicate (elif, outer-scope plain assignment, ...) names the finding directly;
/// 2. the same rule also fails in a plain function body -> the rule itself is broken: `<leg>:<rule>`;
/// 3. a simple probe rule also fails in the same innermost context -> the context is not visited: `context-unchecked:<ctx>`;
/// 4. otherwise `<leg>:<rule>:<ctx>`.
fn fail_key(c: &Case, leg: &str) -> String {
    if !c.sib.is_empty() {
        let same_leg = |c2: &Case| matches!(judge(c2).verdict, Verdict::Fail { leg: l2, .. } if l2 == leg);
        let mut bare = c.clone();
        bare.sib.clear();
        if same_leg(&bare) {
            // the siblings are irrelevant
            return fail_key(&bare, leg);
        }
        // checker state leaks from an earlier sibling construct: name the first sibling that is enough on its own
        for (kind, up) in &c.sib {
            let mut one = bare.clone();
            one.sib = vec![(*kind, *up)];
            if same_leg(&one) {
                return format!("{leg}-after-sibling:{}:{}", kind.name(), c.rule.name());
            }
        }
        let kinds: Vec<&str> = c.sib.iter().map(|(k, _)| k.name()).collect();
        return format!("{leg}-after-siblings:{}:{}", kinds.join("+"), c.rule.name());
    }
    if leg == "accepted" {
        // a construct key names the cause only if a probe confirms it: a rule-level cause must also show in a plain body,
        // a context-level cause (`elif`, outer-scope assignment) must disappear without the context
        let accepted = |c2: &Case| matches!(judge(c2).verdict, Verdict::Fail { leg: "accepted", .. });
        let root = if c.rule.root_ok(Root::Func) { Root::Func } else { Root::ModelMethod };
        let plain = Case { rule: c.rule, root, path: vec![], decl_up: 0, v: c.v, sib: vec![] };
        let is_plain = c.path.is_empty() && c.root == root;
        for k in c.construct_keys() {
            let confirmed = if k == KEY_ELIF {
                !accepted(&plain)
            } else if k == KEY_OUTER_ASSIGN {
                let mut same_scope = c.clone();
                same_scope.decl_up = 0;
                !accepted(&same_scope)
            } else {
                is_plain || accepted(&plain)
            };
            if confirmed {
                return k.to_string();
            }
        }
    }
    let fails_same_leg = |c2: &Case| matches!(judge(c2).verdict, Verdict::Fail { leg: l2, .. } if l2 == leg);
    if c.rule.kind() != Kind::Decl && (c.depth() > 0 || c.root != Root::Func) {
        let root = if c.rule.root_ok(Root::Func) { Root::Func } else { Root::ModelMethod };
        let plain = Case { rule: c.rule, root, path: vec![], decl_up: 0, v: c.v, sib: vec![] };
        if (plain.root != c.root || c.depth() > 0) && fails_same_leg(&plain) {
            return format!("{leg}:{}", c.rule.name());
        }
        if leg == "accepted" {
            // which single context (outermost first) swallows a simple probe violation on its own?
            let mut singles: Vec<(Root, Vec<Nest>, String)> = Vec::new();
            if c.root != Root::Func {
                singles.push((c.root, vec![], c.root.name().to_string()));
            }
            for n in &c.path {
                singles.push((Root::Func, vec![*n], n.name().to_string()));
            }
            for (root, path, name) in singles {
                // two independent simple probes (so that the failing rule itself is never its own witness)
                let probes: Vec<Rule> = [Rule::UnknownValue, Rule::UnknownCallee, Rule::AssignAnnotated, Rule::ReturnType]
                    .into_iter()
                    .filter(|r| *r != c.rule && path_valid(*r, &path))
                    .take(2)
                    .collect();
                let any_probe = !probes.is_empty();
                let swallowed =
                    probes.iter().all(|r| fails_same_leg(&Case { rule: *r, root, path: path.clone(), decl_up: 0, v: [0, 0, 0, 0], sib: vec![] }));
                if any_probe && swallowed {
                    return format!("context-unchecked:{name}");
                }
            }
        }
    } else if c.rule.kind() != Kind::Decl {
        return format!("{leg}:{}", c.rule.name());
    }
    if c.rule.kind() == Kind::Decl {
        return format!("{leg}:{}:{}", c.rule.name(), if c.v[0] % 2 == 1 { "class-adopter" } else { "model-adopter" });
    }
    format!("{leg}:{}:{}", c.rule.name(), c.ctx_name())
}

fn case_id(c: &Case, twin: &str) -> u64 {
    util::hash_str(&format!("{}|{}|{:?}|{}|{:?}|{:016x}", c.rule.name(), c.root.name(), c.path_names(), c.eff_decl_up(), c.sib, util::hash_str(twin)))
}

fn replay_body(c: Option<&Case>, j: &Judged, key: &str, what: &str) -> String {
    serde_json::to_string_pretty(&json!({
        "signature": key,
        "case": c.map(|c| c.to_json()),
        "violating": j.bad,
        "twin": j.twin,
        "construct": [j.construct.0, j.construct.1],
        "construct_text": j.bad.get(j.construct.0..j.construct.1).unwrap_or(""),
        "what": what,
    }))
    .unwrap()
}

// ---------------------------------------------------------------------------------------------------------------------
// CLI leg
// ---------------------------------------------------------------------------------------------------------------------

fn strip_ansi(s: &str) -> String {
    let mut out = String::new();
    let mut it = s.chars();
    while let Some(c) = it.next() {
        if c == '\x1b' {
            for d in it.by_ref() {
                if d == 'm' {
                    break;
                }
            }
        } else {
            out.push(c);
        }
    }
    out
}

fn line_of(src: &str, off: usize) -> usize {
    src[..off.min(src.len())].matches('\n').count() + 1
}

/// Returns Err(infra problem) or Ok(None) = agrees / Ok(Some(description)) = CLI disagrees with the property.
fn cli_judge(dir: &std::path::Path, tag: &str, j: &Judged) -> Result<Option<String>, String> {
    let bin = vf::incan_bin();
    let run = |name: &str, src: &str| -> Result<vf::CmdOut, String> {
        let p = dir.join(format!("{tag}_{name}.incn"));
        std::fs::write(&p, src).map_err(|e| format!("cannot write {}: {e}", p.display()))?;
        let mut cmd = std::process::Command::new(&bin);
        cmd.arg("--check").arg(&p).current_dir(dir);
        let o = vf::run_cmd(cmd, Duration::from_secs(60));
        let _ = std::fs::remove_file(&p);
        if o.timed_out || o.status.is_none() {
            return Err(format!("incan --check did not finish: {}", util::truncate(&o.stderr, 200)));
        }
        Ok(o)
    };
    let t = run("twin", &j.twin)?;
    if t.status != Some(0) {
        return Ok(Some(format!("CLI rejects the twin the API accepts (status {:?}): {}", t.status, util::truncate(&strip_ansi(&t.stderr), 300))));
    }
    let b = run("bad", &j.bad)?;
    if b.status != Some(1) {
        return Ok(Some(format!("CLI exit status {:?} for the violating program (expected 1)", b.status)));
    }
    let text = strip_ansi(&format!("{}\n{}", b.stderr, b.stdout));
    let (l0, l1) = (line_of(&j.bad, j.construct.0), line_of(&j.bad, j.construct.1));
    let mut lines = Vec::new();
    for l in text.lines() {
        if let Some(rest) = l.trim_start().strip_prefix("--> ") {
            // path:line:col
            let mut it = rest.rsplitn(3, ':');
            let _col = it.next();
            if let Some(n) = it.next().and_then(|x| x.trim().parse::<usize>().ok()) {
                lines.push(n);
            }
        }
    }
    if lines.iter().any(|&n| l0 <= n && n <= l1) {
        Ok(None)
    } else {
        Ok(Some(format!("CLI diagnostics point at lines {lines:?}, construct spans lines {l0}..={l1}")))
    }
}

// ---------------------------------------------------------------------------------------------------------------------
// Driver
// ---------------------------------------------------------------------------------------------------------------------

struct Run {
    out: Outcome,
    ev: Evidence,
    cells_rule_ctx: BTreeMap<String, u64>,
    info: BTreeMap<String, u64>,
    cli_pool: Vec<(Case, Judged)>,
    cli_every: u64,
    fail_hist: BTreeMap<String, u64>,
    sampled: std::collections::BTreeSet<String>,
}

impl Run {
    /// keys of open known findings that switch generator features off
    fn open(&self, key: &str) -> bool {
        self.out.is_known(key)
    }

    /// Some(key) if the case lies in a cell excluded because of an open known finding.
    fn excluded_by(&self, c: &Case) -> Option<&'static str> {
        c.construct_keys().into_iter().find(|k| self.open(k))
    }

    fn record(&mut self, c: &Case, j: &Judged) {
        self.ev.case(if c.nontrivial() { Some(case_id(c, &j.twin)) } else { None });
        self.ev.class(&format!("rule:{}", c.rule.name()));
        self.ev.class(&format!("root:{}", c.root.name()));
        self.ev.class(&format!("depth:{}", c.depth()));
        for n in &c.path {
            self.ev.class(&format!("nest:{}", n.name()));
        }
        self.ev.class(&format!("siblings:{}", c.sib.len()));
        for (k, _) in &c.sib {
            self.ev.class(&format!("sibling:{}", k.name()));
        }
        if c.rule.has_decl() {
            self.ev.class(&format!("decl-scopes-up:{}", c.eff_decl_up()));
        }
        *self.cells_rule_ctx.entry(format!("{} @ {}", c.rule.name(), c.ctx_name())).or_insert(0) += 1;
        if c.rule.kind() == Kind::Match {
            // shape of the remaining arms in the violating program
            let text = j.bad.get(j.construct.0..j.construct.1).unwrap_or("");
            let arms = text.lines().skip(1).filter(|l| l.trim_start().starts_with("case ") || l.contains("=>")).count();
            let nvars = if matches!(c.rule, Rule::MatchEnumUnit | Rule::MatchEnumData) { 3 } else { 2 };
            self.ev.class(if arms >= nvars { "match-shape:arms>=variants" } else { "match-shape:arms<variants" });
            if text.contains(" if ") {
                self.ev.class("match-shape:guarded-arm");
            }
        }
    }

    /// Handle the verdict of one evaluated case; returns true if it failed (so the caller may shrink first).
    fn settle(&mut self, c: &Case, j: &Judged) {
        match &j.verdict {
            Verdict::Pass => {
                if c.rule.informational() {
                    *self.info.entry(format!("{}: rejected+located", c.rule.name())).or_insert(0) += 1;
                }
            }
            Verdict::Noise(r) => {
                // keep the reason short and stable: strip the free text after the class
                let class = r.split(':').next().unwrap_or("noise");
                self.ev.discard(&format!("{class} [{}]", c.rule.name()));
                if r.starts_with("self-check") {
                    self.out.inconclusive(&format!("{r} for case {}", c.to_json()));
                }
            }
            Verdict::Fail { leg, detail } => {
                if c.rule.informational() {
                    *self.info.entry(format!("{}: {leg}", c.rule.name())).or_insert(0) += 1;
                    return;
                }
                let key = fail_key(c, leg);
                *self.fail_hist.entry(key.clone()).or_insert(0) += 1;
                let what = format!(
                    "rule {} in context root={} path={:?} decl_up={}\n{detail}\nconstruct: {:?}\n--- violating program ---\n{}",
                    c.rule.name(),
                    c.root.name(),
                    c.path_names(),
                    c.eff_decl_up(),
                    j.bad.get(j.construct.0..j.construct.1).unwrap_or(""),
                    j.bad.strip_prefix(PRELUDE).unwrap_or(&j.bad)
                );
                if self.open(&key) {
                    // cannot happen for generated cases (excluded by construction); replayed canonical inputs go
                    // through known_replayed instead
                    self.ev.exclude(&key);
                    return;
                }
                let body = replay_body(Some(c), j, &key, detail);
                self.out.violation(&mut self.ev, &key, "json", &body, &what);
            }
        }
    }
}

fn case_strategy(min_depth: usize, max_depth: usize) -> BoxedStrategy<RawCase> {
    (
        any::<u16>(),
        0u8..5,
        proptest::collection::vec(any::<u8>(), min_depth..=max_depth),
        0u8..4,
        any::<[u8; 4]>(),
        proptest::collection::vec((0u8..SIBS.len() as u8, 0u8..4), 0..=3),
    )
        .boxed()
}

/// Build a valid case from raw generator output (construction, not rejection).
#[derive(Clone, Copy)]
struct Switches {
    /// the elif finding is open: `elif` is never offered as a context
    avoid_elif: bool,
    /// the lookup_local finding is open: plain reassignments keep their binding in the same scope
    same_scope_assign: bool,
}

fn build_case(raw: &RawCase, sw: Switches) -> Case {
    // declaration-level rules have no path: the random leg draws from the nestable rules only
    let nestable: Vec<Rule> = RULES.iter().copied().filter(|r| r.kind() != Kind::Decl).collect();
    let rule = nestable[vcore::gen::idx(raw.0, nestable.len())];
    let mut root = ROOTS[(raw.1 as usize) % ROOTS.len()];
    if !rule.root_ok(root) {
        root = Root::ModelMethod;
    }
    let path = build_path(rule, &raw.2, sw.avoid_elif);
    let decl_up = if sw.same_scope_assign && matches!(rule, Rule::Reassign | Rule::AssignReassign) { 0 } else { raw.3 };
    let avoid = sw.avoid_elif;
    let _ = avoid;
    let sib: Vec<(Sib, u8)> = raw.5.iter().map(|(k, up)| (SIBS[(*k as usize) % SIBS.len()], *up)).collect();
    Case { rule, root, path, decl_up, v: raw.4, sib }
}

const MATCH_SHAPES: u8 = 24;
const VARIANTS: [[u8; 4]; 4] = [[0, 0, 0, 0], [1, 1, 1, 1], [2, 2, 2, 2], [3, 5, 4, 3]];

fn all_paths(max_depth: usize) -> Vec<Vec<Nest>> {
    let mut out: Vec<Vec<Nest>> = vec![vec![]];
    let mut frontier: Vec<Vec<Nest>> = vec![vec![]];
    for _ in 0..max_depth {
        let mut next = Vec::new();
        for p in &frontier {
            for n in NESTS {
                let mut q = p.clone();
                q.push(n);
                next.push(q);
            }
        }
        out.extend(next.iter().cloned());
        frontier = next;
    }
    out
}

fn main() {
    let args = Args::parse("C03");
    util::install_quiet_panic_hook();
    // in-process work runs on VERIF_WORKERS threads (the machine is shared)
    let _ = rayon::ThreadPoolBuilder::new().num_threads(vf::default_workers().max(1)).build_global();
    let mut out = Outcome::new("C03");
    out.max_reports = 10;
    let mut ev = Evidence::new(
        &args,
        "case = (rule, root, nesting path, scopes between the rule's binding and the hole, variant bytes) rendered to a \
         violating program and its valid twin. Non-trivial: the hole is below function-body top level (depth >= 1) or inside a \
         method / trait default method / closure / comprehension; declaration-level trait-adoption cases are non-trivial when the \
         adopter lists two traits. Distinct = (rule, root, path, effective declaration distance, hash of the twin source).",
    );
    ev.assume("the demanded rules are the ones listed in the property statement plus two the docs state explicitly: `?` only inside a function returning Result (explanation/error_handling.md), @requires field types must be compatible (reference/derives_and_traits.md)");
    ev.assume("a twin the checker rejects is generator noise or a false rejection of the checker; neither is a C03 violation (counted under discarded)");
    ev.assume("`xs.append(..)` and `xs[i] = v` through a non-mut binding are recorded as informational only: the docs tutorials do both without `mut`");
    ev.assume("error-type compatibility of `?` is not demanded inside closure bodies (a closure's own return type is undocumented)");
    let mut run = Run { out, ev, cells_rule_ctx: BTreeMap::new(), info: BTreeMap::new(), cli_pool: Vec::new(), cli_every: args.tier.pick(5, 150), fail_hist: BTreeMap::new(), sampled: Default::default() };

    // ---- replay mode
    if let Some(path) = &args.replay {
        let text = std::fs::read_to_string(path).unwrap_or_default();
        let v: Value = serde_json::from_str(&text).unwrap_or(Value::Null);
        if let Some(c) = v.get("case").and_then(Case::from_json) {
            let j = judge(&c);
            run.record(&c, &j);
            run.ev.sample(json!({"case": c.to_json(), "violating": j.bad, "construct": [j.construct.0, j.construct.1]}));
            // strict: known findings are violations in replay mode
            if let Verdict::Fail { leg, detail } = &j.verdict {
                let key = fail_key(&c, leg);
                let body = replay_body(Some(&c), &j, &key, detail);
                run.out.violation(&mut run.ev, &key, "json", &body, &format!("{detail}\n{}", j.bad));
            } else if let Verdict::Noise(r) = &j.verdict {
                run.ev.discard(r);
                println!("note: replayed case is generator noise: {r}");
            }
        } else if let (Some(bad), Some(twin)) = (v["violating"].as_str(), v["twin"].as_str()) {
            let construct = (v["construct"][0].as_u64().unwrap_or(0) as usize, v["construct"][1].as_u64().unwrap_or(0) as usize);
            let verdict = judge_texts(twin, bad, construct);
            let j = Judged { verdict: verdict.clone(), twin: twin.to_string(), bad: bad.to_string(), construct };
            run.ev.case(Some(util::hash_str(bad)));
            run.ev.sample(json!({"violating": bad, "construct": [construct.0, construct.1]}));
            match verdict {
                Verdict::Fail { leg, detail } => {
                    let key = v["signature"].as_str().map(|s| s.to_string()).unwrap_or_else(|| format!("{leg}:replayed-text"));
                    let body = replay_body(None, &j, &key, &detail);
                    run.out.violation(&mut run.ev, &key, "json", &body, &format!("{detail}\n{bad}"));
                }
                Verdict::Noise(r) => {
                    run.ev.discard(&r);
                    println!("note: replayed input is noise: {r}");
                }
                Verdict::Pass => {}
            }
        } else {
            run.out.inconclusive(&format!("cannot read replay file {}", path.display()));
        }
        let code = run.out.finish(&run.ev);
        std::process::exit(code);
    }

    // ---- canonical inputs of open known findings
    let open_entries: Vec<(String, std::path::PathBuf)> = run.out.known.open.iter().map(|e| (e.key.clone(), e.replay.clone())).collect();
    for (key, file) in &open_entries {
        let text = std::fs::read_to_string(file).unwrap_or_default();
        let v: Value = serde_json::from_str(&text).unwrap_or(Value::Null);
        let still = if let Some(c) = v.get("case").and_then(Case::from_json) {
            let j = judge(&c);
            matches!(&j.verdict, Verdict::Fail { leg, .. } if fail_key(&c, leg) == *key)
        } else if let (Some(bad), Some(twin)) = (v["violating"].as_str(), v["twin"].as_str()) {
            let construct = (v["construct"][0].as_u64().unwrap_or(0) as usize, v["construct"][1].as_u64().unwrap_or(0) as usize);
            matches!(judge_texts(twin, bad, construct), Verdict::Fail { .. })
        } else {
            run.out.inconclusive(&format!("canonical input of known finding {key} is unreadable: {}", file.display()));
            false
        };
        run.out.known_replayed(key, still);
    }
    let avoid_elif = run.open(KEY_ELIF);
    let open_keys: Vec<&str> = ALL_CONSTRUCT_KEYS.iter().copied().filter(|k| run.open(k)).collect();
    run.ev.set("generator_switches_off", json!(open_keys));

    // ---- exhaustive sweeps
    let sweep_depth = args.tier.pick(1usize, 2usize);
    let paths = all_paths(sweep_depth);
    let decl_ups: Vec<u8> = args.tier.pick(vec![0, 1], vec![0, 1, 2]);
    let mut cases: Vec<Case> = Vec::new();
    let mut inapplicable = 0u64;
    for rule in RULES {
        if rule.kind() == Kind::Decl {
            for a in 0..2u8 {
                for p in 0..3u8 {
                    for d in 0..2u8 {
                        cases.push(Case { rule, root: Root::Func, path: vec![], decl_up: 0, v: [a, p, d, 0], sib: vec![] });
                    }
                }
            }
            continue;
        }
        for root in ROOTS {
            if !rule.root_ok(root) {
                inapplicable += 1;
                continue;
            }
            for path in &paths {
                // quick: depth-1 contexts are (function, [k]) and (method-like root, []), plus the plain function body
                if args.tier == vcore::Tier::Quick && root != Root::Func && !path.is_empty() {
                    continue;
                }
                if !path_valid(rule, path) {
                    inapplicable += 1;
                    continue;
                }
                let scope = path.iter().take_while(|n| n.is_block()).count();
                for &du in &decl_ups {
                    if du > 0 && (!rule.has_decl() || du as usize > scope) {
                        continue;
                    }
                    for v in VARIANTS {
                        cases.push(Case { rule, root, path: path.clone(), decl_up: du, v, sib: vec![] });
                    }
                    if rule.kind() == Kind::Match {
                        // the shape of the remaining arms is derived from the variant bytes: sweep more of them
                        for i in 0..MATCH_SHAPES {
                            cases.push(Case { rule, root, path: path.clone(), decl_up: du, v: [i, i.wrapping_mul(7).wrapping_add(1), i.wrapping_mul(3).wrapping_add(2), i.wrapping_mul(5).wrapping_add(4)], sib: vec![] });
                        }
                    }
                }
            }
        }
    }
    // preceding-sibling sweep: every rule x every sibling kind, sibling in the same block (plain body and inside an `if`)
    // and in the enclosing block
    let mut sib_cases = 0u64;
    for rule in RULES {
        if rule.kind() == Kind::Decl {
            continue;
        }
        let roots: Vec<Root> = if args.tier == vcore::Tier::Quick {
            vec![if rule.root_ok(Root::Func) { Root::Func } else { Root::ModelMethod }]
        } else {
            ROOTS.iter().copied().filter(|r| rule.root_ok(*r)).collect()
        };
        for root in roots {
            for kind in SIBS {
                for (path, up) in [(vec![], 0u8), (vec![Nest::If], 0), (vec![Nest::If], 1), (vec![Nest::For], 1)] {
                    for v in [VARIANTS[0], VARIANTS[3]] {
                        cases.push(Case { rule, root, path: path.clone(), decl_up: 0, v, sib: vec![(kind, up)] });
                        sib_cases += 1;
                    }
                }
            }
        }
    }
    run.ev.set("exhaustive_sibling_cases", json!(sib_cases));
    run.ev.set("exhaustive_cells_inapplicable", json!(inapplicable));
    run.ev.set("exhaustive_depth", json!(sweep_depth));
    // `--legs random` (debugging aid): skip the exhaustive sweep so that failures are found and shrunk in the random leg
    if args.flag("legs") == Some("random") {
        cases.clear();
    }
    run.ev.class_n("leg:exhaustive", cases.len() as u64);
    process(&mut run, cases, None, Switches { avoid_elif, same_scope_assign: false });

    // ---- random deeper cases (proptest-generated, shrinkable)
    let n_random = args.tier.pick(3_000usize, 200_000usize);
    let (dmin, dmax) = args.tier.pick((2usize, 3usize), (3usize, 3usize));
    let strat = case_strategy(dmin, dmax);
    let mut runner = vcore::gen::runner(args.subseed(3));
    let trees = vcore::gen::batch(&strat, &mut runner, n_random);
    let raws: Vec<RawCase> = trees.iter().map(|t| t.current()).collect();
    let sw = Switches { avoid_elif, same_scope_assign: run.open(KEY_OUTER_ASSIGN) };
    let cases: Vec<Case> = raws.iter().map(|r| build_case(r, sw)).collect();
    // count what the switches changed (the substituted case is still evaluated)
    let free = Switches { avoid_elif: false, same_scope_assign: false };
    for (r, c) in raws.iter().zip(cases.iter()) {
        let unrestricted = build_case(r, free);
        if unrestricted.path.iter().any(|n| n.is_elif()) && !c.path.iter().any(|n| n.is_elif()) {
            run.ev.exclude(KEY_ELIF);
        }
        if unrestricted.eff_decl_up() != c.eff_decl_up() {
            run.ev.exclude(KEY_OUTER_ASSIGN);
        }
    }
    run.ev.class_n("leg:random", cases.len() as u64);
    process(&mut run, cases, Some(trees), sw);

    // ---- CLI leg on a sample
    let n_cli = args.tier.pick(24usize, 400usize);
    let pool = std::mem::take(&mut run.cli_pool);
    let stride = (pool.len() / n_cli.max(1)).max(1);
    let sample: Vec<&(Case, Judged)> = pool.iter().step_by(stride).take(n_cli).collect();
    let dir = vcore::verif_root().join("work").join("c03-cli").join(format!("{}-{}", std::process::id(), args.seed));
    let _ = std::fs::create_dir_all(&dir);
    let workers = vf::default_workers().max(1);
    let pool_rt = rayon::ThreadPoolBuilder::new().num_threads(workers).build();
    let results: Vec<Result<Option<String>, String>> = match pool_rt {
        Ok(p) => p.install(|| sample.par_iter().enumerate().map(|(i, (_, j))| cli_judge(&dir, &format!("c{i}"), j)).collect()),
        Err(_) => sample.iter().enumerate().map(|(i, (_, j))| cli_judge(&dir, &format!("c{i}"), j)).collect(),
    };
    let _ = std::fs::remove_dir_all(&dir);
    let mut cli_ok = 0u64;
    for ((c, j), r) in sample.iter().zip(results.iter()) {
        match r {
            Ok(None) => cli_ok += 1,
            Ok(Some(desc)) => {
                let key = format!("cli-disagrees:{}:{}", c.rule.name(), c.ctx_name());
                let body = replay_body(Some(c), j, &key, desc);
                run.out.violation(&mut run.ev, &key, "json", &body, &format!("{desc}\n{}", j.bad));
            }
            Err(e) => run.out.inconclusive(&format!("CLI leg: {e}")),
        }
    }
    run.ev.set("cli_replayed", json!(sample.len()));
    run.ev.set("cli_agree", json!(cli_ok));

    run.ev.set("prelude", json!(PRELUDE));
    run.ev.set("rule_x_context_cells", json!(run.cells_rule_ctx.len()));
    let sparse: BTreeMap<&String, &u64> = run.cells_rule_ctx.iter().filter(|(_, &n)| n < 2).collect();
    run.ev.set("rule_x_context_cells_with_single_case", json!(sparse.len()));
    run.ev.set("informational", json!(run.info));
    if !run.fail_hist.is_empty() {
        run.ev.set("failure_signatures", json!(run.fail_hist));
    }
    run.ev.exhaustive = Some(true);
    run.ev.set(
        "exhaustive_scope",
        json!(format!(
            "every rule x every legal nesting path of depth <= {sweep_depth} (quick: under a plain function, plus every method-like root with an empty path; thorough: under all 5 roots) x declaration distances x 4 variant vectors; the random leg is sampled"
        )),
    );
    let code = run.out.finish(&run.ev);
    std::process::exit(code);
}

/// Evaluate a batch: exclusions by construction, parallel judging, verdict handling, shrinking of failing random cases.
fn process(run: &mut Run, cases: Vec<Case>, mut trees: Option<Vec<Box<dyn ValueTree<Value = RawCase>>>>, sw: Switches) {
    // exclusion by known finding (counted); the case is not evaluated
    let mut todo: Vec<(usize, Case)> = Vec::with_capacity(cases.len());
    for (i, c) in cases.into_iter().enumerate() {
        if let Some(k) = run.excluded_by(&c) {
            run.ev.exclude(k);
            continue;
        }
        todo.push((i, c));
    }
    let judged: Vec<Judged> = todo.par_iter().map(|(_, c)| judge(c)).collect();
    for ((i, c), j) in todo.into_iter().zip(judged.into_iter()) {
        run.record(&c, &j);
        let failing_key = match &j.verdict {
            Verdict::Fail { leg, .. } if !c.rule.informational() => Some(fail_key(&c, leg)),
            _ => None,
        };
        if let (Some(key), Some(trees)) = (&failing_key, trees.as_mut()) {
            if !run.out.seen(key) && !run.open(key) {
                // shrink with proptest, keeping the same signature
                let small_raw = vcore::gen::shrink(&mut trees[i], 300, |raw| {
                    let c2 = build_case(raw, sw);
                    match judge(&c2).verdict {
                        Verdict::Fail { leg, .. } => fail_key(&c2, leg) == *key,
                        _ => false,
                    }
                });
                let mut c2 = build_case(&small_raw, sw);
                // the strategy cannot shorten the path below its minimum length: drop elements by hand while the
                // signature stays the same
                let mut i = 0;
                while i < c2.path.len() {
                    let mut c3 = c2.clone();
                    c3.path.remove(i);
                    let same = path_valid(c3.rule, &c3.path)
                        && matches!(judge(&c3).verdict, Verdict::Fail { leg, .. } if fail_key(&c3, leg) == *key);
                    if same {
                        c2 = c3;
                    } else {
                        i += 1;
                    }
                }
                let j2 = judge(&c2);
                run.settle(&c2, &j2);
                continue;
            }
        }
        run.settle(&c, &j);
        if matches!(j.verdict, Verdict::Pass) && !c.rule.informational() {
            let family = c.rule.name().split(':').next().unwrap_or("").to_string();
            if run.ev.want_sample() && !run.sampled.contains(&family) && (c.depth() >= 2 || c.rule.kind() == Kind::Decl) {
                run.sampled.insert(family);
                run.ev.sample(json!({
                    "case": c.to_json(),
                    "violating_after_prelude": j.bad.strip_prefix(PRELUDE).unwrap_or(&j.bad),
                    "construct": [j.construct.0, j.construct.1],
                    "construct_text": j.bad.get(j.construct.0..j.construct.1).unwrap_or(""),
                }));
            }
            // candidates for the CLI leg: spread over rules and contexts
            if run.ev.evaluations % run.cli_every == 0 && run.cli_pool.len() < 4_000 {
                run.cli_pool.push((c, j));
            }
        }
    }
}

type RawCase = (u16, u8, Vec<u8>, u8, [u8; 4], Vec<(u8, u8)>);
