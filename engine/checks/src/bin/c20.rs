//! C20 — derived JSON, equality, ordering and hashing are structural and round-trip.
//!
//! Generated programs declare 1-3 models/classes (fields int/float/bool/str/List/Dict[str,_]/Option/nested model,
//! depth <= 2, optional defaults, one derive set consistent with the field types) and, for up to 6 value pairs
//! (v1, v2) of the last declaration, print `json_stringify(v1)`, the verdict of `T.from_json(..)` compared with v1,
//! `==`, `!=`, `<`, `>`, dict and set lookups with separately constructed keys, and a clone-then-mutate probe.
//! Oracle: harness-side structural model of the values plus a small JSON reader written here (no serde in the oracle).

use proptest::prelude::*;
use proptest::strategy::ValueTree;
use serde_json::{json, Value};
use std::cmp::Ordering;
use vcore::farm::{Farm, FarmOut, Mode, Project};
use vcore::{gen, util, Args, Evidence, Outcome};

const K_CLONE: &str = "clone:typechecker-rejects-clone-on-model";
const K_CLASS_NOMETHOD: &str = "from_json:class-without-methods";

// ---------------------------------------------------------------------------------------------------------------------
// small JSON reader (oracle side)
// ---------------------------------------------------------------------------------------------------------------------

#[derive(Clone, Debug, PartialEq)]
enum JV {
    Null,
    Bool(bool),
    Num(String),
    Str(String),
    Arr(Vec<JV>),
    Obj(Vec<(String, JV)>),
}

struct JP<'a> {
    s: &'a [u8],
    i: usize,
}

impl<'a> JP<'a> {
    fn ws(&mut self) {
        while self.i < self.s.len() && matches!(self.s[self.i], b' ' | b'\t' | b'\n' | b'\r') {
            self.i += 1;
        }
    }
    fn eat(&mut self, c: u8) -> Result<(), String> {
        if self.i < self.s.len() && self.s[self.i] == c {
            self.i += 1;
            Ok(())
        } else {
            Err(format!("expected '{}' at byte {}", c as char, self.i))
        }
    }
    fn lit(&mut self, word: &str, v: JV) -> Result<JV, String> {
        if self.s[self.i..].starts_with(word.as_bytes()) {
            self.i += word.len();
            Ok(v)
        } else {
            Err(format!("bad literal at byte {}", self.i))
        }
    }
    fn hex4(&mut self) -> Result<u32, String> {
        if self.i + 4 > self.s.len() {
            return Err("short \\u escape".into());
        }
        let t = std::str::from_utf8(&self.s[self.i..self.i + 4]).map_err(|_| "bad \\u escape")?;
        self.i += 4;
        u32::from_str_radix(t, 16).map_err(|_| "bad \\u escape".to_string())
    }
    fn string(&mut self) -> Result<String, String> {
        self.eat(b'"')?;
        let mut out: Vec<u8> = Vec::new();
        loop {
            if self.i >= self.s.len() {
                return Err("unterminated string".into());
            }
            let c = self.s[self.i];
            self.i += 1;
            match c {
                b'"' => break,
                b'\\' => {
                    if self.i >= self.s.len() {
                        return Err("dangling escape".into());
                    }
                    let e = self.s[self.i];
                    self.i += 1;
                    let ch = match e {
                        b'"' => '"',
                        b'\\' => '\\',
                        b'/' => '/',
                        b'b' => '\u{8}',
                        b'f' => '\u{c}',
                        b'n' => '\n',
                        b'r' => '\r',
                        b't' => '\t',
                        b'u' => {
                            let mut cp = self.hex4()?;
                            if (0xD800..0xDC00).contains(&cp) {
                                if self.s[self.i..].starts_with(b"\\u") {
                                    self.i += 2;
                                    let lo = self.hex4()?;
                                    cp = 0x10000 + ((cp - 0xD800) << 10) + (lo.wrapping_sub(0xDC00) & 0x3FF);
                                } else {
                                    return Err("lone surrogate".into());
                                }
                            }
                            char::from_u32(cp).ok_or("bad code point")?
                        }
                        _ => return Err(format!("unknown escape \\{}", e as char)),
                    };
                    let mut buf = [0u8; 4];
                    out.extend_from_slice(ch.encode_utf8(&mut buf).as_bytes());
                }
                c if c < 0x20 => return Err("raw control character in string".into()),
                c => out.push(c),
            }
        }
        String::from_utf8(out).map_err(|_| "invalid UTF-8 in string".to_string())
    }
    fn value(&mut self) -> Result<JV, String> {
        self.ws();
        if self.i >= self.s.len() {
            return Err("unexpected end".into());
        }
        match self.s[self.i] {
            b'n' => self.lit("null", JV::Null),
            b't' => self.lit("true", JV::Bool(true)),
            b'f' => self.lit("false", JV::Bool(false)),
            b'"' => Ok(JV::Str(self.string()?)),
            b'[' => {
                self.i += 1;
                let mut v = Vec::new();
                self.ws();
                if self.i < self.s.len() && self.s[self.i] == b']' {
                    self.i += 1;
                    return Ok(JV::Arr(v));
                }
                loop {
                    v.push(self.value()?);
                    self.ws();
                    if self.i < self.s.len() && self.s[self.i] == b',' {
                        self.i += 1;
                        continue;
                    }
                    self.eat(b']')?;
                    return Ok(JV::Arr(v));
                }
            }
            b'{' => {
                self.i += 1;
                let mut v = Vec::new();
                self.ws();
                if self.i < self.s.len() && self.s[self.i] == b'}' {
                    self.i += 1;
                    return Ok(JV::Obj(v));
                }
                loop {
                    self.ws();
                    let k = self.string()?;
                    self.ws();
                    self.eat(b':')?;
                    let x = self.value()?;
                    v.push((k, x));
                    self.ws();
                    if self.i < self.s.len() && self.s[self.i] == b',' {
                        self.i += 1;
                        continue;
                    }
                    self.eat(b'}')?;
                    return Ok(JV::Obj(v));
                }
            }
            b'-' | b'0'..=b'9' => {
                let st = self.i;
                while self.i < self.s.len() && matches!(self.s[self.i], b'-' | b'+' | b'.' | b'e' | b'E' | b'0'..=b'9') {
                    self.i += 1;
                }
                Ok(JV::Num(String::from_utf8_lossy(&self.s[st..self.i]).to_string()))
            }
            c => Err(format!("unexpected '{}' at byte {}", c as char, self.i)),
        }
    }
}

fn parse_json(s: &str) -> Result<JV, String> {
    let mut p = JP { s: s.as_bytes(), i: 0 };
    let v = p.value()?;
    p.ws();
    if p.i != s.len() {
        return Err(format!("trailing bytes at {}", p.i));
    }
    Ok(v)
}

// ---------------------------------------------------------------------------------------------------------------------
// structural model
// ---------------------------------------------------------------------------------------------------------------------

#[derive(Clone, Debug, PartialEq)]
enum FT {
    Int,
    Float,
    Bool,
    Str,
    List(Box<FT>),
    Dict(Box<FT>),
    Opt(Box<FT>),
    Nested(usize),
}

impl FT {
    fn text(&self, decls: &[Decl]) -> String {
        match self {
            FT::Int => "int".into(),
            FT::Float => "float".into(),
            FT::Bool => "bool".into(),
            FT::Str => "str".into(),
            FT::List(t) => format!("List[{}]", t.text(decls)),
            FT::Dict(t) => format!("Dict[str, {}]", t.text(decls)),
            FT::Opt(t) => format!("Option[{}]", t.text(decls)),
            FT::Nested(j) => decls[*j].name.clone(),
        }
    }
    fn class(&self) -> String {
        match self {
            FT::Int => "int".into(),
            FT::Float => "float".into(),
            FT::Bool => "bool".into(),
            FT::Str => "str".into(),
            FT::List(t) => format!("List[{}]", t.class()),
            FT::Dict(t) => format!("Dict[{}]", t.class()),
            FT::Opt(t) => format!("Option[{}]", t.class()),
            FT::Nested(_) => "model".into(),
        }
    }
    fn any(&self, decls: &[Decl], f: &dyn Fn(&FT) -> bool) -> bool {
        if f(self) {
            return true;
        }
        match self {
            FT::List(t) | FT::Dict(t) | FT::Opt(t) => t.any(decls, f),
            FT::Nested(j) => decls[*j].fields.iter().any(|fd| fd.ty.any(decls, f)),
            _ => false,
        }
    }
}

#[derive(Clone, Debug, PartialEq)]
enum V {
    I(i64),
    F(f64),
    B(bool),
    S(String),
    L(Vec<V>),
    /// sorted, unique keys
    D(Vec<(String, V)>),
    O(Option<Box<V>>),
    M(usize, Vec<V>),
}

#[derive(Clone, Debug)]
struct Field {
    name: String,
    ty: FT,
    default: Option<V>,
}

#[derive(Clone, Debug)]
struct Decl {
    name: String,
    is_class: bool,
    with_method: bool,
    fields: Vec<Field>,
}

#[derive(Clone, Copy, Debug, PartialEq)]
enum EqK {
    None,
    Eq,
    PartialEq,
}
#[derive(Clone, Copy, Debug, PartialEq)]
enum OrdK {
    None,
    Ord,
    PartialOrd,
}

#[derive(Clone, Copy, Debug)]
struct Derives {
    json: bool,
    eq: EqK,
    ord: OrdK,
    hash: bool,
    explicit_clone: bool,
}

impl Derives {
    fn list(&self) -> Vec<&'static str> {
        let mut v = Vec::new();
        if self.json {
            v.push("Serialize");
            v.push("Deserialize");
        }
        match self.eq {
            EqK::Eq => v.push("Eq"),
            EqK::PartialEq => v.push("PartialEq"),
            EqK::None => {}
        }
        match self.ord {
            OrdK::Ord => v.push("Ord"),
            OrdK::PartialOrd => v.push("PartialOrd"),
            OrdK::None => {}
        }
        if self.hash {
            v.push("Hash");
        }
        if self.explicit_clone {
            v.push("Clone");
        }
        v
    }
}

fn esc(s: &str) -> String {
    let mut o = String::from("\"");
    for c in s.chars() {
        match c {
            '"' => o.push_str("\\\""),
            '\\' => o.push_str("\\\\"),
            '\n' => o.push_str("\\n"),
            '\t' => o.push_str("\\t"),
            c => o.push(c),
        }
    }
    o.push('"');
    o
}

/// Incan expression for a value. `top`: directly a constructor argument (string literals are converted there);
/// nested string literals go through `sk(..)` because collection literals of string literals are emitted as &str today.
fn expr(v: &V, decls: &[Decl], top: bool, omit_defaults: bool) -> String {
    match v {
        V::I(i) => i.to_string(),
        V::F(f) => format!("{:?}", f),
        V::B(b) => b.to_string(),
        V::S(s) => {
            if top {
                esc(s)
            } else {
                format!("sk({})", esc(s))
            }
        }
        V::L(xs) => format!("[{}]", xs.iter().map(|x| expr(x, decls, false, omit_defaults)).collect::<Vec<_>>().join(", ")),
        V::D(kv) => format!("{{{}}}", kv.iter().map(|(k, x)| format!("sk({}): {}", esc(k), expr(x, decls, false, omit_defaults))).collect::<Vec<_>>().join(", ")),
        V::O(None) => "None".into(),
        V::O(Some(x)) => format!("Some({})", expr(x, decls, false, omit_defaults)),
        V::M(j, vals) => {
            let d = &decls[*j];
            let mut args = Vec::new();
            for (f, x) in d.fields.iter().zip(vals) {
                if omit_defaults && f.default.as_ref() == Some(x) {
                    continue;
                }
                args.push(format!("{}={}", f.name, expr(x, decls, true, omit_defaults)));
            }
            format!("{}({})", d.name, args.join(", "))
        }
    }
}

/// structural comparison; None when the documented behaviour does not determine the order (None vs Some)
fn cmp(a: &V, b: &V) -> Option<Ordering> {
    match (a, b) {
        (V::I(x), V::I(y)) => Some(x.cmp(y)),
        (V::F(x), V::F(y)) => x.partial_cmp(y),
        (V::B(x), V::B(y)) => Some(x.cmp(y)),
        (V::S(x), V::S(y)) => Some(x.as_bytes().cmp(y.as_bytes())),
        (V::L(x), V::L(y)) => {
            for (p, q) in x.iter().zip(y) {
                match cmp(p, q)? {
                    Ordering::Equal => {}
                    o => return Some(o),
                }
            }
            Some(x.len().cmp(&y.len()))
        }
        (V::O(None), V::O(None)) => Some(Ordering::Equal),
        (V::O(Some(x)), V::O(Some(y))) => cmp(x, y),
        (V::O(_), V::O(_)) => None,
        (V::M(_, x), V::M(_, y)) => {
            for (p, q) in x.iter().zip(y) {
                match cmp(p, q)? {
                    Ordering::Equal => {}
                    o => return Some(o),
                }
            }
            Some(Ordering::Equal)
        }
        (V::D(_), V::D(_)) => {
            if a == b {
                Some(Ordering::Equal)
            } else {
                None
            }
        }
        _ => None,
    }
}

fn json_matches(j: &JV, v: &V, decls: &[Decl], path: &str) -> Result<(), (String, String)> {
    let bad = |kind: &str, what: String| Err((kind.to_string(), format!("{path}: {what}")));
    match (v, j) {
        (V::I(x), JV::Num(t)) => {
            if t.parse::<i64>().ok() == Some(*x) {
                Ok(())
            } else {
                bad("int", format!("number {t} for int {x}"))
            }
        }
        (V::F(x), JV::Num(t)) => {
            if t.parse::<f64>().ok() == Some(*x) {
                Ok(())
            } else {
                bad("float", format!("number {t} for float {x:?}"))
            }
        }
        (V::B(x), JV::Bool(y)) if x == y => Ok(()),
        (V::S(x), JV::Str(y)) => {
            if x == y {
                Ok(())
            } else {
                bad("str", format!("string {y:?} for {x:?}"))
            }
        }
        (V::L(xs), JV::Arr(ys)) => {
            if xs.len() != ys.len() {
                return bad("List", format!("array of {} for list of {}", ys.len(), xs.len()));
            }
            for (i, (x, y)) in xs.iter().zip(ys).enumerate() {
                json_matches(y, x, decls, &format!("{path}[{i}]"))?;
            }
            Ok(())
        }
        (V::D(kv), JV::Obj(o)) => {
            let mut keys: Vec<&String> = o.iter().map(|(k, _)| k).collect();
            keys.sort();
            let want: Vec<&String> = kv.iter().map(|(k, _)| k).collect();
            if keys != want {
                return bad("Dict", format!("object keys {keys:?} for dict keys {want:?}"));
            }
            for (k, x) in kv {
                let y = &o.iter().find(|(k2, _)| k2 == k).unwrap().1;
                json_matches(y, x, decls, &format!("{path}[{k:?}]"))?;
            }
            Ok(())
        }
        (V::O(None), JV::Null) => Ok(()),
        (V::O(Some(x)), y) if *y != JV::Null || matches!(**x, V::O(_)) => json_matches(y, x, decls, path),
        (V::M(jx, vals), JV::Obj(o)) => {
            let d = &decls[*jx];
            let got: Vec<&String> = o.iter().map(|(k, _)| k).collect();
            let mut gs = got.clone();
            gs.sort();
            let mut want: Vec<&String> = d.fields.iter().map(|f| &f.name).collect();
            want.sort();
            if gs != want {
                return Err(("key-set".into(), format!("{path}: object keys {got:?}, declared fields {:?}", d.fields.iter().map(|f| &f.name).collect::<Vec<_>>())));
            }
            for (f, x) in d.fields.iter().zip(vals) {
                let y = &o.iter().find(|(k2, _)| k2 == &f.name).unwrap().1;
                json_matches(y, x, decls, &format!("{path}.{}", f.name))?;
            }
            Ok(())
        }
        (v, j) => {
            let kind = match v {
                V::I(_) => "int",
                V::F(_) => "float",
                V::B(_) => "bool",
                V::S(_) => "str",
                V::L(_) => "List",
                V::D(_) => "Dict",
                V::O(_) => "Option",
                V::M(..) => "model",
            };
            bad(kind, format!("JSON {j:?} does not map {v:?}"))
        }
    }
}

// ---------------------------------------------------------------------------------------------------------------------
// serialisation of cases (replay files)
// ---------------------------------------------------------------------------------------------------------------------

fn ft_json(t: &FT) -> Value {
    match t {
        FT::Int => json!("int"),
        FT::Float => json!("float"),
        FT::Bool => json!("bool"),
        FT::Str => json!("str"),
        FT::List(x) => json!({"list": ft_json(x)}),
        FT::Dict(x) => json!({"dict": ft_json(x)}),
        FT::Opt(x) => json!({"opt": ft_json(x)}),
        FT::Nested(j) => json!({"nested": j}),
    }
}
fn ft_from(v: &Value) -> Option<FT> {
    if let Some(s) = v.as_str() {
        return Some(match s {
            "int" => FT::Int,
            "float" => FT::Float,
            "bool" => FT::Bool,
            "str" => FT::Str,
            _ => return None,
        });
    }
    if let Some(x) = v.get("list") {
        return Some(FT::List(Box::new(ft_from(x)?)));
    }
    if let Some(x) = v.get("dict") {
        return Some(FT::Dict(Box::new(ft_from(x)?)));
    }
    if let Some(x) = v.get("opt") {
        return Some(FT::Opt(Box::new(ft_from(x)?)));
    }
    Some(FT::Nested(v.get("nested")?.as_u64()? as usize))
}
fn v_json(v: &V) -> Value {
    match v {
        V::I(i) => json!({"i": i}),
        V::F(f) => json!({"f": f}),
        V::B(b) => json!({"b": b}),
        V::S(s) => json!({"s": s}),
        V::L(xs) => json!({"l": xs.iter().map(v_json).collect::<Vec<_>>()}),
        V::D(kv) => json!({"d": kv.iter().map(|(k, x)| json!([k, v_json(x)])).collect::<Vec<_>>()}),
        V::O(None) => json!({"o": null}),
        V::O(Some(x)) => json!({"o": v_json(x)}),
        V::M(j, vals) => json!({"m": j, "v": vals.iter().map(v_json).collect::<Vec<_>>()}),
    }
}
fn v_from(v: &Value) -> Option<V> {
    if let Some(x) = v.get("i") {
        return x.as_i64().map(V::I);
    }
    if let Some(x) = v.get("f") {
        return x.as_f64().map(V::F);
    }
    if let Some(x) = v.get("b") {
        return x.as_bool().map(V::B);
    }
    if let Some(x) = v.get("s") {
        return x.as_str().map(|s| V::S(s.to_string()));
    }
    if let Some(x) = v.get("l") {
        return x.as_array()?.iter().map(v_from).collect::<Option<Vec<_>>>().map(V::L);
    }
    if let Some(x) = v.get("d") {
        return x.as_array()?.iter().map(|e| Some((e.get(0)?.as_str()?.to_string(), v_from(e.get(1)?)?))).collect::<Option<Vec<_>>>().map(V::D);
    }
    if let Some(x) = v.get("o") {
        return Some(if x.is_null() { V::O(None) } else { V::O(Some(Box::new(v_from(x)?))) });
    }
    let j = v.get("m")?.as_u64()? as usize;
    Some(V::M(j, v.get("v")?.as_array()?.iter().map(v_from).collect::<Option<Vec<_>>>()?))
}

#[derive(Clone, Debug)]
struct Case {
    decls: Vec<Decl>,
    der: Derives,
    pairs: Vec<(V, V, String)>,
    clone_probe: bool,
}

fn case_json(c: &Case, key: &str, name: &str) -> String {
    serde_json::to_string_pretty(&json!({
        "signature": key,
        "name": name,
        "source": render(c),
        "decls": c.decls.iter().map(|d| json!({
            "name": d.name, "is_class": d.is_class, "with_method": d.with_method,
            "fields": d.fields.iter().map(|f| json!({"name": f.name, "ty": ft_json(&f.ty), "default": f.default.as_ref().map(v_json)})).collect::<Vec<_>>(),
        })).collect::<Vec<_>>(),
        "derives": {"json": c.der.json, "eq": format!("{:?}", c.der.eq), "ord": format!("{:?}", c.der.ord), "hash": c.der.hash, "clone": c.der.explicit_clone},
        "pairs": c.pairs.iter().map(|(a, b, k)| json!([v_json(a), v_json(b), k])).collect::<Vec<_>>(),
        "clone_probe": c.clone_probe,
    }))
    .unwrap()
}

fn case_from(text: &str) -> Option<(Case, String)> {
    let v: Value = serde_json::from_str(text).ok()?;
    let decls = v
        .get("decls")?
        .as_array()?
        .iter()
        .map(|d| {
            Some(Decl {
                name: d.get("name")?.as_str()?.to_string(),
                is_class: d.get("is_class")?.as_bool()?,
                with_method: d.get("with_method")?.as_bool()?,
                fields: d
                    .get("fields")?
                    .as_array()?
                    .iter()
                    .map(|f| {
                        Some(Field {
                            name: f.get("name")?.as_str()?.to_string(),
                            ty: ft_from(f.get("ty")?)?,
                            default: match f.get("default") {
                                Some(x) if !x.is_null() => Some(v_from(x)?),
                                _ => None,
                            },
                        })
                    })
                    .collect::<Option<Vec<_>>>()?,
            })
        })
        .collect::<Option<Vec<_>>>()?;
    let d = v.get("derives")?;
    let der = Derives {
        json: d.get("json")?.as_bool()?,
        eq: match d.get("eq")?.as_str()? {
            "Eq" => EqK::Eq,
            "PartialEq" => EqK::PartialEq,
            _ => EqK::None,
        },
        ord: match d.get("ord")?.as_str()? {
            "Ord" => OrdK::Ord,
            "PartialOrd" => OrdK::PartialOrd,
            _ => OrdK::None,
        },
        hash: d.get("hash")?.as_bool()?,
        explicit_clone: d.get("clone")?.as_bool()?,
    };
    let pairs = v
        .get("pairs")?
        .as_array()?
        .iter()
        .map(|p| Some((v_from(p.get(0)?)?, v_from(p.get(1)?)?, p.get(2).and_then(|k| k.as_str()).unwrap_or("?").to_string())))
        .collect::<Option<Vec<_>>>()?;
    let name = v.get("name").and_then(|n| n.as_str()).unwrap_or("c20replay").to_string();
    Some((Case { decls, der, pairs, clone_probe: v.get("clone_probe")?.as_bool()? }, name))
}

// ---------------------------------------------------------------------------------------------------------------------
// rendering
// ---------------------------------------------------------------------------------------------------------------------

/// first field (index, mutated value) usable for the clone-then-mutate probe: a scalar or list field of the target
fn clone_mutation(c: &Case, v1: &V) -> Option<(usize, V)> {
    let V::M(j, vals) = v1 else { return None };
    for (k, f) in c.decls[*j].fields.iter().enumerate() {
        let nv = match (&f.ty, &vals[k]) {
            (FT::Int, V::I(x)) => V::I(if *x == i64::MAX { 0 } else { x + 1 }),
            (FT::Bool, V::B(b)) => V::B(!b),
            (FT::Str, V::S(s)) => V::S(format!("{s}+")),
            (FT::Float, V::F(x)) => V::F(x + 1.0),
            _ => continue,
        };
        return Some((k, nv));
    }
    None
}

fn render(c: &Case) -> String {
    let mut s = String::from("def sk(s: str) -> str:\n    return s\n\n");
    let ders = c.der.list();
    for d in &c.decls {
        if !ders.is_empty() {
            s.push_str(&format!("@derive({})\n", ders.join(", ")));
        }
        s.push_str(&format!("{} {}:\n", if d.is_class { "class" } else { "model" }, d.name));
        for f in &d.fields {
            match &f.default {
                Some(v) => s.push_str(&format!("    {}: {} = {}\n", f.name, f.ty.text(&c.decls), expr(v, &c.decls, true, false))),
                None => s.push_str(&format!("    {}: {}\n", f.name, f.ty.text(&c.decls))),
            }
        }
        if d.with_method {
            s.push_str("    def tag(self) -> int:\n        return 1\n");
        }
        s.push('\n');
    }
    let t = &c.decls.last().unwrap().name;
    s.push_str("def main() -> None:\n");
    for (i, (v1, v2, _)) in c.pairs.iter().enumerate() {
        let e1 = expr(v1, &c.decls, true, true);
        let e1_full = expr(v1, &c.decls, true, false);
        let e2 = expr(v2, &c.decls, true, false);
        s.push_str(&format!("    v{i}a = {e1}\n    v{i}b = {e2}\n"));
        if c.der.json {
            s.push_str(&format!("    j{i} = json_stringify(v{i}a)\n    println(f\"J{i}={{j{i}}}\")\n    match {t}.from_json(j{i}):\n"));
            if c.der.eq != EqK::None {
                s.push_str(&format!("        Ok(back) => println(f\"R{i}={{back == v{i}a}}\")\n"));
            } else {
                s.push_str(&format!("        Ok(back) => println(\"R{i}=ok\")\n"));
            }
            s.push_str(&format!("        Err(e) => println(f\"R{i}=ERR {{e}}\")\n"));
        }
        if c.der.eq != EqK::None {
            s.push_str(&format!("    println(f\"E{i}={{v{i}a == v{i}b}}\")\n    println(f\"X{i}={{v{i}a != v{i}b}}\")\n"));
        }
        if c.der.ord != OrdK::None {
            s.push_str(&format!("    println(f\"L{i}={{v{i}a < v{i}b}}\")\n    println(f\"G{i}={{v{i}a > v{i}b}}\")\n"));
        }
        if c.der.hash {
            s.push_str(&format!("    d{i}: Dict[{t}, int] = {{{e1_full}: 7}}\n    println(f\"H{i}={{v{i}a in d{i}}}\")\n    println(f\"N{i}={{v{i}b in d{i}}}\")\n"));
            s.push_str(&format!("    s{i}: Set[{t}] = {{{e1_full}}}\n    println(f\"S{i}={{v{i}a in s{i}}}\")\n    println(f\"T{i}={{v{i}b in s{i}}}\")\n"));
        }
        if c.clone_probe && c.der.eq != EqK::None {
            if let Some((k, nv)) = clone_mutation(c, v1) {
                let V::M(j, _) = v1 else { unreachable!() };
                let fname = &c.decls[*j].fields[k].name;
                s.push_str(&format!("    v{i}k = {e1_full}\n    mut c{i} = v{i}a.clone()\n    println(f\"Ca{i}={{c{i} == v{i}a}}\")\n"));
                // a string literal assigned to a field is emitted as &str today (C02's business): go through sk(..)
                s.push_str(&format!("    c{i}.{fname} = {}\n", expr(&nv, &c.decls, false, false)));
                s.push_str(&format!("    println(f\"Cb{i}={{c{i} == v{i}a}}\")\n    println(f\"Cc{i}={{v{i}a == v{i}k}}\")\n"));
            }
        }
    }
    s.push_str("    println(\"END\")\n");
    s
}

// ---------------------------------------------------------------------------------------------------------------------
// judge
// ---------------------------------------------------------------------------------------------------------------------

#[derive(Clone, Debug)]
enum Verdict {
    Pass,
    Discard(String, String),
    Infra(String),
    Fail { key: String, detail: String },
}

fn as_bool(t: &str) -> Option<bool> {
    match t.trim() {
        "true" | "True" => Some(true),
        "false" | "False" => Some(false),
        _ => None,
    }
}

#[derive(Default)]
struct Stats {
    ord_undetermined: u64,
    legs: u64,
}

fn judge(c: &Case, out: &FarmOut, stats: &mut Stats) -> Verdict {
    if let Some(e) = &out.infra_error {
        return Verdict::Infra(e.clone());
    }
    if let Some(ch) = &out.check {
        if ch.status.is_none() && ch.stderr.starts_with("spawn failed") {
            return Verdict::Infra(ch.stderr.clone());
        }
        if !ch.ok() {
            let text = format!("{}{}", ch.stdout, ch.stderr);
            if text.contains("has no method 'clone") {
                return Verdict::Fail { key: K_CLONE.into(), detail: util::truncate(&text, 1500) };
            }
            return Verdict::Discard("check-rejected".into(), util::truncate(&text, 1500));
        }
    }
    let Some(b) = &out.build else { return Verdict::Infra("no build result".into()) };
    if !b.ok() {
        let text = format!("{}{}", b.stdout, b.stderr);
        // cargo lost a file in the shared target directory (another process cleaned it): tool trouble, not a verdict
        if !text.contains("error[E") && (text.contains("could not parse/generate dep info") || text.contains("failed to remove")) {
            return Verdict::Infra(format!("cargo trouble in the worker target dir: {}", util::truncate(&text, 400)));
        }
        // rustc error headers naming the derived machinery
        let heads: Vec<&str> = text.lines().filter(|l| l.starts_with("error")).collect();
        let words = ["from_json", "to_json", "Serialize", "Deserialize", "serde", "PartialOrd", "PartialEq", "`Ord`", "`Eq`", "`Hash`", "Hash` is not", "Clone"];
        let related = heads.iter().any(|h| words.iter().any(|w| h.contains(w)));
        let from_json_sig = text.contains("from_json(json: &str)") || (text.contains("from_json") && text.contains("expected `&str`, found `String`"));
        if from_json_sig && c.decls.last().is_some_and(|d| d.is_class && !d.with_method) {
            return Verdict::Fail { key: K_CLASS_NOMETHOD.into(), detail: util::truncate(&text, 2500) };
        }
        return if related || from_json_sig {
            Verdict::Fail { key: "derived-code-does-not-build".into(), detail: util::truncate(&text, 3000) }
        } else {
            Verdict::Discard("build-failed-unrelated".into(), util::truncate(&text, 2000))
        };
    }
    let Some(r) = &out.run else { return Verdict::Infra("no run result".into()) };
    if r.status.is_none() && r.signal.is_none() && r.stderr.starts_with("spawn failed") {
        return Verdict::Infra(format!("binary vanished before it could be started: {}", r.stderr));
    }
    if r.timed_out {
        return Verdict::Infra("program watchdog".into());
    }
    let mut lines: Vec<(String, String)> = Vec::new();
    for l in r.stdout.lines() {
        if let Some((k, v)) = l.split_once('=') {
            lines.push((k.to_string(), v.to_string()));
        } else {
            lines.push((l.to_string(), String::new()));
        }
    }
    let get = |k: &str| lines.iter().find(|(a, _)| a == k).map(|(_, v)| v.clone());
    let tail = || format!("status={:?} signal={:?}\nstdout:\n{}\nstderr:\n{}", r.status, r.signal, util::truncate(&r.stdout, 2000), util::truncate(&r.stderr, 800));
    if !r.ok() || get("END").is_none() {
        return Verdict::Fail { key: "program-stopped".into(), detail: tail() };
    }
    let target = c.decls.len() - 1;
    let _ = target;
    for (i, (v1, v2, kind)) in c.pairs.iter().enumerate() {
        let fail = |key: &str, what: String| Verdict::Fail { key: key.to_string(), detail: format!("pair {i} ({kind}): {what}\nv1 = {}\nv2 = {}\n{}", expr(v1, &c.decls, true, false), expr(v2, &c.decls, true, false), tail()) };
        let want_bool = |tag: &str, want: bool, key: &str| -> Option<Verdict> {
            match get(&format!("{tag}{i}")).as_deref().map(as_bool) {
                Some(Some(b)) if b == want => None,
                Some(Some(b)) => Some(fail(key, format!("{tag}{i} is {b}, structural model says {want}"))),
                other => Some(fail("output-missing", format!("{tag}{i}: {other:?}"))),
            }
        };
        let equal = v1 == v2;
        if c.der.json {
            stats.legs += 2;
            let Some(jt) = get(&format!("J{i}")) else { return fail("output-missing", format!("J{i}")) };
            match parse_json(&jt) {
                Err(e) => return fail("json:not-json", format!("{e}: {jt}")),
                Ok(jv) => {
                    if let Err((k, what)) = json_matches(&jv, v1, &c.decls, "$") {
                        let key = if k == "key-set" { "json:key-set".to_string() } else { format!("json:value-mapping:{k}") };
                        return fail(&key, format!("{what}\nJSON: {jt}"));
                    }
                }
            }
            let want = if c.der.eq != EqK::None { "true" } else { "ok" };
            match get(&format!("R{i}")) {
                Some(t) if t.trim().eq_ignore_ascii_case(want) => {}
                Some(t) if t.starts_with("ERR") => return fail("roundtrip:from_json-err", format!("{t}\nJSON: {jt}")),
                Some(t) => return fail("roundtrip:not-equal", format!("R{i}={t}\nJSON: {jt}")),
                None => return fail("output-missing", format!("R{i}")),
            }
        }
        if c.der.eq != EqK::None {
            stats.legs += 2;
            if let Some(v) = want_bool("E", equal, "eq:wrong") {
                return v;
            }
            if let Some(v) = want_bool("X", !equal, "ne:wrong") {
                return v;
            }
        }
        if c.der.ord != OrdK::None {
            match cmp(v1, v2) {
                Some(o) => {
                    stats.legs += 2;
                    if let Some(v) = want_bool("L", o == Ordering::Less, "ord:lt-wrong") {
                        return v;
                    }
                    if let Some(v) = want_bool("G", o == Ordering::Greater, "ord:gt-wrong") {
                        return v;
                    }
                }
                None => stats.ord_undetermined += 1,
            }
        }
        if c.der.hash {
            stats.legs += 4;
            if let Some(v) = want_bool("H", true, "dict-key:equal-key-not-found") {
                return v;
            }
            if let Some(v) = want_bool("N", equal, "dict-key:lookup-wrong") {
                return v;
            }
            if let Some(v) = want_bool("S", true, "set:equal-member-not-found") {
                return v;
            }
            if let Some(v) = want_bool("T", equal, "set:lookup-wrong") {
                return v;
            }
        }
        if c.clone_probe && c.der.eq != EqK::None && clone_mutation(c, v1).is_some() {
            stats.legs += 3;
            if let Some(v) = want_bool("Ca", true, "clone:not-equal-to-original") {
                return v;
            }
            if let Some(v) = want_bool("Cb", false, "clone:mutation-not-visible") {
                return v;
            }
            if let Some(v) = want_bool("Cc", true, "clone:original-changed") {
                return v;
            }
        }
    }
    Verdict::Pass
}

// ---------------------------------------------------------------------------------------------------------------------
// generator
// ---------------------------------------------------------------------------------------------------------------------

struct Rng(u64);
impl Rng {
    fn next(&mut self) -> u64 {
        self.0 = util::mix(self.0);
        self.0
    }
    fn below(&mut self, n: usize) -> usize {
        (self.next() % n.max(1) as u64) as usize
    }
}

const INTS: [i64; 12] = [0, 1, -1, 42, -7, 1000, -1000, 2147483648, -2147483649, 9007199254740993, i64::MAX, -(1 << 62)];
const FLOATS: [f64; 10] = [0.0, 1.5, -2.25, 3.0, -100.0, 0.001, 123456.789, 0.1, 250000000000000.0, -0.5];
const STRS: [&str; 14] = ["", "a", "hello world", "é€😀", "q\"uote", "back\\slash", "line\nbreak", "tab\there", "mix \"\\\n\t é", " lead trail ", "ünï", "{curly}", "a=b", "0"];
const KEYS: [&str; 7] = ["", "k", "a b", "é", "q\"", "key2", "Z"];
const FIELD_NAMES: [&str; 20] = ["id", "name", "count", "flag", "ratio", "items", "tags", "meta", "userName", "x1", "zip_code", "value_2", "kind", "data", "opt", "inner", "a", "b", "n", "s"];

fn gen_value(t: &FT, r: &mut Rng, decls: &[Decl]) -> V {
    match t {
        FT::Int => {
            if r.below(3) == 0 {
                V::I(r.below(200) as i64 - 100)
            } else {
                V::I(INTS[r.below(INTS.len())])
            }
        }
        FT::Float => {
            if r.below(3) == 0 {
                V::F((r.below(400) as f64 - 200.0) * 0.125)
            } else {
                V::F(FLOATS[r.below(FLOATS.len())])
            }
        }
        FT::Bool => V::B(r.below(2) == 0),
        FT::Str => V::S(STRS[r.below(STRS.len())].to_string()),
        FT::List(x) => {
            let n = [0, 0, 1, 2, 3][r.below(5)];
            V::L((0..n).map(|_| gen_value(x, r, decls)).collect())
        }
        FT::Dict(x) => {
            let n = [0, 1, 2, 3][r.below(4)];
            let mut kv: Vec<(String, V)> = Vec::new();
            for _ in 0..n {
                let k = KEYS[r.below(KEYS.len())].to_string();
                if !kv.iter().any(|(k2, _)| *k2 == k) {
                    kv.push((k, gen_value(x, r, decls)));
                }
            }
            kv.sort_by(|a, b| a.0.cmp(&b.0));
            V::D(kv)
        }
        FT::Opt(x) => {
            if r.below(3) == 0 {
                V::O(None)
            } else {
                V::O(Some(Box::new(gen_value(x, r, decls))))
            }
        }
        FT::Nested(j) => V::M(*j, decls[*j].fields.iter().map(|f| gen_value(&f.ty, r, decls)).collect()),
    }
}

/// a value of the same type that differs from `v`; `deep` prefers a change inside a nested / collection value
fn mutate(v: &V, t: &FT, r: &mut Rng, decls: &[Decl], deep: bool) -> V {
    if deep {
        match (v, t) {
            (V::L(xs), FT::List(x)) if !xs.is_empty() => {
                let k = r.below(xs.len());
                let mut ys = xs.clone();
                ys[k] = mutate(&xs[k], x, r, decls, true);
                return V::L(ys);
            }
            (V::D(kv), FT::Dict(x)) if !kv.is_empty() => {
                let k = r.below(kv.len());
                let mut ys = kv.clone();
                ys[k].1 = mutate(&kv[k].1, x, r, decls, true);
                return V::D(ys);
            }
            (V::O(Some(x)), FT::Opt(tx)) => return V::O(Some(Box::new(mutate(x, tx, r, decls, true)))),
            (V::M(j, vals), FT::Nested(_)) => {
                let k = r.below(vals.len());
                let mut ys = vals.clone();
                ys[k] = mutate(&vals[k], &decls[*j].fields[k].ty, r, decls, true);
                return V::M(*j, ys);
            }
            _ => {}
        }
    }
    for _ in 0..8 {
        let n = gen_value(t, r, decls);
        if n != *v {
            return n;
        }
    }
    match (v, t) {
        (V::I(x), _) => V::I(x.wrapping_add(1)),
        (V::F(x), _) => V::F(x + 0.5),
        (V::B(b), _) => V::B(!b),
        (V::S(s), _) => V::S(format!("{s}x")),
        (V::L(xs), FT::List(x)) => {
            let mut ys = xs.clone();
            ys.push(gen_value(x, r, decls));
            V::L(ys)
        }
        (V::D(kv), FT::Dict(x)) => {
            let mut ys = kv.clone();
            ys.push(("zz".to_string(), gen_value(x, r, decls)));
            ys.sort_by(|a, b| a.0.cmp(&b.0));
            V::D(ys)
        }
        (V::O(None), FT::Opt(x)) => V::O(Some(Box::new(gen_value(x, r, decls)))),
        (V::O(Some(_)), _) => V::O(None),
        (V::M(j, vals), _) => {
            let mut ys = vals.clone();
            ys[0] = mutate(&vals[0], &decls[*j].fields[0].ty, r, decls, false);
            V::M(*j, ys)
        }
        _ => v.clone(),
    }
}

#[derive(Clone, Debug)]
struct FG {
    name: u16,
    ty: u16,
    sub: u16,
    sub2: u16,
    dflt: u16,
    seed: u16,
}
#[derive(Clone, Debug)]
struct DG {
    is_class: u16,
    method: u16,
    fields: Vec<FG>,
}
#[derive(Clone, Debug)]
struct PG {
    kind: u16,
    s1: u32,
    s2: u32,
}
#[derive(Clone, Debug)]
struct Gene {
    decls: Vec<DG>,
    json: u16,
    eq: u16,
    ord: u16,
    hash: u16,
    clone: u16,
    pairs: Vec<PG>,
}

fn fg() -> impl Strategy<Value = FG> {
    (any::<u16>(), any::<u16>(), any::<u16>(), any::<u16>(), any::<u16>(), any::<u16>()).prop_map(|(name, ty, sub, sub2, dflt, seed)| FG { name, ty, sub, sub2, dflt, seed })
}
fn dg() -> impl Strategy<Value = DG> {
    (any::<u16>(), any::<u16>(), proptest::collection::vec(fg(), 1..=6)).prop_map(|(is_class, method, fields)| DG { is_class, method, fields })
}
fn gene_strategy(npairs: usize) -> impl Strategy<Value = Gene> {
    (
        proptest::collection::vec(dg(), 1..=3),
        any::<u16>(),
        any::<u16>(),
        any::<u16>(),
        any::<u16>(),
        any::<u16>(),
        proptest::collection::vec((any::<u16>(), any::<u32>(), any::<u32>()).prop_map(|(kind, s1, s2)| PG { kind, s1, s2 }), npairs..=npairs),
    )
        .prop_map(|(decls, json, eq, ord, hash, clone, pairs)| Gene { decls, json, eq, ord, hash, clone, pairs })
}

const PAIR_KINDS: [&str; 7] = ["equal", "diff-first", "diff-middle", "diff-last", "diff-nested", "diff-two", "random"];

#[derive(Clone, Copy)]
struct Allow {
    clone: bool,
    class_nomethod: bool,
}

struct Realised {
    case: Case,
    excluded: Vec<&'static str>,
}

fn scalar(k: usize, plain: bool) -> FT {
    match k % 11 {
        0..=2 => FT::Int,
        3 | 4 => {
            if plain {
                FT::Int
            } else {
                FT::Float
            }
        }
        5 | 6 => FT::Bool,
        _ => FT::Str,
    }
}

/// `plain`: no float and no Dict anywhere (so that Eq/Ord/Hash can be derived)
fn realise(g: &Gene, plain: bool, index: usize, allow: Allow) -> Realised {
    let mut excluded = Vec::new();
    let mut decls: Vec<Decl> = Vec::new();
    for (j, d) in g.decls.iter().enumerate() {
        let mut fields: Vec<Field> = Vec::new();
        for f in &d.fields {
            let inner = |sub: u16, sub2: u16, outer_opt: bool| -> FT {
                match gen::idx(sub, 12) {
                    8 => FT::List(Box::new(scalar(sub2 as usize, plain))),
                    9 if !outer_opt => FT::Opt(Box::new(scalar(sub2 as usize, plain))),
                    10 if j > 0 => FT::Nested(sub2 as usize % j),
                    11 if !plain => FT::Dict(Box::new(scalar(sub2 as usize, plain))),
                    k => scalar(k + sub2 as usize, plain),
                }
            };
            let ty = match gen::idx(f.ty, 20) {
                k @ 0..=10 => scalar(k, plain),
                11..=13 => FT::List(Box::new(inner(f.sub, f.sub2, false))),
                14 | 15 => {
                    if plain {
                        FT::List(Box::new(inner(f.sub, f.sub2, false)))
                    } else {
                        FT::Dict(Box::new(inner(f.sub, f.sub2, false)))
                    }
                }
                16 | 17 => FT::Opt(Box::new(inner(f.sub, f.sub2, true))),
                _ => {
                    if j > 0 {
                        FT::Nested(f.sub as usize % j)
                    } else {
                        FT::Str
                    }
                }
            };
            let mut name = FIELD_NAMES[gen::idx(f.name, FIELD_NAMES.len())].to_string();
            if fields.iter().any(|x| x.name == name) {
                name = format!("{name}_{}", fields.len());
            }
            // defaults: scalars and None only, and only on a suffix of the field list is not required by the docs
            let default = if gen::idx(f.dflt, 100) >= 70 {
                let mut r = Rng(f.seed as u64 + 11);
                match &ty {
                    FT::Int | FT::Float | FT::Bool | FT::Str => Some(gen_value(&ty, &mut r, &decls)),
                    FT::Opt(_) => Some(V::O(None)),
                    _ => None,
                }
            } else {
                None
            };
            fields.push(Field { name, ty, default });
        }
        let is_class = gen::idx(d.is_class, 100) >= 60;
        let mut with_method = gen::idx(d.method, 100) >= 50;
        if is_class && !with_method && !allow.class_nomethod {
            excluded.push(K_CLASS_NOMETHOD);
            with_method = true;
        }
        decls.push(Decl { name: format!("Rec{}{}", ["A", "B", "C"][j], index % 10), is_class, with_method, fields });
    }
    let target = decls.len() - 1;
    let tty = FT::Nested(target);
    // one derive set for every declaration of the program, reachable from the target or not
    let all = |f: &dyn Fn(&FT) -> bool| decls.iter().any(|d| d.fields.iter().any(|fd| fd.ty.any(&decls, f)));
    let has_float = all(&|t| *t == FT::Float);
    let has_dict = all(&|t| matches!(t, FT::Dict(_)));
    let der = if has_float || has_dict {
        Derives {
            json: gen::idx(g.json, 100) < 92,
            eq: if gen::idx(g.eq, 100) < 92 { EqK::PartialEq } else { EqK::None },
            ord: if !has_dict && gen::idx(g.ord, 100) < 60 && gen::idx(g.eq, 100) < 92 { OrdK::PartialOrd } else { OrdK::None },
            hash: false,
            explicit_clone: gen::idx(g.clone, 100) < 40,
        }
    } else {
        let eq = match gen::idx(g.eq, 100) {
            0..=79 => EqK::Eq,
            80..=91 => EqK::PartialEq,
            _ => EqK::None,
        };
        let ord = match (eq, gen::idx(g.ord, 100)) {
            (EqK::Eq, 0..=59) => OrdK::Ord,
            (EqK::Eq | EqK::PartialEq, 60..=74) => OrdK::PartialOrd,
            _ => OrdK::None,
        };
        Derives { json: gen::idx(g.json, 100) < 92, eq, ord, hash: eq == EqK::Eq && gen::idx(g.hash, 100) < 75, explicit_clone: gen::idx(g.clone, 100) < 40 }
    };
    let nf = decls[target].fields.len();
    let mut pairs = Vec::new();
    for (pi, p) in g.pairs.iter().enumerate() {
        let mut r = Rng(((p.s1 as u64) << 32) | p.s2 as u64);
        let mut v1 = gen_value(&tty, &mut r, &decls);
        // use declared defaults now and then (the constructor call then omits the field)
        if let V::M(_, vals) = &mut v1 {
            for (k, f) in decls[target].fields.iter().enumerate() {
                if let Some(dv) = &f.default {
                    if r.below(2) == 0 {
                        vals[k] = dv.clone();
                    }
                }
            }
        }
        let kind = (gen::idx(p.kind, PAIR_KINDS.len()) + pi) % PAIR_KINDS.len();
        let V::M(_, vals) = &v1 else { unreachable!() };
        let mut_field = |k: usize, r: &mut Rng, deep: bool, base: &V| -> V {
            let V::M(j, vs) = base else { unreachable!() };
            let mut ys = vs.clone();
            ys[k] = mutate(&vs[k], &decls[target].fields[k].ty, r, &decls, deep);
            V::M(*j, ys)
        };
        let v2 = match kind {
            0 => v1.clone(),
            1 => mut_field(0, &mut r, false, &v1),
            2 => mut_field(nf / 2, &mut r, false, &v1),
            3 => mut_field(nf - 1, &mut r, false, &v1),
            4 => {
                let cands: Vec<usize> = (0..nf).filter(|k| !matches!(decls[target].fields[*k].ty, FT::Int | FT::Float | FT::Bool | FT::Str)).collect();
                let k = if cands.is_empty() { r.below(nf) } else { cands[r.below(cands.len())] };
                mut_field(k, &mut r, true, &v1)
            }
            5 => {
                let a = mut_field(0, &mut r, false, &v1);
                mut_field(nf - 1, &mut r, false, &a)
            }
            _ => gen_value(&tty, &mut r, &decls),
        };
        let _ = vals;
        pairs.push((v1, v2, PAIR_KINDS[kind].to_string()));
    }
    let mut clone_probe = true;
    if !allow.clone {
        clone_probe = false;
        if der.eq != EqK::None {
            excluded.push(K_CLONE);
        }
    }
    Realised { case: Case { decls, der, pairs, clone_probe }, excluded }
}

fn needs_escape(s: &str) -> bool {
    s.chars().any(|c| matches!(c, '"' | '\\' | '\n' | '\t') || !c.is_ascii())
}

fn value_nontrivial(v: &V) -> bool {
    match v {
        V::S(s) => needs_escape(s),
        V::L(_) | V::D(_) | V::O(_) => true,
        V::M(_, vals) => vals.iter().any(value_nontrivial) ,
        _ => false,
    }
}

fn field_nontrivial(v: &V) -> bool {
    match v {
        V::S(s) => needs_escape(s),
        V::L(_) | V::D(_) | V::O(_) | V::M(..) => true,
        _ => false,
    }
}

fn pair_id(c: &Case, i: usize) -> Option<u64> {
    let (v1, v2, _) = &c.pairs[i];
    let nt = |v: &V| matches!(v, V::M(_, vals) if vals.iter().any(field_nontrivial));
    let _ = value_nontrivial;
    if nt(v1) || nt(v2) {
        let decl_text: String = c.decls.iter().map(|d| format!("{}{:?}", d.is_class, d.fields.iter().map(|f| (f.name.clone(), f.ty.class())).collect::<Vec<_>>())).collect();
        Some(util::hash_str(&format!("{decl_text}|{:?}|{:?}|{:?}", c.der.list(), v1, v2)))
    } else {
        None
    }
}

fn run_case(f: &Farm, c: &Case, name: &str) -> (Verdict, Stats) {
    let o = f.run_one(&Project::single(name, &render(c)), Mode::CheckBuildRun);
    let mut st = Stats::default();
    (judge(c, &o, &mut st), st)
}

fn main() {
    let args = Args::parse("C20");
    util::install_quiet_panic_hook();
    std::env::set_var("RUST_BACKTRACE", "0");
    let mut out = Outcome::new("C20");
    let mut ev = Evidence::new(
        &args,
        "one case = one (declaration set, v1, v2) pair inside a compiled program (6 pairs per program). Non-trivial: v1 or v2 has at \
         least one non-scalar field (List/Dict/Option/nested model) or a string needing JSON escapes / non-ASCII. Distinct = \
         hash(declarations, derive set, v1, v2).",
    );
    ev.assume("ordering of None against Some(x) is not documented: `<`/`>` are not judged when the first differing position is None vs Some");
    ev.assume("float fields exclude Eq/Ord/Hash (PartialEq/PartialOrd are used), Dict fields exclude Ord/PartialOrd/Hash: rustc cannot derive them");
    ev.assume("Option[Option[T]] is not generated (Some(None) and None share the JSON value null)");
    ev.assume("floats are compared as parsed values, never as text; Debug/Display text of models is never compared");
    let mut farm = Farm::new("c20");
    farm.run_timeout = std::time::Duration::from_secs(120);
    let f = &farm;

    if let Some(path) = &args.replay {
        let text = std::fs::read_to_string(path).unwrap_or_default();
        match case_from(&text) {
            None => out.inconclusive("replay file is not a C20 case"),
            Some((c, name)) => {
                for i in 0..c.pairs.len() {
                    ev.case(pair_id(&c, i));
                }
                ev.sample(json!({"replay": path.display().to_string(), "source": render(&c)}));
                match run_case(f, &c, &name).0 {
                    Verdict::Pass => {}
                    Verdict::Fail { key, detail } => {
                        out.violation(&mut ev, &key, "json", &text, &format!("{detail}\n{}", render(&c)));
                    }
                    Verdict::Discard(r, d) => out.inconclusive(&format!("replay: {r}: {d}")),
                    Verdict::Infra(e) => out.inconclusive(&format!("replay: {e}")),
                }
            }
        }
        std::process::exit(out.finish(&ev));
    }

    // ---- known findings
    let known = out.known.open.clone();
    for k in &known {
        let text = std::fs::read_to_string(&k.replay).unwrap_or_default();
        match case_from(&text) {
            None => out.inconclusive(&format!("known finding {}: canonical input unreadable", k.key)),
            Some((c, name)) => match run_case(f, &c, &name).0 {
                Verdict::Fail { key, .. } if key == k.key => out.known_replayed(&k.key, true),
                Verdict::Fail { key, detail } => {
                    out.violation(&mut ev, &key, "json", &text, &format!("canonical input of known finding {} fails differently\n{detail}", k.key));
                }
                Verdict::Pass => out.known_replayed(&k.key, false),
                Verdict::Discard(r, d) => out.inconclusive(&format!("known finding {}: {r}: {d}", k.key)),
                Verdict::Infra(e) => out.inconclusive(&format!("known finding {}: {e}", k.key)),
            },
        }
    }
    // ---- regression corpus: canonical inputs of fixed findings must hold
    if let Ok(rd) = std::fs::read_dir(vcore::verif_root().join("known/C20/fixed")) {
        let mut files: Vec<_> = rd.flatten().map(|e| e.path()).filter(|p| p.extension().is_some_and(|e| e == "json")).collect();
        files.sort();
        for fpath in files {
            let text = std::fs::read_to_string(&fpath).unwrap_or_default();
            let name = fpath.file_stem().map(|s| s.to_string_lossy().to_string()).unwrap_or_default();
            match case_from(&text) {
                None => out.inconclusive(&format!("regression input {} unreadable", fpath.display())),
                Some((c, pname)) => {
                    for i in 0..c.pairs.len() {
                        ev.case(pair_id(&c, i));
                    }
                    ev.class("regression-input");
                    match run_case(f, &c, &pname).0 {
                        Verdict::Pass => {}
                        Verdict::Fail { key, detail } => {
                            out.violation(&mut ev, &format!("regression:{name}"), "json", &text, &format!("a fixed finding is back ({key})\n{detail}"));
                        }
                        Verdict::Discard(r, d) => out.inconclusive(&format!("regression input {name}: {r}: {d}")),
                        Verdict::Infra(e) => out.inconclusive(&format!("regression input {name}: {e}")),
                    }
                }
            }
        }
    }
    let force_clone = std::env::var("VERIF_C20_FORCE_CLONE").is_ok();
    let allow = Allow { clone: !out.is_known(K_CLONE) || force_clone, class_nomethod: !out.is_known(K_CLASS_NOMETHOD) };

    let n_prog = args.tier.pick(60usize, 2500usize);
    let npairs = 6;
    let mut runner = gen::runner(args.subseed(20));
    let mut trees = gen::batch(&gene_strategy(npairs), &mut runner, n_prog);
    let plain_of = |i: usize| (i + args.seed as usize) % 2 == 0;
    let mut cases: Vec<Case> = Vec::new();
    for (i, t) in trees.iter().enumerate() {
        let r = realise(&t.current(), plain_of(i), i, allow);
        for k in &r.excluded {
            ev.exclude(k);
        }
        cases.push(r.case);
    }
    let projects: Vec<Project> = cases.iter().enumerate().map(|(i, c)| Project::single(&format!("c20p{i}"), &render(c))).collect();
    let dump = std::env::var("VERIF_DEV_DUMP").ok().map(std::path::PathBuf::from);
    if let Some(d) = &dump {
        for p in &projects {
            let _ = std::fs::write(d.join(&p.entry), &p.files[0].1);
        }
    }
    let shrink_budget: usize = std::env::var("VERIF_SHRINK_ITERS").ok().and_then(|s| s.parse().ok()).unwrap_or(args.tier.pick(12, 40));
    let outs = f.run_many(&projects, Mode::CheckBuildRun);
    let mut stats = Stats::default();
    let mut discards = 0usize;
    let mut discard_samples: Vec<Value> = Vec::new();
    for (i, c) in cases.iter().enumerate() {
        for k in 0..c.pairs.len() {
            ev.case(pair_id(c, k));
            ev.class(&format!("pair:{}", c.pairs[k].2));
        }
        let tgt = c.decls.last().unwrap();
        ev.class(if tgt.is_class { "decl:class" } else { "decl:model" });
        ev.class(&format!("derive:{}", c.der.list().join("+")));
        ev.class_n("declarations", c.decls.len() as u64);
        for d in &c.decls {
            for fd in &d.fields {
                ev.class(&format!("field:{}", fd.ty.class()));
                if fd.default.is_some() {
                    ev.class("field-with-default");
                }
            }
        }
        if i % (n_prog / 6).max(1) == 0 {
            let (v1, v2, kind) = &c.pairs[0];
            ev.sample(json!({"source_head": util::truncate(&render(c), 1800), "pair0": {"kind": kind, "v1": expr(v1, &c.decls, true, false), "v2": expr(v2, &c.decls, true, false)}}));
        }
        match judge(c, &outs[i], &mut stats) {
            Verdict::Pass => {}
            Verdict::Infra(e) => out.inconclusive(&format!("program {i}: {e}")),
            Verdict::Discard(reason, detail) => {
                discards += 1;
                ev.discard(&reason);
                if let Some(d) = &dump {
                    let _ = std::fs::write(d.join(format!("c20p{i}.discard.txt")), format!("{reason}\n{detail}"));
                }
                if discard_samples.len() < 3 {
                    discard_samples.push(json!({"reason": reason, "detail": detail, "source": render(c)}));
                }
            }
            Verdict::Fail { key, detail } => {
                if let Some(d) = &dump {
                    let _ = std::fs::write(d.join(format!("c20p{i}.fail.txt")), format!("{key}\n{detail}"));
                }
                if out.seen(&key) || out.is_known(&key) || out.violations.len() >= out.max_reports {
                    ev.violations += 1;
                    continue;
                }
                let plain = plain_of(i);
                let mut counter = 0usize;
                let small = gen::shrink(&mut trees[i], shrink_budget, |g: &Gene| {
                    counter += 1;
                    let r = realise(g, plain, i, allow);
                    matches!(run_case(f, &r.case, &format!("c20s{i}x{counter}")).0, Verdict::Fail { key: k2, .. } if k2 == key)
                });
                let r = realise(&small, plain, i, allow);
                let name = format!("c20r{i}");
                let (case, detail) = match run_case(f, &r.case, &name).0 {
                    Verdict::Fail { key: k2, detail: d2 } if k2 == key => (r.case, d2),
                    _ => (c.clone(), detail),
                };
                out.violation(&mut ev, &key, "json", &case_json(&case, &key, &name), &format!("{detail}\n{}", render(&case)));
            }
        }
    }
    if discards * 5 > n_prog {
        out.inconclusive(&format!("{discards} of {n_prog} generated programs were discarded (generator out of step with the compiler)"));
    }
    ev.set("discard_samples", Value::Array(discard_samples));
    ev.set("programs", json!(n_prog));
    ev.set("legs_judged", json!(stats.legs));
    ev.set("ordering_legs_not_judged_none_vs_some", json!(stats.ord_undetermined));
    ev.set("clone_probe_enabled", json!(allow.clone));
    std::process::exit(out.finish(&ev));
}
