//! C06 — compile-time evaluation of `const` initializers agrees with run-time evaluation.
//!
//! Generator (proptest, choice sequences): typed const-evaluable expression trees (literals, references to other
//! consts, unary/binary numeric, boolean and comparison operators, string concatenation / indexing / slicing /
//! membership, tuples, frozen list/set/dict literals), depth <= 4, over a dependency DAG of 1..8 consts,
//! annotated / unannotated / wrongly annotated, optionally with one injected back edge (cycle of length 1..4).
//! Const initializers may not contain parentheses (the const evaluator rejects `Expr::Paren`), so trees are built by
//! grammar level and never need them.
//!
//! Oracle leg 1 (in-process): `TypeChecker` const values / kinds / recorded types and diagnostics versus an
//! independent evaluator that uses the *runtime* helpers (`incan_stdlib::{strings,num}`) and the documented numeric
//! table. Leg 2 (emitter, in-process): an accepted graph must go through lowering + emission. Leg 3 (farm): the
//! program prints every const and, from a function whose operands are typed parameters, the same expression
//! evaluated at run time; the token sequences must be equal. Cycles: an error naming the cycle, never a hang.

use incan::backend::IrCodegen;
use incan::frontend::ast::Declaration;
use incan::frontend::typechecker::{ConstValue, TypeChecker};
use incan::frontend::{lexer, parser};
use proptest::prelude::*;
use proptest::strategy::ValueTree;
use rayon::prelude::*;
use serde_json::{json, Value};
use std::collections::{BTreeMap, BTreeSet};
use vcore::farm::{self, Farm, FarmOut, Mode, Project};
use vcore::{gen, util, Args, Evidence, Outcome};

// ------------------------------------------------------------------------------------------------ model

#[derive(Clone, Debug, PartialEq, Eq, Hash)]
enum Ty {
    Int,
    Float,
    Bool,
    Str,
    Tuple(Vec<Ty>),
    List(Box<Ty>),
    Set(Box<Ty>),
    Dict(Box<Ty>, Box<Ty>),
}

impl Ty {
    /// how the checker prints the (frozen) type of a const of this type
    fn frozen_name(&self) -> String {
        match self {
            Ty::Int => "int".into(),
            Ty::Float => "float".into(),
            Ty::Bool => "bool".into(),
            Ty::Str => "FrozenStr".into(),
            Ty::Tuple(v) => format!("({})", v.iter().map(|t| t.frozen_name()).collect::<Vec<_>>().join(", ")),
            Ty::List(t) => format!("FrozenList[{}]", t.frozen_name()),
            Ty::Set(t) => format!("FrozenSet[{}]", t.frozen_name()),
            Ty::Dict(k, v) => format!("FrozenDict[{}, {}]", k.frozen_name(), v.frozen_name()),
        }
    }
    /// source annotation
    fn ann(&self) -> String {
        match self {
            Ty::Int => "int".into(),
            Ty::Float => "float".into(),
            Ty::Bool => "bool".into(),
            Ty::Str => "str".into(),
            Ty::Tuple(v) => format!("Tuple[{}]", v.iter().map(|t| t.ann()).collect::<Vec<_>>().join(", ")),
            Ty::List(t) => format!("List[{}]", t.ann()),
            Ty::Set(t) => format!("Set[{}]", t.ann()),
            Ty::Dict(k, v) => format!("Dict[{}, {}]", k.ann(), v.ann()),
        }
    }
    /// consts.md: Rust-native = numbers, booleans and tuples of those; everything else is frozen
    fn frozen(&self) -> bool {
        match self {
            Ty::Int | Ty::Float | Ty::Bool => false,
            Ty::Tuple(v) => v.iter().any(|t| t.frozen()),
            _ => true,
        }
    }
    fn scalar(&self) -> bool {
        matches!(self, Ty::Int | Ty::Float | Ty::Bool | Ty::Str)
    }
    fn has_str(&self) -> bool {
        match self {
            Ty::Str => true,
            Ty::Tuple(v) => v.iter().any(|t| t.has_str()),
            Ty::List(t) | Ty::Set(t) => t.has_str(),
            Ty::Dict(k, v) => k.has_str() || v.has_str(),
            _ => false,
        }
    }
}

#[derive(Clone, Copy, Debug, PartialEq, Eq, Hash)]
enum B {
    Add,
    Sub,
    Mul,
    Div,
    FloorDiv,
    Mod,
    Pow,
    Eq,
    Ne,
    Lt,
    Le,
    Gt,
    Ge,
    And,
    Or,
    In,
    NotIn,
}
impl B {
    fn sym(self) -> &'static str {
        match self {
            B::Add => "+",
            B::Sub => "-",
            B::Mul => "*",
            B::Div => "/",
            B::FloorDiv => "//",
            B::Mod => "%",
            B::Pow => "**",
            B::Eq => "==",
            B::Ne => "!=",
            B::Lt => "<",
            B::Le => "<=",
            B::Gt => ">",
            B::Ge => ">=",
            B::And => "and",
            B::Or => "or",
            B::In => "in",
            B::NotIn => "not in",
        }
    }
    fn is_cmp(self) -> bool {
        matches!(self, B::Eq | B::Ne | B::Lt | B::Le | B::Gt | B::Ge)
    }
}

#[derive(Clone, Debug, PartialEq)]
enum X {
    Int(i64),
    Float(f64),
    Bool(bool),
    Str(String),
    Ref(usize),
    Neg(Box<X>),
    Not(Box<X>),
    Bin(Box<X>, B, Box<X>),
    Index(Box<X>, Box<X>),
    Slice(Box<X>, Option<Box<X>>, Option<Box<X>>, Option<Box<X>>),
    Tuple(Vec<X>),
    List(Vec<X>),
    Set(Vec<X>),
    Dict(Vec<(X, X)>),
}

#[derive(Clone, Copy, Debug, PartialEq, Eq)]
enum Ann {
    None,
    Right,
    /// index into WRONG_ANNS
    Wrong(usize),
}

#[derive(Clone, Debug)]
struct ConstDef {
    ty: Ty,
    expr: X,
    ann: Ann,
}

#[derive(Clone, Debug)]
struct Graph {
    consts: Vec<ConstDef>,
    /// members of the injected cycle, in reference order (c[0] -> c[1] -> .. -> c[0])
    cycle: Vec<usize>,
    reverse_order: bool,
    prefix: String,
    /// recorded finding `const-slice:unknown-bound-treated-as-absent` is open: such consts are not judged
    skip_unknown_slice_bounds: bool,
}

impl Graph {
    fn name(&self, i: usize) -> String {
        format!("{}K{}", self.prefix, i)
    }
}

fn fmt_float(f: f64) -> String {
    format!("{f:?}")
}

fn quote(s: &str) -> String {
    format!("\"{s}\"")
}

/// Render (trees are built by grammar level, so no parentheses are ever needed).
fn render(x: &X, names: &dyn Fn(usize) -> String) -> String {
    let r = |e: &X| render(e, names);
    match x {
        X::Int(n) => n.to_string(),
        X::Float(f) => fmt_float(*f),
        X::Bool(b) => if *b { "True" } else { "False" }.to_string(),
        X::Str(s) => quote(s),
        X::Ref(i) => names(*i),
        X::Neg(e) => format!("-{}", r(e)),
        X::Not(e) => format!("not {}", r(e)),
        X::Bin(l, op, rr) => format!("{} {} {}", r(l), op.sym(), r(rr)),
        X::Index(b, i) => format!("{}[{}]", r(b), r(i)),
        X::Slice(b, s, e, st) => {
            let o = |v: &Option<Box<X>>| v.as_ref().map(|e| r(e)).unwrap_or_default();
            match st {
                Some(st) => format!("{}[{}:{}:{}]", r(b), o(s), o(e), r(st)),
                None => format!("{}[{}:{}]", r(b), o(s), o(e)),
            }
        }
        X::Tuple(v) => format!("({})", v.iter().map(r).collect::<Vec<_>>().join(", ")),
        X::List(v) => format!("[{}]", v.iter().map(r).collect::<Vec<_>>().join(", ")),
        X::Set(v) => format!("{{{}}}", v.iter().map(r).collect::<Vec<_>>().join(", ")),
        X::Dict(v) => format!("{{{}}}", v.iter().map(|(k, v)| format!("{}: {}", r(k), r(v))).collect::<Vec<_>>().join(", ")),
    }
}

fn walk(x: &X, f: &mut dyn FnMut(&X)) {
    f(x);
    match x {
        X::Neg(e) | X::Not(e) => walk(e, f),
        X::Bin(l, _, r) => {
            walk(l, f);
            walk(r, f)
        }
        X::Index(b, i) => {
            walk(b, f);
            walk(i, f)
        }
        X::Slice(b, s, e, st) => {
            walk(b, f);
            for o in [s, e, st].into_iter().flatten() {
                walk(o, f)
            }
        }
        X::Tuple(v) | X::List(v) | X::Set(v) => v.iter().for_each(|e| walk(e, f)),
        X::Dict(v) => v.iter().for_each(|(k, val)| {
            walk(k, f);
            walk(val, f)
        }),
        _ => {}
    }
}

fn depth(x: &X) -> usize {
    match x {
        X::Neg(e) | X::Not(e) => 1 + depth(e),
        X::Bin(l, _, r) => 1 + depth(l).max(depth(r)),
        X::Index(b, i) => 1 + depth(b).max(depth(i)),
        X::Slice(b, s, e, st) => 1 + [s, e, st].into_iter().flatten().map(|e| depth(e)).max().unwrap_or(0).max(depth(b)),
        X::Tuple(v) | X::List(v) | X::Set(v) => 1 + v.iter().map(depth).max().unwrap_or(0),
        X::Dict(v) => 1 + v.iter().map(|(k, v)| depth(k).max(depth(v))).max().unwrap_or(0),
        _ => 0,
    }
}

fn refs(x: &X) -> BTreeSet<usize> {
    let mut s = BTreeSet::new();
    walk(x, &mut |e| {
        if let X::Ref(i) = e {
            s.insert(*i);
        }
    });
    s
}

// ------------------------------------------------------------------------------------------------ generator

/// Feature switches. `e2e` turns off everything a recorded finding keeps from reaching a binary.
#[derive(Clone, Copy, Debug)]
struct Features {
    e2e: bool,
    /// no construct that can fail at run time (used for cycle graphs: the cycle must be the only error)
    safe: bool,
    skip_unknown_slice_bounds: bool,
    /// `s[a::c]` / `s[::c]` parse on this tree (`::` used to be lexed as one token: fixed under C05)
    double_colon: bool,
}

struct Src<'a> {
    c: &'a [u16],
    i: usize,
}
impl<'a> Src<'a> {
    fn next(&mut self) -> u16 {
        let v = self.c.get(self.i).copied().unwrap_or(0);
        self.i += 1;
        v
    }
    fn pick(&mut self, n: usize) -> usize {
        gen::idx(self.next(), n)
    }
    fn chance(&mut self, per_mille: u32) -> bool {
        ((self.next() as u32 * 1000) >> 16) >= 1000 - per_mille
    }
}

const INTS: [i64; 14] = [1, 0, 2, 3, 5, 7, 4, 10, 12, 100, 255, 1000, 65536, 2147483647];
const SMALL_INTS: [i64; 9] = [1, 0, 2, 3, 4, 5, 6, 7, 9];
const FLOATS: [f64; 9] = [1.5, 0.5, 2.5, 0.0, 1.0, 3.25, 10.0, 0.1, 1024.0];
const STRS: [&str; 12] = ["a", "", "ab", "abc", "héllo", "b", "a€c", "😀x", "hello world", " ", "xyz", "e\u{301}a"];

#[derive(Clone, Copy, PartialEq)]
enum P {
    Lit,
    Ref,
    Neg,
    Not,
    Arith(B),
    Cmp(B),
    StrCmp(B),
    BoolEq(B),
    Logic(B),
    Member(B),
    Concat,
    Index,
    Slice,
}

struct Builder<'a> {
    src: Src<'a>,
    feat: Features,
    /// types of the consts that may be referenced
    avail: Vec<Ty>,
}

impl<'a> Builder<'a> {
    fn refs_of(&self, ty: &Ty) -> Vec<usize> {
        self.avail.iter().enumerate().filter(|(_, t)| *t == ty).map(|(i, _)| i).collect()
    }

    fn atom(&mut self, ty: &Ty, index_flavour: bool) -> X {
        let rs = self.refs_of(ty);
        if !rs.is_empty() && self.src.chance(400) {
            return X::Ref(rs[self.src.pick(rs.len())]);
        }
        match ty {
            Ty::Int => {
                if index_flavour {
                    X::Int(SMALL_INTS[self.src.pick(SMALL_INTS.len())])
                } else {
                    let n = if self.feat.e2e { INTS.len() - 3 } else { INTS.len() };
                    X::Int(INTS[self.src.pick(n)])
                }
            }
            Ty::Float => X::Float(FLOATS[self.src.pick(FLOATS.len())]),
            Ty::Bool => X::Bool(self.src.pick(2) == 0),
            Ty::Str => X::Str(STRS[self.src.pick(STRS.len())].to_string()),
            _ => unreachable!("atoms are scalar"),
        }
    }

    /// Build an expression of scalar type `ty` whose grammar level is >= `min`
    /// (0 or, 1 and, 2 not, 3 comparison, 4 additive, 5 multiplicative, 6 power, 7 unary, 8 postfix/atom).
    fn expr(&mut self, ty: &Ty, min: u8, depth: usize, index_flavour: bool) -> X {
        if depth == 0 {
            return self.atom(ty, index_flavour);
        }
        let f = self.feat;
        let mut prods: Vec<P> = vec![P::Lit, P::Lit];
        match ty {
            Ty::Int => {
                if min <= 7 {
                    prods.push(P::Neg);
                    if index_flavour {
                        prods.push(P::Neg);
                    }
                }
                if min <= 4 {
                    prods.extend([P::Arith(B::Add), P::Arith(B::Sub)]);
                }
                if min <= 5 {
                    prods.push(P::Arith(B::Mul));
                    if !f.e2e {
                        prods.extend([P::Arith(B::FloorDiv), P::Arith(B::Mod)]);
                    }
                }
                if min <= 6 && !f.e2e {
                    prods.push(P::Arith(B::Pow));
                }
            }
            Ty::Float => {
                if min <= 7 {
                    prods.push(P::Neg);
                }
                if min <= 4 {
                    prods.extend([P::Arith(B::Add), P::Arith(B::Sub)]);
                }
                if min <= 5 {
                    prods.push(P::Arith(B::Mul));
                    if !f.e2e {
                        prods.extend([P::Arith(B::Div), P::Arith(B::Div), P::Arith(B::FloorDiv), P::Arith(B::Mod)]);
                    }
                }
                if min <= 6 && !f.e2e {
                    prods.push(P::Arith(B::Pow));
                }
            }
            Ty::Bool => {
                if min <= 2 {
                    prods.push(P::Not);
                }
                if min <= 3 {
                    for op in [B::Eq, B::Ne, B::Lt, B::Le, B::Gt, B::Ge] {
                        prods.push(P::Cmp(op));
                    }
                    prods.extend([P::BoolEq(B::Eq), P::BoolEq(B::Ne)]);
                    if !f.e2e {
                        prods.extend([P::StrCmp(B::Eq), P::StrCmp(B::Lt), P::StrCmp(B::Ge), P::StrCmp(B::Ne)]);
                        prods.extend([P::Member(B::In), P::Member(B::NotIn)]);
                    }
                }
                if min <= 1 {
                    prods.extend([P::Logic(B::And), P::Logic(B::And)]);
                }
                if min == 0 {
                    prods.extend([P::Logic(B::Or), P::Logic(B::Or)]);
                }
            }
            Ty::Str => {
                if min <= 4 {
                    prods.extend([P::Concat, P::Concat, P::Concat]);
                }
                if !f.e2e && !f.safe {
                    prods.extend([P::Index, P::Index, P::Slice, P::Slice]);
                }
            }
            _ => unreachable!(),
        }
        if f.safe {
            prods.retain(|p| !matches!(p, P::Arith(B::Div | B::FloorDiv | B::Mod | B::Pow)));
        }
        let p = prods[self.src.pick(prods.len())];
        let d = depth - 1;
        match p {
            P::Lit | P::Ref => self.atom(ty, index_flavour),
            P::Neg => X::Neg(Box::new(self.expr(ty, 7, d, index_flavour))),
            P::Not => {
                // e2e: `not` directly over a comparison is emitted as `!a == b` (C01 finding): keep the operand atomic
                let inner = if f.e2e { self.expr(&Ty::Bool, 8, 0, false) } else { self.expr(&Ty::Bool, 2, d, false) };
                X::Not(Box::new(inner))
            }
            P::Arith(op) => {
                let (lt, rt) = self.operand_kinds(ty, op);
                let lvl = match op {
                    B::Add | B::Sub => 4,
                    B::Pow => 6,
                    _ => 5,
                };
                if op == B::Pow {
                    // power(): postfix ** power. Int result needs a non-negative int literal exponent.
                    let l = self.expr(&lt, 8, d, false);
                    let r = if *ty == Ty::Int {
                        X::Int(SMALL_INTS[self.src.pick(5)])
                    } else if rt == Ty::Int {
                        // float result with an int exponent: the base is float, or the exponent is not a non-negative
                        // int *literal* - a negative literal, a reference to an int const (whatever its value), or a
                        // negated reference
                        let rs = self.refs_of(&Ty::Int);
                        match self.src.pick(if rs.is_empty() { 2 } else { 6 }) {
                            0 if lt == Ty::Float => X::Int(SMALL_INTS[self.src.pick(5)]),
                            0 | 1 => X::Neg(Box::new(X::Int(1 + SMALL_INTS[self.src.pick(3)]))),
                            2 | 3 | 4 => X::Ref(rs[self.src.pick(rs.len())]),
                            _ => X::Neg(Box::new(X::Ref(rs[self.src.pick(rs.len())]))),
                        }
                    } else {
                        self.expr(&rt, 7, d, false)
                    };
                    X::Bin(Box::new(l), op, Box::new(r))
                } else {
                    let l = self.expr(&lt, lvl, d, false);
                    let r = self.expr(&rt, lvl + 1, d, false);
                    X::Bin(Box::new(l), op, Box::new(r))
                }
            }
            P::Cmp(op) => {
                let lt = if self.src.pick(2) == 0 { Ty::Int } else { Ty::Float };
                let rt = if self.src.pick(3) == 0 { if lt == Ty::Int { Ty::Float } else { Ty::Int } } else { lt.clone() };
                // e2e: `<` after a promoted int operand does not parse in the emitted Rust (recorded finding)
                let (lt, rt) = if f.e2e && op == B::Lt && lt == Ty::Int && rt == Ty::Float { (Ty::Float, Ty::Int) } else { (lt, rt) };
                let l = self.expr(&lt, 4, d, false);
                let l = if f.e2e && op == B::Lt && ends_in_cast(&l, &|i| self.avail[i].clone()) { self.atom(&lt, false) } else { l };
                let r = self.expr(&rt, 4, d, false);
                X::Bin(Box::new(l), op, Box::new(r))
            }
            P::StrCmp(op) => {
                let l = self.expr(&Ty::Str, 4, d, false);
                let r = self.expr(&Ty::Str, 4, d, false);
                X::Bin(Box::new(l), op, Box::new(r))
            }
            P::BoolEq(op) => {
                let l = self.atom(&Ty::Bool, false);
                let r = self.atom(&Ty::Bool, false);
                X::Bin(Box::new(l), op, Box::new(r))
            }
            P::Logic(op) => {
                let lvl = if op == B::And { 1 } else { 0 };
                let l = self.expr(&Ty::Bool, lvl, d, false);
                let r = self.expr(&Ty::Bool, lvl + 1, d, false);
                X::Bin(Box::new(l), op, Box::new(r))
            }
            P::Member(op) => {
                let l = self.expr(&Ty::Str, 4, d.min(1), false);
                let r = self.expr(&Ty::Str, 4, d, false);
                X::Bin(Box::new(l), op, Box::new(r))
            }
            P::Concat => {
                // e2e: only `atom + atom` folds to concat!(..); longer chains do not build (recorded finding)
                let l = if f.e2e { self.atom(&Ty::Str, false) } else { self.expr(&Ty::Str, 4, d, false) };
                let r = if f.e2e { self.atom(&Ty::Str, false) } else { self.expr(&Ty::Str, 5, d, false) };
                X::Bin(Box::new(l), B::Add, Box::new(r))
            }
            P::Index => {
                let b = self.expr(&Ty::Str, 8, d, false);
                let i = self.expr(&Ty::Int, 0, d.min(2), true);
                X::Index(Box::new(b), Box::new(i))
            }
            P::Slice => {
                let b = self.expr(&Ty::Str, 8, d, false);
                let mut part = |s: &mut Self, p: u32| if s.src.chance(p) { Some(Box::new(s.expr(&Ty::Int, 0, d.min(1), true))) } else { None };
                let st = part(self, 650);
                let mut en = part(self, 650);
                let step = part(self, 450);
                if step.is_some() && en.is_none() && !f.double_colon {
                    // `s[a::c]` / `s[::c]` do not parse on this tree (`::` is one token; C05): give an end
                    en = Some(Box::new(X::Int(SMALL_INTS[self.src.pick(SMALL_INTS.len())])));
                }
                X::Slice(Box::new(b), st, en, step)
            }
        }
    }

    /// operand kinds for an arithmetic production with result `ty`, following the documented table
    fn operand_kinds(&mut self, ty: &Ty, op: B) -> (Ty, Ty) {
        match ty {
            Ty::Int => (Ty::Int, Ty::Int),
            _ => match op {
                // `/` is float for every operand pair; `**` is float for int ** <anything but a non-negative literal>
                B::Div | B::Pow => match self.src.pick(4) {
                    0 => (Ty::Int, Ty::Int),
                    1 => (Ty::Float, Ty::Int),
                    2 => (Ty::Int, Ty::Float),
                    _ => (Ty::Float, Ty::Float),
                },
                _ => match self.src.pick(3) {
                    0 => (Ty::Float, Ty::Int),
                    1 => (Ty::Int, Ty::Float),
                    _ => (Ty::Float, Ty::Float),
                },
            },
        }
    }

    /// element of a frozen list/set/dict. e2e: only a literal, a negated literal or a const reference is promoted
    /// to `'static` inside `FrozenX::new(&[..])` (recorded finding), so nothing else is generated there.
    fn elem(&mut self, ty: &Ty, depth: usize) -> X {
        if !self.feat.e2e {
            return self.expr(ty, 0, depth, false);
        }
        let a = self.atom(ty, false);
        if matches!(a, X::Int(_) | X::Float(_)) && self.src.chance(300) {
            X::Neg(Box::new(a))
        } else {
            a
        }
    }

    fn scalar_ty(&mut self, allow_str: bool) -> Ty {
        match self.src.pick(if allow_str { 4 } else { 3 }) {
            0 => Ty::Int,
            1 => Ty::Float,
            2 => Ty::Bool,
            _ => Ty::Str,
        }
    }

    fn top(&mut self, depth: usize) -> (Ty, X) {
        let f = self.feat;
        // a whole-const alias of an earlier aggregate
        let aggs: Vec<usize> = self.avail.iter().enumerate().filter(|(_, t)| !t.scalar() && (!f.e2e || matches!(t, Ty::Tuple(_)))).map(|(i, _)| i).collect();
        let shape = self.src.pick(10);
        if shape == 9 && !aggs.is_empty() {
            let i = aggs[self.src.pick(aggs.len())];
            return (self.avail[i].clone(), X::Ref(i));
        }
        let allow_str_elem = !f.e2e;
        match shape {
            0..=5 | 9 => {
                let ty = self.scalar_ty(true);
                let x = self.expr(&ty, 0, depth, false);
                (ty, x)
            }
            6 => {
                let n = 2 + self.src.pick(3);
                let mut tys = Vec::new();
                let mut xs = Vec::new();
                for _ in 0..n {
                    let t = self.scalar_ty(allow_str_elem);
                    xs.push(self.expr(&t, 0, depth - 1, false));
                    tys.push(t);
                }
                (Ty::Tuple(tys), X::Tuple(xs))
            }
            7 => {
                let is_list = self.src.pick(2) == 0;
                let mut t = self.scalar_ty(allow_str_elem);
                if f.e2e && !is_list && t == Ty::Float {
                    // a run-time set of float does not build (HashSet<f64>), so the twin could not be written
                    t = Ty::Int;
                }
                let n = 1 + self.src.pick(4);
                let xs: Vec<X> = (0..n).map(|_| self.elem(&t, depth - 1)).collect();
                if is_list {
                    (Ty::List(Box::new(t)), X::List(xs))
                } else {
                    (Ty::Set(Box::new(t)), X::Set(xs))
                }
            }
            _ => {
                let kt = if allow_str_elem && self.src.pick(2) == 0 { Ty::Str } else { Ty::Int };
                let vt = self.scalar_ty(allow_str_elem);
                let n = 1 + self.src.pick(3);
                let xs: Vec<(X, X)> = (0..n).map(|_| (self.elem(&kt, 1), self.elem(&vt, depth - 1))).collect();
                (Ty::Dict(Box::new(kt), Box::new(vt)), X::Dict(xs))
            }
        }
    }
}

const WRONG_ANNS: [&str; 4] = ["int", "float", "bool", "str"];

#[derive(Clone, Debug)]
struct Recipe {
    n: usize,
    seeds: Vec<Vec<u16>>,
    cycle: Option<(u16, u16, u16)>,
    flags: u16,
}

fn recipe_strategy(with_cycle: bool) -> impl Strategy<Value = Recipe> {
    (
        1usize..=8,
        proptest::collection::vec(proptest::collection::vec(any::<u16>(), 72), 8),
        any::<(u16, u16, u16)>(),
        any::<u16>(),
    )
        .prop_map(move |(n, seeds, c, flags)| Recipe { n, seeds, cycle: if with_cycle { Some(c) } else { None }, flags })
}

fn build_graph(r: &Recipe, feat: Features, prefix: &str) -> Graph {
    let mut consts: Vec<ConstDef> = Vec::new();
    for i in 0..r.n {
        let mut b = Builder { src: Src { c: &r.seeds[i], i: 0 }, feat, avail: consts.iter().map(|c| c.ty.clone()).collect() };
        let annc = b.src.pick(10);
        let d = 1 + b.src.pick(4);
        let (ty, expr) = b.top(d);
        let mut ann = match annc {
            0..=3 => Ann::None,
            4..=7 => Ann::Right,
            _ => Ann::Wrong(b.src.pick(WRONG_ANNS.len())),
        };
        if let Ann::Wrong(w) = ann {
            let wa = WRONG_ANNS[w];
            // an annotation that is really wrong; `float` over an int initializer is not documented either way
            let bad = !ty.scalar() || wa == ty.ann() || (ty == Ty::Int && wa == "float");
            if bad || feat.e2e || feat.safe {
                ann = Ann::Right;
            }
        }
        if feat.e2e && matches!(ty, Ty::Int | Ty::Float) {
            // lowering does not know the type of an un-annotated const, so mixed arithmetic over a reference to it is
            // not promoted (recorded finding)
            ann = Ann::Right;
        } else if feat.e2e && matches!(ty, Ty::Tuple(_)) {
            ann = Ann::None;
        } else if feat.e2e && ty.has_str() {
            // un-annotated string consts are emitted as FrozenStr and do not mix with `str` consts (recorded finding)
            ann = Ann::Right;
        }
        consts.push(ConstDef { ty, expr, ann });
    }
    let mut g = Graph { consts, cycle: Vec::new(), reverse_order: r.flags & 1 == 1, prefix: prefix.to_string(), skip_unknown_slice_bounds: feat.skip_unknown_slice_bounds };
    if let Some((a, b, c)) = r.cycle {
        inject_cycle(&mut g, a, b, c);
    }
    g
}

/// Add references so that members form a cycle m0 -> m1 -> .. -> m0 (length 1..=min(4, n)).
fn inject_cycle(g: &mut Graph, a: u16, b: u16, c: u16) {
    let n = g.consts.len();
    let len = 1 + gen::idx(a, n.min(4));
    // members: `len` distinct indices chosen by stride
    let start = gen::idx(b, n);
    let mut members: Vec<usize> = Vec::new();
    let stride = 1 + gen::idx(c, n);
    let mut k = start;
    while members.len() < len {
        if !members.contains(&k) {
            members.push(k);
        }
        k = (k + stride) % n;
        if members.len() < len && members.contains(&k) {
            k = (k + 1) % n;
        }
    }
    for w in 0..members.len() {
        let from = members[w];
        let to = members[(w + 1) % members.len()];
        let to_ty = g.consts[to].ty.clone();
        let cd = &mut g.consts[from];
        // splice a reference in a position that is always evaluated (left-most operand), keeping the text parseable
        let old = std::mem::replace(&mut cd.expr, X::Int(0));
        cd.expr = match (&cd.ty, &to_ty, old) {
            (Ty::Tuple(_), _, X::Tuple(mut v)) => {
                v.insert(0, X::Ref(to));
                X::Tuple(v)
            }
            (Ty::List(_), _, X::List(mut v)) => {
                v.insert(0, X::Ref(to));
                X::List(v)
            }
            (Ty::Set(_), _, X::Set(mut v)) => {
                v.insert(0, X::Ref(to));
                X::Set(v)
            }
            (Ty::Dict(..), _, X::Dict(mut v)) => {
                v.insert(0, (X::Int(99), X::Ref(to)));
                X::Dict(v)
            }
            (Ty::Bool, _, old) => X::Bin(Box::new(X::Ref(to)), B::Or, Box::new(strip_or(old))),
            (Ty::Str, _, old) => X::Bin(Box::new(X::Ref(to)), B::Add, Box::new(atomize_right(old, 5))),
            (Ty::Int | Ty::Float, _, old) => X::Bin(Box::new(X::Ref(to)), B::Add, Box::new(atomize_right(old, 5))),
            (_, _, _) => X::Ref(to),
        };
        cd.ann = if cd.ann == Ann::None { Ann::None } else { Ann::Right };
    }
    g.cycle = members;
}

/// right operand of a level-4 `+` must be level >= 5
fn atomize_right(x: X, min: u8) -> X {
    if level(&x) >= min {
        x
    } else {
        match x {
            X::Bin(_, _, r) => atomize_right(*r, min),
            o => o,
        }
    }
}
/// right operand of `or` must be level >= 1
fn strip_or(x: X) -> X {
    match x {
        X::Bin(_, B::Or, r) => strip_or(*r),
        o => o,
    }
}

fn level(x: &X) -> u8 {
    match x {
        X::Bin(_, op, _) => match op {
            B::Or => 0,
            B::And => 1,
            B::Add | B::Sub => 4,
            B::Mul | B::Div | B::FloorDiv | B::Mod => 5,
            B::Pow => 6,
            _ => 3,
        },
        X::Not(_) => 2,
        X::Neg(_) => 7,
        _ => 8,
    }
}

/// static type of an expression (numeric table of numeric_semantics.md); `tyof` gives the type of const #i
fn type_of(x: &X, tyof: &dyn Fn(usize) -> Ty) -> Ty {
    match x {
        X::Int(_) => Ty::Int,
        X::Float(_) => Ty::Float,
        X::Bool(_) | X::Not(_) => Ty::Bool,
        X::Str(_) | X::Index(..) | X::Slice(..) => Ty::Str,
        X::Ref(i) => tyof(*i),
        X::Neg(e) => type_of(e, tyof),
        X::Bin(l, op, r) => {
            let (lt, rt) = (type_of(l, tyof), type_of(r, tyof));
            match op {
                B::Add if lt == Ty::Str => Ty::Str,
                B::Div => Ty::Float,
                B::Add | B::Sub | B::Mul | B::FloorDiv | B::Mod => {
                    if lt == Ty::Float || rt == Ty::Float {
                        Ty::Float
                    } else {
                        Ty::Int
                    }
                }
                B::Pow => {
                    let nonneg_lit = matches!(**r, X::Int(n) if n >= 0);
                    if lt == Ty::Int && rt == Ty::Int && nonneg_lit {
                        Ty::Int
                    } else {
                        Ty::Float
                    }
                }
                _ => Ty::Bool,
            }
        }
        X::Tuple(v) => Ty::Tuple(v.iter().map(|e| type_of(e, tyof)).collect()),
        X::List(v) => Ty::List(Box::new(type_of(&v[0], tyof))),
        X::Set(v) => Ty::Set(Box::new(type_of(&v[0], tyof))),
        X::Dict(v) => Ty::Dict(Box::new(type_of(&v[0].0, tyof)), Box::new(type_of(&v[0].1, tyof))),
    }
}

/// Does the emitted Rust of `x` end in an un-parenthesised `as f64` cast (see the C07 finding)?
fn ends_in_cast(x: &X, tyof: &dyn Fn(usize) -> Ty) -> bool {
    match x {
        X::Neg(e) => ends_in_cast(e, tyof),
        X::Bin(l, op, r) if matches!(op, B::Add | B::Sub | B::Mul) || op.is_cmp() => {
            let (lt, rt) = (type_of(l, tyof), type_of(r, tyof));
            (rt == Ty::Int && lt == Ty::Float) || ends_in_cast(r, tyof)
        }
        _ => false,
    }
}

// ------------------------------------------------------------------------------------------------ run-time evaluator

#[derive(Clone, Debug, PartialEq)]
enum Val {
    I(i64),
    F(f64),
    B(bool),
    S(String),
    Tup(Vec<Val>),
    List(Vec<Val>),
    Set(Vec<Val>),
    Dict(Vec<(Val, Val)>),
}

#[derive(Clone, Debug, PartialEq)]
enum RtErr {
    /// the runtime helper panicked with this message (IndexError / ValueError / ZeroDivisionError ...)
    Raised(String),
    /// outside the domain the check judges: i64 overflow, NaN/inf
    OutOfDomain(&'static str),
    /// a referenced const failed
    Poisoned,
}

fn rt<R>(f: impl FnOnce() -> R) -> Result<R, RtErr> {
    util::catch(f).map_err(|m| RtErr::Raised(util::panic_text(&m).to_string()))
}

fn fin(f: f64) -> Result<Val, RtErr> {
    if f.is_finite() {
        Ok(Val::F(f))
    } else {
        Err(RtErr::OutOfDomain("non-finite float"))
    }
}

/// Evaluate with the runtime helpers the generated code calls. `strict_logic`: evaluate both operands of and/or
/// (what the const evaluator does) instead of short-circuiting (what the run time does).
fn eval(x: &X, env: &[Result<Val, RtErr>], strict_logic: bool) -> Result<Val, RtErr> {
    use incan_stdlib::num::{py_div, py_floor_div, py_mod};
    use incan_stdlib::strings as rs;
    let ev = |e: &X| eval(e, env, strict_logic);
    const OVF: RtErr = RtErr::OutOfDomain("i64 overflow");
    Ok(match x {
        X::Int(n) => Val::I(*n),
        X::Float(f) => Val::F(*f),
        X::Bool(b) => Val::B(*b),
        X::Str(s) => Val::S(s.clone()),
        X::Ref(i) => match env.get(*i) {
            Some(Ok(v)) => v.clone(),
            Some(Err(RtErr::OutOfDomain(w))) => return Err(RtErr::OutOfDomain(w)),
            // failed, or a forward reference (only injected cycles have them)
            _ => return Err(RtErr::Poisoned),
        },
        X::Neg(e) => match ev(e)? {
            Val::I(n) => Val::I(n.checked_neg().ok_or(OVF)?),
            Val::F(f) => Val::F(-f),
            _ => unreachable!("generator is type-correct"),
        },
        X::Not(e) => match ev(e)? {
            Val::B(b) => Val::B(!b),
            _ => unreachable!(),
        },
        X::Bin(l, op, r) => {
            if matches!(op, B::And | B::Or) {
                let lv = ev(l)?;
                let Val::B(lb) = lv else { unreachable!() };
                if !strict_logic && ((*op == B::And && !lb) || (*op == B::Or && lb)) {
                    return Ok(Val::B(lb));
                }
                let Val::B(rb) = ev(r)? else { unreachable!() };
                return Ok(Val::B(if *op == B::And { lb && rb } else { lb || rb }));
            }
            let (lv, rv) = (ev(l)?, ev(r)?);
            match (lv, rv) {
                (Val::S(a), Val::S(b)) => match op {
                    B::Add => Val::S(rt(|| rs::str_concat(&a, &b))?),
                    B::In => Val::B(rt(|| rs::str_contains(&b, &a))?),
                    B::NotIn => Val::B(!rt(|| rs::str_contains(&b, &a))?),
                    B::Eq => Val::B(rt(|| rs::str_eq(&a, &b))?),
                    B::Ne => Val::B(rt(|| rs::str_ne(&a, &b))?),
                    B::Lt => Val::B(rt(|| rs::str_lt(&a, &b))?),
                    B::Le => Val::B(rt(|| rs::str_le(&a, &b))?),
                    B::Gt => Val::B(rt(|| rs::str_gt(&a, &b))?),
                    B::Ge => Val::B(rt(|| rs::str_ge(&a, &b))?),
                    _ => unreachable!(),
                },
                (Val::B(a), Val::B(b)) => match op {
                    B::Eq => Val::B(a == b),
                    B::Ne => Val::B(a != b),
                    _ => unreachable!(),
                },
                (lv, rv) => {
                    let f = |v: &Val| match v {
                        Val::I(n) => *n as f64,
                        Val::F(f) => *f,
                        _ => unreachable!(),
                    };
                    if op.is_cmp() {
                        // "operands are promoted to float for comparison" when mixed
                        let c = match (&lv, &rv) {
                            (Val::I(a), Val::I(b)) => a.partial_cmp(b),
                            _ => f(&lv).partial_cmp(&f(&rv)),
                        }
                        .ok_or(RtErr::OutOfDomain("NaN comparison"))?;
                        return Ok(Val::B(match op {
                            B::Eq => c.is_eq(),
                            B::Ne => c.is_ne(),
                            B::Lt => c.is_lt(),
                            B::Le => c.is_le(),
                            B::Gt => c.is_gt(),
                            _ => c.is_ge(),
                        }));
                    }
                    match (op, &lv, &rv) {
                        (B::Add, Val::I(a), Val::I(b)) => Val::I(a.checked_add(*b).ok_or(OVF)?),
                        (B::Sub, Val::I(a), Val::I(b)) => Val::I(a.checked_sub(*b).ok_or(OVF)?),
                        (B::Mul, Val::I(a), Val::I(b)) => Val::I(a.checked_mul(*b).ok_or(OVF)?),
                        (B::Add, ..) => fin(f(&lv) + f(&rv))?,
                        (B::Sub, ..) => fin(f(&lv) - f(&rv))?,
                        (B::Mul, ..) => fin(f(&lv) * f(&rv))?,
                        (B::Div, Val::I(a), Val::I(b)) => fin(rt(|| py_div(*a, *b))?)?,
                        (B::Div, Val::I(a), Val::F(b)) => fin(rt(|| py_div(*a, *b))?)?,
                        (B::Div, Val::F(a), Val::I(b)) => fin(rt(|| py_div(*a, *b))?)?,
                        (B::Div, Val::F(a), Val::F(b)) => fin(rt(|| py_div(*a, *b))?)?,
                        (B::FloorDiv, Val::I(a), Val::I(b)) => {
                            if *a == i64::MIN && *b == -1 {
                                return Err(OVF);
                            }
                            Val::I(rt(|| py_floor_div(*a, *b))?)
                        }
                        (B::FloorDiv, Val::I(a), Val::F(b)) => fin(rt(|| py_floor_div(*a, *b))?)?,
                        (B::FloorDiv, Val::F(a), Val::I(b)) => fin(rt(|| py_floor_div(*a, *b))?)?,
                        (B::FloorDiv, Val::F(a), Val::F(b)) => fin(rt(|| py_floor_div(*a, *b))?)?,
                        (B::Mod, Val::I(a), Val::I(b)) => Val::I(rt(|| py_mod(*a, *b))?),
                        (B::Mod, Val::I(a), Val::F(b)) => fin(rt(|| py_mod(*a, *b))?)?,
                        (B::Mod, Val::F(a), Val::I(b)) => fin(rt(|| py_mod(*a, *b))?)?,
                        (B::Mod, Val::F(a), Val::F(b)) => fin(rt(|| py_mod(*a, *b))?)?,
                        (B::Pow, Val::I(a), Val::I(b)) if matches!(**r, X::Int(n) if n >= 0) => {
                            Val::I(u32::try_from(*b).ok().and_then(|e| a.checked_pow(e)).ok_or(OVF)?)
                        }
                        (B::Pow, ..) => fin(f(&lv).powf(f(&rv)))?,
                        _ => unreachable!(),
                    }
                }
            }
        }
        X::Index(b, i) => {
            let (Val::S(s), Val::I(i)) = (ev(b)?, ev(i)?) else { unreachable!() };
            Val::S(rt(|| rs::str_index(&s, i))?)
        }
        X::Slice(b, s, e, st) => {
            let Val::S(base) = ev(b)? else { unreachable!() };
            let mut part = |o: &Option<Box<X>>| -> Result<Option<i64>, RtErr> {
                match o {
                    None => Ok(None),
                    Some(e) => match ev(e)? {
                        Val::I(n) => Ok(Some(n)),
                        _ => unreachable!(),
                    },
                }
            };
            let (a, b2, c) = (part(s)?, part(e)?, part(st)?);
            Val::S(rt(|| rs::str_slice(&base, a, b2, c))?)
        }
        X::Tuple(v) => Val::Tup(v.iter().map(ev).collect::<Result<_, _>>()?),
        X::List(v) => Val::List(v.iter().map(ev).collect::<Result<_, _>>()?),
        X::Set(v) => Val::Set(v.iter().map(ev).collect::<Result<_, _>>()?),
        X::Dict(v) => Val::Dict(v.iter().map(|(k, val)| Ok((ev(k)?, ev(val)?))).collect::<Result<_, RtErr>>()?),
    })
}

fn val_json(v: &Val) -> Value {
    match v {
        Val::I(n) => json!({"int": n}),
        Val::F(f) => json!({"float": f}),
        Val::B(b) => json!({"bool": b}),
        Val::S(s) => json!({"str": s}),
        Val::Tup(v) => json!({"tuple": v.iter().map(val_json).collect::<Vec<_>>()}),
        Val::List(v) => json!({"list": v.iter().map(val_json).collect::<Vec<_>>()}),
        Val::Set(v) => json!({"set": v.iter().map(val_json).collect::<Vec<_>>()}),
        Val::Dict(v) => json!({"dict": v.iter().map(|(k, v)| json!([val_json(k), val_json(v)])).collect::<Vec<_>>()}),
    }
}

/// duplicates among evaluated set elements / dict keys (recorded finding: frozen collections keep them)
fn has_duplicates(v: &Val) -> bool {
    let dup = |items: Vec<&Val>| {
        for i in 0..items.len() {
            for j in 0..i {
                let same = match (items[i], items[j]) {
                    (Val::F(a), Val::F(b)) => a == b,
                    (a, b) => a == b,
                };
                if same {
                    return true;
                }
            }
        }
        false
    };
    match v {
        Val::Set(s) => dup(s.iter().collect()),
        Val::Dict(d) => dup(d.iter().map(|(k, _)| k).collect()),
        _ => false,
    }
}

// ------------------------------------------------------------------------------------------------ expectations

/// What the harness expects of one const (serialisable: replay files carry these, not the generator's trees).
#[derive(Clone, Debug)]
struct Expect {
    name: String,
    /// "ok" | "fails" | "poisoned" | "wrong-annotation" | "out-of-domain"
    status: String,
    ty: String,
    frozen: bool,
    value: Option<Val>,
    rt_error: Option<String>,
    /// every error some sub-expression raises when evaluated on its own (the first one is `rt_error`)
    rt_errors: Vec<String>,
    /// evaluating both operands of and/or gives a different outcome than short-circuiting
    logic_ambiguous: bool,
    text: String,
    /// top-level construct of the initializer (for signatures)
    shape: String,
}

fn expectations(g: &Graph) -> Vec<Expect> {
    // two environments: what the run time computes (short-circuiting and/or) and what a strict evaluation of both
    // operands computes (the const evaluator's order); a const is judged only where the two agree
    let mut env: Vec<Result<Val, RtErr>> = Vec::new();
    let mut senv: Vec<Result<Val, RtErr>> = Vec::new();
    let mut tainted: Vec<bool> = Vec::new();
    let mut out = Vec::new();
    let names = |i: usize| g.name(i);
    for (i, c) in g.consts.iter().enumerate() {
        let lazy = eval(&c.expr, &env, false);
        let strict = eval(&c.expr, &senv, true);
        let ambiguous = lazy != strict;
        let (status, value, rt_error) = match &lazy {
            Ok(v) => ("ok", Some(v.clone()), None),
            Err(RtErr::Raised(m)) => ("fails", None, Some(m.clone())),
            Err(RtErr::OutOfDomain(_)) => ("out-of-domain", None, None),
            Err(RtErr::Poisoned) => ("poisoned", None, None),
        };
        let status = match (c.ann, status) {
            (Ann::Wrong(_), "ok") => "wrong-annotation",
            // a wrongly annotated const whose initializer also fails: either diagnostic is fine
            (Ann::Wrong(_), "fails") => "poisoned",
            (_, s) => s,
        };
        // recorded finding const-slice:unknown-bound-treated-as-absent: the const and everything that references it
        // (transitively) carries a wrong compile-time value; none of them is judged while the finding is open
        let is_tainted = g.skip_unknown_slice_bounds && (has_unknown_slice_bound(&c.expr, g) || refs(&c.expr).iter().any(|&r| tainted.get(r).copied().unwrap_or(false)));
        tainted.push(is_tainted);
        let status = if is_tainted && status != "out-of-domain" { "excluded-known" } else { status };
        let mut rt_errors = Vec::new();
        walk(&c.expr, &mut |node| {
            if let Err(RtErr::Raised(m)) = eval(node, &senv, true) {
                if !rt_errors.contains(&m) {
                    rt_errors.push(m);
                }
            }
        });
        let (lazy, strict) = if is_tainted { (Err(RtErr::Poisoned), Err(RtErr::Poisoned)) } else { (lazy, strict) };
        out.push(Expect {
            name: g.name(i),
            status: status.to_string(),
            ty: c.ty.frozen_name(),
            frozen: c.ty.frozen(),
            value,
            rt_error,
            rt_errors,
            logic_ambiguous: ambiguous,
            text: render(&c.expr, &names),
            shape: shape(&c.expr),
        });
        env.push(lazy);
        senv.push(strict);
    }
    out
}

fn expect_json(e: &Expect) -> Value {
    json!({"name": e.name, "status": e.status, "type": e.ty, "frozen": e.frozen, "value": e.value.as_ref().map(val_json),
           "rt_error": e.rt_error, "rt_errors": e.rt_errors, "logic_ambiguous": e.logic_ambiguous, "initializer": e.text, "shape": e.shape})
}

fn val_from_json(v: &Value) -> Option<Val> {
    let o = v.as_object()?;
    let (k, v) = o.iter().next()?;
    let list = |v: &Value| v.as_array().map(|a| a.iter().filter_map(val_from_json).collect::<Vec<_>>());
    Some(match k.as_str() {
        "int" => Val::I(v.as_i64()?),
        "float" => Val::F(v.as_f64()?),
        "bool" => Val::B(v.as_bool()?),
        "str" => Val::S(v.as_str()?.to_string()),
        "tuple" => Val::Tup(list(v)?),
        "list" => Val::List(list(v)?),
        "set" => Val::Set(list(v)?),
        "dict" => Val::Dict(v.as_array()?.iter().filter_map(|p| Some((val_from_json(&p[0])?, val_from_json(&p[1])?))).collect()),
        _ => return None,
    })
}

fn expect_from_json(v: &Value) -> Option<Expect> {
    Some(Expect {
        name: v["name"].as_str()?.to_string(),
        status: v["status"].as_str()?.to_string(),
        ty: v["type"].as_str()?.to_string(),
        frozen: v["frozen"].as_bool()?,
        value: if v["value"].is_null() { None } else { val_from_json(&v["value"]) },
        rt_error: v["rt_error"].as_str().map(|s| s.to_string()),
        rt_errors: v["rt_errors"].as_array().map(|a| a.iter().filter_map(|x| x.as_str().map(|s| s.to_string())).collect()).unwrap_or_default(),
        logic_ambiguous: v["logic_ambiguous"].as_bool().unwrap_or(false),
        text: v["initializer"].as_str().unwrap_or("").to_string(),
        shape: v["shape"].as_str().unwrap_or("?").to_string(),
    })
}

fn graph_source(g: &Graph) -> String {
    let names = |i: usize| g.name(i);
    let mut lines: Vec<String> = g
        .consts
        .iter()
        .enumerate()
        .map(|(i, c)| {
            let ann = match c.ann {
                Ann::None => String::new(),
                Ann::Right => format!(": {}", c.ty.ann()),
                Ann::Wrong(w) => format!(": {}", WRONG_ANNS[w]),
            };
            format!("const {}{} = {}", g.name(i), ann, render(&c.expr, &names))
        })
        .collect();
    if g.reverse_order {
        lines.reverse();
    }
    lines.join("\n") + "\n"
}

fn shape(x: &X) -> String {
    match x {
        X::Int(_) | X::Float(_) | X::Bool(_) | X::Str(_) => "literal".into(),
        X::Ref(_) => "ref".into(),
        X::Neg(_) => "neg".into(),
        X::Not(_) => "not".into(),
        X::Bin(_, op, _) => format!("binary:{}", op.sym().replace(' ', "-")),
        X::Index(..) => "str-index".into(),
        X::Slice(..) => "str-slice".into(),
        X::Tuple(_) => "tuple".into(),
        X::List(_) => "list".into(),
        X::Set(_) => "set".into(),
        X::Dict(_) => "dict".into(),
    }
}

// ------------------------------------------------------------------------------------------------ leg 1: in-process

#[derive(Clone, Debug)]
struct Fail {
    key: String,
    what: String,
}

#[derive(Default, Clone, Debug)]
struct Stats {
    values_compared: u64,
    value_unknown_at_compile_time: u64,
    types_compared: u64,
    accepted_without_value_but_runtime_error: u64,
    ct_error_matches_runtime_error: u64,
    discarded_logic_ambiguous: u64,
    wrong_annotation_rejected: u64,
    cycles_reported: u64,
}

fn value_equal(cv: &ConstValue, v: &Val) -> bool {
    match (cv, v) {
        (ConstValue::Int(a), Val::I(b)) => a == b,
        (ConstValue::Float(a), Val::F(b)) => a.to_bits() == b.to_bits(),
        (ConstValue::Bool(a), Val::B(b)) => a == b,
        (ConstValue::FrozenStr(a), Val::S(b)) => a == b,
        _ => false,
    }
}

/// Judge one const-only source against the expectations. `cycle`: names of the injected cycle's members.
fn judge_inproc(source: &str, expects: &[Expect], cycle: &[String], st: &mut Stats) -> Vec<Fail> {
    let mut fails = Vec::new();
    let r = util::catch(|| {
        let tokens = lexer::lex(source).map_err(|e| format!("lex: {}", e.first().map(|e| e.message.clone()).unwrap_or_default()))?;
        let ast = parser::parse(&tokens).map_err(|e| format!("parse: {}", e.first().map(|e| e.message.clone()).unwrap_or_default()))?;
        let mut tc = TypeChecker::new();
        let res = tc.check_program(&ast);
        Ok::<_, String>((ast, tc, res))
    });
    let (ast, tc, res) = match r {
        Ok(Ok(t)) => t,
        Ok(Err(m)) => return vec![Fail { key: "engine:no-parse".into(), what: format!("{m}\n{source}") }],
        Err(p) => {
            let k = if cycle.is_empty() { "checker:panic" } else { "cycle:panic" };
            return vec![Fail { key: k.into(), what: format!("type checker panicked: {p}\n{source}") }];
        }
    };
    let errs = res.err().unwrap_or_default();
    let info = tc.type_info();

    if !cycle.is_empty() {
        let cyc: Vec<&String> = errs.iter().map(|e| &e.message).filter(|m| m.to_lowercase().contains("cycle")).collect();
        if cyc.is_empty() {
            fails.push(Fail {
                key: "cycle:not-reported".into(),
                what: format!(
                    "consts {:?} reference each other in a loop but no diagnostic mentions a cycle (diagnostics: {:?})\n{source}",
                    cycle,
                    errs.iter().map(|e| &e.message).collect::<Vec<_>>()
                ),
            });
        } else if !cyc.iter().any(|m| cycle.iter().any(|n| contains_word(m, n))) {
            fails.push(Fail {
                key: "cycle:reported-without-member-name".into(),
                what: format!("cycle diagnostic {:?} names none of the members {:?}\n{source}", cyc, cycle),
            });
        } else {
            st.cycles_reported += 1;
        }
        return fails;
    }

    // const name -> (decl span, value span)
    let mut decls: BTreeMap<String, ((usize, usize), (usize, usize))> = BTreeMap::new();
    for d in &ast.declarations {
        if let Declaration::Const(c) = &d.node {
            decls.insert(c.name.clone(), ((d.span.start, d.span.end), (c.value.span.start, c.value.span.end)));
        }
    }
    // a diagnostic belongs to the const whose source line holds its span start (one const per line)
    let line_of = |off: usize| source[..off.min(source.len())].matches('\n').count();
    let mut by_const: BTreeMap<String, Vec<String>> = BTreeMap::new();
    let mut unattributed: Vec<String> = Vec::new();
    for e in &errs {
        let l = line_of(e.span.start);
        match decls.iter().find(|(_, (d, _))| line_of(d.0) == l) {
            Some((n, _)) if !(e.span.start == 0 && e.span.end == 0) => by_const.entry(n.clone()).or_default().push(e.message.clone()),
            _ => unattributed.push(e.message.clone()),
        }
    }
    if !unattributed.is_empty() {
        fails.push(Fail { key: "ct-unattributed-diagnostic".into(), what: format!("diagnostics without a usable location: {:?}\n{source}", unattributed) });
    }
    for ex in expects {
        let mine = by_const.get(&ex.name).cloned().unwrap_or_default();
        let cv = info.const_value(&ex.name);
        if ex.logic_ambiguous {
            st.discarded_logic_ambiguous += 1;
            continue;
        }
        match ex.status.as_str() {
            "ok" => {
                if !mine.is_empty() {
                    fails.push(Fail {
                        key: format!("ct-rejects-valid:{}", ex.shape),
                        what: format!(
                            "`const {} = {}` evaluates at run time to {:?} but the compiler rejects it: {:?}\n{source}",
                            ex.name, ex.text, ex.value, mine
                        ),
                    });
                    continue;
                }
                let Some((_, vspan)) = decls.get(&ex.name) else { continue };
                match info.expr_types.get(vspan) {
                    Some(t) => {
                        st.types_compared += 1;
                        if t.to_string() != ex.ty {
                            fails.push(Fail {
                                key: format!("type-differs:{}:{}-vs-{}", ex.shape, t, ex.ty),
                                what: format!("`const {} = {}`: compile-time type `{}`, run-time type `{}`\n{source}", ex.name, ex.text, t, ex.ty),
                            });
                        }
                    }
                    None => fails.push(Fail {
                        key: format!("type-not-recorded:{}", ex.shape),
                        what: format!("`const {} = {}` accepted but no type recorded for its initializer\n{source}", ex.name, ex.text),
                    }),
                }
                match info.const_kinds.get(&ex.name) {
                    Some(k) => {
                        if (format!("{k:?}") == "Frozen") != ex.frozen {
                            fails.push(Fail {
                                key: format!("kind-differs:{}:{}", ex.shape, ex.ty),
                                what: format!("`const {} = {}` of type {} classified {:?}; consts.md: frozen = {}\n{source}", ex.name, ex.text, ex.ty, k, ex.frozen),
                            });
                        }
                    }
                    None => fails.push(Fail { key: format!("kind-not-recorded:{}", ex.shape), what: format!("`const {}` has no const kind\n{source}", ex.name) }),
                }
                match (cv, &ex.value) {
                    (Some(c), Some(v)) => {
                        st.values_compared += 1;
                        if !value_equal(c, v) {
                            fails.push(Fail {
                                key: format!("value-differs:{}", ex.shape),
                                what: format!("`const {} = {}`: compile-time value {:?}, run-time value {:?}\n{source}", ex.name, ex.text, c, v),
                            });
                        }
                    }
                    (None, _) => st.value_unknown_at_compile_time += 1,
                    _ => {}
                }
            }
            "wrong-annotation" => {
                if mine.iter().any(|m| m.to_lowercase().contains("mismatch")) {
                    st.wrong_annotation_rejected += 1;
                } else {
                    fails.push(Fail {
                        key: format!("wrong-annotation-accepted:{}", ex.ty),
                        what: format!("`const {}` of run-time type {} carries an incompatible annotation and is not rejected with a type mismatch (diagnostics {:?})\n{source}", ex.name, ex.ty, mine),
                    });
                }
            }
            "fails" => {
                let want = ex.rt_error.clone().unwrap_or_default();
                if mine.is_empty() {
                    if let Some(c) = cv {
                        fails.push(Fail {
                            key: format!("ct-value-for-failing-expression:{}", ex.shape),
                            what: format!("`const {} = {}` fails at run time with `{}` but the compiler accepts it with value {:?}\n{source}", ex.name, ex.text, want, c),
                        });
                    } else {
                        st.accepted_without_value_but_runtime_error += 1;
                    }
                } else if mine.iter().all(|m| ex.rt_errors.iter().any(|w| m.contains(w.as_str()))) {
                    st.ct_error_matches_runtime_error += 1;
                } else {
                    fails.push(Fail {
                        key: format!("ct-error-text-differs:{}", ex.shape),
                        what: format!("`const {} = {}`: run-time panics {:?}, compile-time diagnostics {:?}\n{source}", ex.name, ex.text, ex.rt_errors, mine),
                    });
                }
            }
            _ => {}
        }
    }
    fails
}

fn contains_word(hay: &str, word: &str) -> bool {
    let mut from = 0;
    while let Some(p) = hay[from..].find(word) {
        let s = from + p;
        let e = s + word.len();
        let before_ok = s == 0 || !hay[..s].chars().next_back().is_some_and(|c| c.is_alphanumeric() || c == '_');
        let after_ok = e == hay.len() || !hay[e..].chars().next().is_some_and(|c| c.is_alphanumeric() || c == '_');
        if before_ok && after_ok {
            return true;
        }
        from = e;
    }
    false
}

// ------------------------------------------------------------------------------------------------ leg 2: emitter

const K_IDX: &str = "emit:const-str-index-slice";
const K_MEM: &str = "emit:const-str-membership";
const K_LTC: &str = "emit:const-lt-after-cast";
const K_ARITH: &str = "build:const-div-floordiv-mod-pow";
const K_STRCMP: &str = "build:const-str-comparison";
const K_UNANN_STR: &str = "build:const-unannotated-str-concat";
const K_STR_AGG: &str = "build:const-str-element-in-aggregate";
const K_DUP: &str = "frozen-set-dict:duplicates-kept";
const K_CONCAT_CHAIN: &str = "build:const-str-concat-chain";
const K_ELEM_PROMO: &str = "build:const-collection-element-not-promotable";
const X_SET_FLOAT: &str = "C02/runtime-hashset-of-float";
const K_UNANN_REF: &str = "build:unannotated-const-ref-not-promoted";

fn strip_neg(x: &X) -> &X {
    match x {
        X::Neg(e) => strip_neg(e),
        o => o,
    }
}

fn promotable_elem(x: &X) -> bool {
    match x {
        X::Int(_) | X::Float(_) | X::Bool(_) | X::Str(_) | X::Ref(_) => true,
        X::Neg(e) => matches!(**e, X::Int(_) | X::Float(_)),
        _ => false,
    }
}
const K_SLICE_BOUND: &str = "const-slice:unknown-bound-treated-as-absent";
const K_ANN_TUPLE: &str = "emit:const-annotated-tuple-not-representable";

/// An int expression whose value the const evaluator computes: literal, negated, or a reference to such a const.
fn ct_known_int(x: &X, g: &Graph) -> bool {
    match x {
        X::Int(_) => true,
        X::Neg(e) => ct_known_int(e, g),
        X::Ref(i) => ct_known_int(&g.consts[*i].expr, g),
        _ => false,
    }
}
/// a string slice with a present bound whose value is not computed at compile time
fn has_unknown_slice_bound(x: &X, g: &Graph) -> bool {
    let mut hit = false;
    walk(x, &mut |e| {
        if let X::Slice(_, s, en, st) = e {
            for o in [s, en, st].into_iter().flatten() {
                if !ct_known_int(o, g) {
                    hit = true;
                }
            }
        }
    });
    hit
}
const X_NOT_CMP: &str = "C01/not-over-comparison";
const X_I32: &str = "C04/untyped-int-i32-fallback";

/// Recorded findings whose construct occurs in the graph (they keep the graph from reaching a binary).
fn blockers(g: &Graph, exps: &[Expect]) -> BTreeSet<&'static str> {
    let mut out = BTreeSet::new();
    let tyof = |i: usize| g.consts[i].ty.clone();
    for (c, ex) in g.consts.iter().zip(exps.iter()) {
        walk(&c.expr, &mut |e| match e {
            X::Index(..) | X::Slice(..) => {
                out.insert(K_IDX);
            }
            X::Bin(l, op, r) => {
                let (lt, rt) = (type_of(l, &tyof), type_of(r, &tyof));
                let unann = |e: &X| matches!(e, X::Ref(i) if g.consts[*i].ann == Ann::None && matches!(g.consts[*i].ty, Ty::Int | Ty::Float));
                // (any operator: with an unknown operand type the lowered type of the whole operation is wrong too, which
                // misleads promotion decisions further up, e.g. `1 / K < 1.5` promotes the already-float left side)
                if matches!(lt, Ty::Int | Ty::Float) && matches!(rt, Ty::Int | Ty::Float) && (unann(strip_neg(l)) || unann(strip_neg(r))) {
                    out.insert(K_UNANN_REF);
                }
                match op {
                    B::Add if lt == Ty::Str && (matches!(**l, X::Bin(..)) || matches!(**r, X::Bin(..))) => {
                        out.insert(K_CONCAT_CHAIN);
                    }
                    B::In | B::NotIn => {
                        out.insert(K_MEM);
                    }
                    B::Div | B::FloorDiv | B::Mod | B::Pow => {
                        out.insert(K_ARITH);
                    }
                    B::Lt if lt != Ty::Str && ((lt == Ty::Int && rt == Ty::Float) || ends_in_cast(l, &tyof)) => {
                        out.insert(K_LTC);
                    }
                    o if o.is_cmp() && lt == Ty::Str => {
                        out.insert(K_STRCMP);
                    }
                    _ => {}
                }
            }
            X::Not(inner) if matches!(**inner, X::Bin(_, op, _) if op.is_cmp() || matches!(op, B::In | B::NotIn)) => {
                out.insert(X_NOT_CMP);
            }
            X::Int(n) if *n > i32::MAX as i64 => {
                out.insert(X_I32);
            }
            _ => {}
        });
        if c.ty == Ty::Str && c.ann == Ann::None && !matches!(c.expr, X::Str(_)) {
            out.insert(K_UNANN_STR);
        }
        if c.ty == Ty::Str && c.ann != Ann::None {
            // an annotated `str` const referencing an un-annotated one (FrozenStr) mixes the two representations
            if refs(&c.expr).iter().any(|&r| g.consts[r].ty == Ty::Str && g.consts[r].ann == Ann::None) {
                out.insert(K_UNANN_STR);
            }
        }
        if !c.ty.scalar() && c.ty.has_str() {
            out.insert(K_STR_AGG);
        }
        if matches!(c.ty, Ty::Tuple(_)) && c.ann != Ann::None {
            out.insert(K_ANN_TUPLE);
        }
        match &c.expr {
            X::List(v) | X::Set(v) if !v.iter().all(promotable_elem) => {
                out.insert(K_ELEM_PROMO);
            }
            X::Dict(v) if !v.iter().all(|(k, val)| promotable_elem(k) && promotable_elem(val)) => {
                out.insert(K_ELEM_PROMO);
            }
            _ => {}
        }
        if matches!(&c.ty, Ty::Set(t) if **t == Ty::Float) {
            out.insert(X_SET_FLOAT);
        }
        if ex.value.as_ref().is_some_and(has_duplicates) {
            out.insert(K_DUP);
        }
    }
    out
}

const MAIN_STUB: &str = "\ndef main() -> None:\n    pass\n";

/// Ok(()) / Err((class, full text))
fn emit_src(src: &str) -> Result<String, (String, String)> {
    let r = util::catch(|| {
        let tokens = lexer::lex(src).map_err(|e| ("lex".to_string(), format!("{:?}", e.first().map(|e| &e.message))))?;
        let ast = parser::parse(&tokens).map_err(|e| ("parse".to_string(), format!("{:?}", e.first().map(|e| &e.message))))?;
        IrCodegen::new().try_generate(&ast).map_err(|e| {
            let full = e.to_string();
            let class = if full.contains("not allowed in const initializers (phase 1)") {
                "const-phase1-expression"
            } else if full.contains("Method calls are not allowed in const") {
                "const-method-call"
            } else if full.contains("casts cannot be followed by a method call") {
                "cast-then-method"
            } else if full.contains("syn parse error") {
                "syn-parse"
            } else if full.contains("typecheck failed") {
                "typecheck"
            } else if full.contains("not representable") {
                "const-not-representable"
            } else {
                "other"
            };
            (class.to_string(), full)
        })
    });
    match r {
        Ok(v) => v,
        Err(p) => Err(("panic".into(), p)),
    }
}

/// which recorded finding explains an emitter error class
fn key_of_emit_class(class: &str) -> Option<&'static str> {
    match class {
        "const-phase1-expression" => Some(K_IDX),
        "const-method-call" => Some(K_MEM),
        "cast-then-method" => Some(K_ARITH),
        "syn-parse" => Some(K_LTC),
        "const-not-representable" => Some(K_ANN_TUPLE),
        _ => None,
    }
}

// ------------------------------------------------------------------------------------------------ leg 3: end to end

#[derive(Clone, Debug, PartialEq)]
struct Slot {
    name: String,
    /// scalar | tuple | list | set | dict
    mode: String,
    /// type of every const-side token ("int" | "float" | "bool" | "str")
    tok_types: Vec<String>,
    /// reference value of every const-side token (harness evaluator = runtime helpers)
    reference: Vec<String>,
    has_twin: bool,
    shape: String,
    ty: String,
    text: String,
}

impl Slot {
    fn const_lines(&self) -> usize {
        match self.mode.as_str() {
            "scalar" | "tuple" => self.tok_types.len(),
            _ => 2,
        }
    }
    /// twin prints: scalar/tuple: every token; list: len + elements; set: len; dict: len + values
    fn twin_lines(&self) -> usize {
        if !self.has_twin {
            return 0;
        }
        match self.mode.as_str() {
            "scalar" | "tuple" | "list" => self.tok_types.len(),
            "set" => 1,
            _ => 1 + (self.tok_types.len() - 1) / 2,
        }
    }
    /// indices of const-side tokens that have a twin counterpart, in twin order
    fn twinned(&self) -> Vec<usize> {
        match self.mode.as_str() {
            "scalar" | "tuple" | "list" => (0..self.tok_types.len()).collect(),
            "set" => vec![0],
            _ => std::iter::once(0).chain((1..self.tok_types.len()).filter(|i| i % 2 == 0)).collect(),
        }
    }
}

fn scalar_name(t: &Ty) -> &'static str {
    match t {
        Ty::Int => "int",
        Ty::Float => "float",
        Ty::Bool => "bool",
        _ => "str",
    }
}
fn scalar_text(v: &Val) -> String {
    match v {
        Val::I(n) => n.to_string(),
        Val::F(f) => fmt_float(*f),
        Val::B(b) => b.to_string(),
        Val::S(s) => s.clone(),
        _ => "?".into(),
    }
}

fn slot_of(g: &Graph, i: usize, ex: &Expect) -> Slot {
    let c = &g.consts[i];
    let v = ex.value.clone().unwrap_or(Val::I(0));
    let (mode, tys, refs): (&str, Vec<String>, Vec<String>) = match (&c.ty, &v) {
        (Ty::Tuple(ts), Val::Tup(vs)) => ("tuple", ts.iter().map(|t| scalar_name(t).to_string()).collect(), vs.iter().map(scalar_text).collect()),
        (Ty::List(t), Val::List(vs)) => (
            "list",
            std::iter::once("int".to_string()).chain(vs.iter().map(|_| scalar_name(t).to_string())).collect(),
            std::iter::once(vs.len().to_string()).chain(vs.iter().map(scalar_text)).collect(),
        ),
        (Ty::Set(t), Val::Set(vs)) => (
            "set",
            std::iter::once("int".to_string()).chain(vs.iter().map(|_| scalar_name(t).to_string())).collect(),
            std::iter::once(vs.len().to_string()).chain(vs.iter().map(scalar_text)).collect(),
        ),
        (Ty::Dict(k, vt), Val::Dict(vs)) => (
            "dict",
            std::iter::once("int".to_string()).chain(vs.iter().flat_map(|_| [scalar_name(k).to_string(), scalar_name(vt).to_string()])).collect(),
            std::iter::once(vs.len().to_string()).chain(vs.iter().flat_map(|(a, b)| [scalar_text(a), scalar_text(b)])).collect(),
        ),
        (t, v) => ("scalar", vec![scalar_name(t).to_string()], vec![scalar_text(v)]),
    };
    Slot {
        name: g.name(i),
        mode: mode.to_string(),
        tok_types: tys,
        reference: refs,
        // run-time `str + str` on non-literal operands does not build (C02), so string consts have no twin
        has_twin: !c.ty.has_str(),
        shape: ex.shape.clone(),
        ty: ex.ty.clone(),
        text: ex.text.clone(),
    }
}

/// twin expression: literals become typed parameters, const references become locals
fn render_twin(x: &X, g: &Graph, params: &mut Vec<(String, String)>) -> String {
    let mut lit = |ty: &str, text: String| {
        params.push((ty.to_string(), text));
        format!("p{}", params.len() - 1)
    };
    match x {
        X::Int(n) => lit("int", n.to_string()),
        X::Float(f) => lit("float", fmt_float(*f)),
        X::Bool(b) => lit("bool", if *b { "True".into() } else { "False".into() }),
        X::Str(s) => quote(s),
        X::Ref(i) => format!("v{i}"),
        X::Neg(e) => format!("-{}", render_twin(e, g, params)),
        X::Not(e) => format!("not {}", render_twin(e, g, params)),
        X::Bin(l, op, r) => {
            let a = render_twin(l, g, params);
            let b = render_twin(r, g, params);
            format!("{a} {} {b}", op.sym())
        }
        X::Tuple(v) => format!("({})", v.iter().map(|e| render_twin(e, g, params)).collect::<Vec<_>>().join(", ")),
        X::List(v) => format!("[{}]", v.iter().map(|e| render_twin(e, g, params)).collect::<Vec<_>>().join(", ")),
        X::Set(v) => format!("{{{}}}", v.iter().map(|e| render_twin(e, g, params)).collect::<Vec<_>>().join(", ")),
        X::Dict(v) => format!(
            "{{{}}}",
            v.iter()
                .map(|(k, val)| {
                    let kk = render_twin(k, g, params);
                    let vv = render_twin(val, g, params);
                    format!("{kk}: {vv}")
                })
                .collect::<Vec<_>>()
                .join(", ")
        ),
        X::Index(..) | X::Slice(..) => unreachable!("not in the e2e profile"),
    }
}

struct E2eCase {
    graph: Graph,
    slots: Vec<Slot>,
}

/// (const declarations, const-side prints, twin function, twin call)
fn e2e_parts(case: &E2eCase) -> (String, String, String, String) {
    let g = &case.graph;
    let decls = graph_source(g);
    let mut prints = String::new();
    for (i, s) in case.slots.iter().enumerate() {
        let _ = i;
        match s.mode.as_str() {
            "scalar" => prints.push_str(&format!("    print({})\n", s.name)),
            "tuple" => {
                for k in 0..s.tok_types.len() {
                    prints.push_str(&format!("    print({}.{k})\n", s.name));
                }
            }
            _ => prints.push_str(&format!("    print({0}.len())\n    print({0})\n", s.name)),
        }
    }
    let mut params: Vec<(String, String)> = Vec::new();
    let mut body = String::new();
    for (i, c) in g.consts.iter().enumerate() {
        let s = &case.slots[i];
        if !s.has_twin {
            continue;
        }
        let e = render_twin(&c.expr, g, &mut params);
        body.push_str(&format!("    v{i} = {e}\n"));
        match (&c.expr, s.mode.as_str()) {
            (_, "scalar") => body.push_str(&format!("    print(v{i})\n")),
            (_, "tuple") => {
                for k in 0..s.tok_types.len() {
                    body.push_str(&format!("    print(v{i}.{k})\n"));
                }
            }
            (X::List(items), _) => {
                body.push_str(&format!("    print(len(v{i}))\n"));
                for k in 0..items.len() {
                    body.push_str(&format!("    print(v{i}[{k}])\n"));
                }
            }
            (X::Set(_), _) => body.push_str(&format!("    print(len(v{i}))\n")),
            (X::Dict(items), _) => {
                body.push_str(&format!("    print(len(v{i}))\n"));
                for (n, (k, _)) in items.iter().enumerate() {
                    // the key goes through a local: a non-atomic dict subscript is mis-emitted (`&a + b`), not C06's subject
                    let kk = render_twin(k, g, &mut params);
                    body.push_str(&format!("    kk{i}_{n} = {kk}\n    print(v{i}[kk{i}_{n}])\n"));
                }
            }
            _ => unreachable!("aggregate aliases are not in the e2e profile"),
        }
    }
    let fname = format!("rt_{}", g.prefix.trim_end_matches('_').to_lowercase());
    let sig: Vec<String> = params.iter().enumerate().map(|(n, (t, _))| format!("p{n}: {t}")).collect();
    if body.is_empty() {
        body.push_str("    pass\n");
    }
    let func = format!("def {fname}({}) -> None:\n{body}\n", sig.join(", "));
    let call = format!("    {fname}({})\n", params.iter().map(|(_, v)| v.clone()).collect::<Vec<_>>().join(", "));
    (decls, prints, func, call)
}

const MARK: &str = "=====";

fn e2e_program(cases: &[&E2eCase]) -> String {
    let mut decls = String::new();
    let mut funcs = String::new();
    let mut main = String::from("def main() -> None:\n");
    let mut calls = String::new();
    for c in cases {
        let (d, p, f, call) = e2e_parts(c);
        decls.push_str(&d);
        decls.push('\n');
        funcs.push_str(&f);
        main.push_str(&p);
        calls.push_str(&call);
    }
    main.push_str(&format!("    print(\"{MARK}\")\n"));
    main.push_str(&calls);
    format!("{decls}\n{funcs}{main}")
}

fn slot_json(s: &Slot) -> Value {
    json!({"name": s.name, "mode": s.mode, "tok_types": s.tok_types, "reference": s.reference, "has_twin": s.has_twin,
           "shape": s.shape, "type": s.ty, "initializer": s.text})
}
fn slot_from_json(v: &Value) -> Option<Slot> {
    let strs = |v: &Value| v.as_array().map(|a| a.iter().filter_map(|x| x.as_str().map(|s| s.to_string())).collect::<Vec<_>>());
    Some(Slot {
        name: v["name"].as_str()?.into(),
        mode: v["mode"].as_str()?.into(),
        tok_types: strs(&v["tok_types"])?,
        reference: strs(&v["reference"])?,
        has_twin: v["has_twin"].as_bool()?,
        shape: v["shape"].as_str().unwrap_or("?").into(),
        ty: v["type"].as_str().unwrap_or("?").into(),
        text: v["initializer"].as_str().unwrap_or("").into(),
    })
}

fn tok_equal(ty: &str, a: &str, b: &str) -> bool {
    match ty {
        "int" => matches!((a.trim().parse::<i64>(), b.trim().parse::<i64>()), (Ok(x), Ok(y)) if x == y),
        "float" => matches!((a.trim().parse::<f64>(), b.trim().parse::<f64>()), (Ok(x), Ok(y)) if x == y),
        "bool" => {
            let n = |s: &str| s.trim().to_lowercase();
            matches!(n(a).as_str(), "true" | "false") && n(a) == n(b)
        }
        _ => a == b,
    }
}

/// split the Display text of a frozen collection into element tokens
fn display_tokens(line: &str, dict: bool) -> Vec<String> {
    let t = line.trim();
    if t.len() < 2 {
        return vec![];
    }
    let inner = &t[1..t.len() - 1];
    if inner.is_empty() {
        return vec![];
    }
    let mut out = Vec::new();
    for item in inner.split(", ") {
        if dict {
            match item.split_once(": ") {
                Some((k, v)) => {
                    out.push(k.to_string());
                    out.push(v.to_string());
                }
                None => out.push(item.to_string()),
            }
        } else {
            out.push(item.to_string());
        }
    }
    out
}

/// Judge the stdout of an e2e program. Returns failures and the number of (twin-compared, reference-compared,
/// twin-agrees-but-reference-differs) tokens.
fn judge_e2e_stdout(stdout: &str, slots: &[Slot], source: &str) -> (Vec<Fail>, (u64, u64, u64)) {
    let mut fails = Vec::new();
    let mut counts = (0u64, 0u64, 0u64);
    let lines: Vec<&str> = stdout.lines().collect();
    let n_const: usize = slots.iter().map(|s| s.const_lines()).sum();
    let n_twin: usize = slots.iter().map(|s| s.twin_lines()).sum();
    if lines.len() != n_const + 1 + n_twin || lines.get(n_const).copied() != Some(MARK) {
        fails.push(Fail {
            key: "e2e:output-shape".into(),
            what: format!("expected {n_const} const lines, the marker and {n_twin} run-time lines; got {} lines:\n{}\n{source}", lines.len(), util::truncate(stdout, 1500)),
        });
        return (fails, counts);
    }
    let (mut ci, mut ti) = (0usize, n_const + 1);
    for s in slots {
        // const-side tokens
        let ctoks: Vec<String> = match s.mode.as_str() {
            "scalar" | "tuple" => lines[ci..ci + s.const_lines()].iter().map(|l| l.to_string()).collect(),
            m => std::iter::once(lines[ci].to_string()).chain(display_tokens(lines[ci + 1], m == "dict")).collect(),
        };
        ci += s.const_lines();
        let ttoks: Vec<String> = lines[ti..ti + s.twin_lines()].iter().map(|l| l.to_string()).collect();
        ti += s.twin_lines();
        if ctoks.len() != s.tok_types.len() {
            fails.push(Fail {
                key: format!("e2e:const-shape:{}:{}", s.mode, s.ty),
                what: format!("`const {} = {}` prints {:?}; expected {} tokens like {:?}\n{source}", s.name, s.text, ctoks, s.tok_types.len(), s.reference),
            });
            continue;
        }
        let twinned = if s.has_twin { s.twinned() } else { vec![] };
        let mut ok_vs_twin = true;
        for (k, &ix) in twinned.iter().enumerate() {
            counts.0 += 1;
            if !tok_equal(&s.tok_types[ix], &ctoks[ix], &ttoks[k]) {
                ok_vs_twin = false;
                fails.push(Fail {
                    key: format!("e2e:const-differs-from-runtime:{}:{}", s.shape, s.ty),
                    what: format!(
                        "`const {} = {}` ({}) prints {:?}; the same expression evaluated at run time prints {:?} (token {ix}: `{}` vs `{}`)\n{source}",
                        s.name, s.text, s.ty, ctoks, ttoks, ctoks[ix], ttoks[k]
                    ),
                });
                break;
            }
        }
        // tokens without a run-time twin are held to the harness evaluator (which calls the runtime helpers);
        // sets are compared as multisets (element order of a set is not specified)
        let mut untwinned: Vec<usize> = (0..ctoks.len()).filter(|i| !twinned.contains(i)).collect();
        if s.mode == "set" {
            let mut got: Vec<&String> = untwinned.iter().map(|&i| &ctoks[i]).collect();
            let mut want: Vec<&String> = untwinned.iter().map(|&i| &s.reference[i]).collect();
            let ety = s.tok_types.get(1).cloned().unwrap_or_default();
            counts.1 += got.len() as u64;
            let mut all = true;
            while let Some(w) = want.pop() {
                match got.iter().position(|g| tok_equal(&ety, g, w)) {
                    Some(p) => {
                        got.remove(p);
                    }
                    None => all = false,
                }
            }
            if !all {
                fails.push(Fail {
                    key: format!("e2e:const-differs-from-reference:{}:{}", s.shape, s.ty),
                    what: format!("`const {} = {}` prints {:?}; run-time reference elements {:?}\n{source}", s.name, s.text, ctoks, s.reference),
                });
            }
            untwinned.clear();
        }
        for ix in untwinned {
            counts.1 += 1;
            if !tok_equal(&s.tok_types[ix], &ctoks[ix], &s.reference[ix]) {
                fails.push(Fail {
                    key: format!("e2e:const-differs-from-reference:{}:{}", s.shape, s.ty),
                    what: format!(
                        "`const {} = {}` prints {:?}; evaluating the initializer with the runtime helpers gives {:?}\n{source}",
                        s.name, s.text, ctoks, s.reference
                    ),
                });
                break;
            }
        }
        if ok_vs_twin {
            for &ix in &twinned {
                if !tok_equal(&s.tok_types[ix], &ctoks[ix], &s.reference[ix]) {
                    counts.2 += 1;
                }
            }
        }
    }
    (fails, counts)
}


// ------------------------------------------------------------------------------------------------ cycle shapes

/// A dependency cycle of 1..=4 consts whose links are chosen independently (bare alias, unary/binary expression,
/// string concat, collection literal, mixed), plus 0..=3 "tail" consts leading into it from outside, in a chosen
/// declaration order, annotated or not.
#[derive(Clone, Debug)]
struct CycRecipe {
    len: usize,
    strs: bool,
    links: Vec<u8>,
    tails: Vec<(u8, u16)>,
    order: u8,
    anns: u16,
}

fn cyc_strategy() -> impl Strategy<Value = CycRecipe> {
    (1usize..=4, any::<bool>(), proptest::collection::vec(any::<u8>(), 4), proptest::collection::vec(any::<(u8, u16)>(), 0..=3), any::<u8>(), any::<u16>())
        .prop_map(|(len, strs, links, tails, order, anns)| CycRecipe { len, strs, links, tails, order, anns })
}

/// initializer of a const that references `n`; returns (text, annotation or "")
fn link_text(kind: u8, n: &str, strs: bool) -> (String, &'static str) {
    if strs {
        match kind % 10 {
            0 | 1 | 2 | 3 => (n.to_string(), "str"),
            4 => (format!("{n} + \"a\""), "str"),
            5 => (format!("\"a\" + {n}"), "str"),
            6 => (format!("{n} + \"a\" + {n}"), "str"),
            7 => (format!("[{n}, \"x\"]"), ""),
            8 => (format!("({n}, \"x\")"), ""),
            _ => (format!("{n} == \"a\""), "bool"),
        }
    } else {
        match kind % 12 {
            0 | 1 | 2 | 3 => (n.to_string(), "int"),
            4 => (format!("-{n}"), "int"),
            5 => (format!("{n} + 1"), "int"),
            6 => (format!("2 * {n}"), "int"),
            7 => (format!("1 + {n} * 2 - 3"), "int"),
            8 => (format!("[{n}, 1]"), ""),
            9 => (format!("({n}, 1)"), ""),
            10 => (format!("{{1: {n}}}"), ""),
            _ => (format!("{n} < 3 and True"), "bool"),
        }
    }
}

/// (source, cycle member names, number of tails, number of bare-alias links)
fn cyc_source(r: &CycRecipe) -> (String, Vec<String>, usize, usize) {
    let members: Vec<String> = (0..r.len).map(|i| format!("C{i}")).collect();
    let mut aliases = 0;
    let mut decl = |name: &str, kind: u8, target: &str, idx: usize| {
        let (text, ann) = link_text(kind, target, r.strs);
        if text == target {
            aliases += 1;
        }
        if !ann.is_empty() && (r.anns >> idx) & 1 == 1 {
            format!("const {name}: {ann} = {text}")
        } else {
            format!("const {name} = {text}")
        }
    };
    let cyc: Vec<String> = (0..r.len).map(|i| decl(&members[i], r.links[i], &members[(i + 1) % r.len], i)).collect();
    let mut tail_names: Vec<String> = Vec::new();
    let mut tails: Vec<String> = Vec::new();
    for (t, (kind, target)) in r.tails.iter().enumerate() {
        // a tail references a cycle member or an earlier tail (so tails can chain into the cycle)
        let pool: Vec<&String> = members.iter().chain(tail_names.iter()).collect();
        let tgt = pool[gen::idx(*target, pool.len())].clone();
        let name = format!("T{t}");
        tails.push(decl(&name, *kind, &tgt, 4 + t));
        tail_names.push(name);
    }
    let n_tails = tails.len();
    let mut lines: Vec<String> = match r.order % 6 {
        0 => tails.iter().rev().chain(cyc.iter()).cloned().collect(),
        1 => cyc.iter().chain(tails.iter()).cloned().collect(),
        2 => tails.iter().chain(cyc.iter()).cloned().collect(),
        3 => {
            let mut v = Vec::new();
            let (mut a, mut b) = (tails.iter(), cyc.iter());
            loop {
                match (a.next(), b.next()) {
                    (None, None) => break,
                    (x, y) => {
                        v.extend(x.cloned());
                        v.extend(y.cloned());
                    }
                }
            }
            v
        }
        4 => cyc.iter().rev().chain(tails.iter().rev()).cloned().collect(),
        _ => {
            let mut v: Vec<String> = cyc.iter().chain(tails.iter()).cloned().collect();
            let k = (r.order as usize / 6) % v.len().max(1);
            v.rotate_left(k);
            v
        }
    };
    lines.push(String::new());
    (lines.join("\n"), members, n_tails, aliases)
}

enum Watched<T> {
    Done(T),
    TimedOut,
    Died,
}

/// Run `f` on a worker thread; give up waiting after `secs` (the thread is abandoned, not killed).
fn with_watchdog<T: Send + 'static>(secs: u64, f: impl FnOnce() -> T + Send + 'static) -> Watched<T> {
    let (tx, rx) = std::sync::mpsc::channel();
    let spawned = std::thread::Builder::new().stack_size(64 << 20).spawn(move || {
        let _ = tx.send(f());
    });
    if spawned.is_err() {
        return Watched::Died;
    }
    match rx.recv_timeout(std::time::Duration::from_secs(secs)) {
        Ok(v) => Watched::Done(v),
        Err(std::sync::mpsc::RecvTimeoutError::Timeout) => Watched::TimedOut,
        Err(_) => Watched::Died,
    }
}

// ------------------------------------------------------------------------------------------------ driving

fn strip_ansi(s: &str) -> String {
    let mut out = String::new();
    let mut it = s.chars();
    while let Some(c) = it.next() {
        if c == '\x1b' {
            for d in it.by_ref() {
                if d.is_ascii_alphabetic() {
                    break;
                }
            }
        } else {
            out.push(c);
        }
    }
    out
}

fn first_error_code(text: &str) -> String {
    for l in text.lines() {
        let l = strip_ansi(l);
        let l = l.trim_start();
        if let Some(rest) = l.strip_prefix("error[") {
            return rest.split(']').next().unwrap_or("rustc").to_string();
        }
        if l.contains("Code generation error") {
            return "codegen".into();
        }
    }
    "unknown".into()
}

/// `incan --check` on a const-only source through the CLI, with a watchdog. (status, timed_out, signal, output)
fn cli_check(farm: &Farm, source: &str, secs: u64) -> (Option<i32>, bool, Option<i32>, String) {
    let dir = farm.case_dir();
    let _ = std::fs::write(dir.join("cyc.incn"), format!("{source}{MAIN_STUB}"));
    let mut c = std::process::Command::new(&farm.incan);
    c.arg("--check").arg("cyc.incn").current_dir(&dir);
    let r = farm::run_cmd(c, std::time::Duration::from_secs(secs));
    let _ = std::fs::remove_dir_all(&dir);
    (r.status, r.timed_out, r.signal, strip_ansi(&format!("{}{}", r.stdout, r.stderr)))
}

struct InprocOut {
    fails: Vec<Fail>,
    stats: Stats,
    nontrivial: bool,
    classes: Vec<String>,
    blockers: BTreeSet<&'static str>,
    emit_fail: Option<Fail>,
    emit_excluded: Option<&'static str>,
    out_of_domain: bool,
    sample: Value,
}

fn inproc_doc(g: &Graph, exps: &[Expect]) -> Value {
    json!({"leg": "inproc", "source": graph_source(g), "expects": exps.iter().map(expect_json).collect::<Vec<_>>(),
           "cycle": g.cycle.iter().map(|&i| g.name(i)).collect::<Vec<_>>()})
}

fn run_inproc(r: &Recipe, feat: Features) -> InprocOut {
    let g = build_graph(r, feat, "");
    let exps = expectations(&g);
    let src = graph_source(&g);
    let cycle: Vec<String> = g.cycle.iter().map(|&i| g.name(i)).collect();
    let mut stats = Stats::default();
    let fails = judge_inproc(&src, &exps, &cycle, &mut stats);
    let mut classes: Vec<String> = Vec::new();
    let mut nontrivial = false;
    for c in &g.consts {
        classes.push(format!("shape:{}", shape(&c.expr)));
        classes.push(format!(
            "type:{}",
            match &c.ty {
                Ty::Tuple(_) => "tuple".to_string(),
                Ty::List(_) => "list".to_string(),
                Ty::Set(_) => "set".to_string(),
                Ty::Dict(..) => "dict".to_string(),
                t => t.ann(),
            }
        ));
        classes.push(format!("annotation:{}", match c.ann {
            Ann::None => "none",
            Ann::Right => "right",
            Ann::Wrong(_) => "wrong",
        }));
        let mut neg = false;
        let mut idx = false;
        walk(&c.expr, &mut |e| match e {
            X::Neg(_) => neg = true,
            X::Index(..) | X::Slice(..) => idx = true,
            _ => {}
        });
        if depth(&c.expr) >= 2 || !refs(&c.expr).is_empty() || idx || neg {
            nontrivial = true;
        }
    }
    for e in &exps {
        classes.push(format!("runtime-outcome:{}", e.status));
        if e.status == "excluded-known" {
            classes.push("excluded:const-slice-unknown-bound".into());
        }
    }
    classes.push(format!("consts:{}", g.consts.len()));
    if !g.cycle.is_empty() {
        classes.push(format!("cycle-length:{}", g.cycle.len()));
    }
    let bl = blockers(&g, &exps);
    let mut emit_fail = None;
    let mut emit_excluded = None;
    let all_ok = g.cycle.is_empty() && exps.iter().all(|e| e.status == "ok" && !e.logic_ambiguous) && fails.is_empty();
    if all_ok {
        if let Err((class, full)) = emit_src(&format!("{src}{MAIN_STUB}")) {
            // lowering has no type for a reference to an un-annotated const (K_UNANN_REF): it then treats the left operand
            // of `<` as int and promotes it, which is the `<`-after-cast defect although the checker's types do not predict it
            let mut has_lt = false;
            for c in &g.consts {
                walk(&c.expr, &mut |e| {
                    if matches!(e, X::Bin(_, B::Lt, _)) {
                        has_lt = true;
                    }
                });
            }
            match key_of_emit_class(&class) {
                Some(k) if bl.contains(k) => emit_excluded = Some(k),
                Some(K_LTC) if has_lt && bl.contains(K_UNANN_REF) => emit_excluded = Some(K_UNANN_REF),
                _ => {
                    let shapes: BTreeSet<String> = g.consts.iter().map(|c| shape(&c.expr)).collect();
                    emit_fail = Some(Fail {
                        key: format!("emit:{class}:{}", shapes.into_iter().collect::<Vec<_>>().join("+")),
                        what: format!("the checker accepts these consts, code generation fails: {}\n{src}", util::truncate(&full, 400)),
                    });
                }
            }
        }
    }
    InprocOut {
        fails,
        stats,
        nontrivial,
        classes,
        blockers: bl,
        emit_fail,
        emit_excluded,
        out_of_domain: exps.iter().any(|e| e.status == "out-of-domain"),
        sample: json!({"source": src, "runtime": exps.iter().map(|e| json!({"name": e.name, "status": e.status, "type": e.ty, "value": e.value.as_ref().map(val_json), "error": e.rt_error})).collect::<Vec<_>>()}),
    }
}

fn add_stats(a: &mut Stats, b: &Stats) {
    a.values_compared += b.values_compared;
    a.value_unknown_at_compile_time += b.value_unknown_at_compile_time;
    a.types_compared += b.types_compared;
    a.accepted_without_value_but_runtime_error += b.accepted_without_value_but_runtime_error;
    a.ct_error_matches_runtime_error += b.ct_error_matches_runtime_error;
    a.discarded_logic_ambiguous += b.discarded_logic_ambiguous;
    a.wrong_annotation_rejected += b.wrong_annotation_rejected;
    a.cycles_reported += b.cycles_reported;
}

/// Judge a replay document. Ok((failed, text)).
fn judge_replay(doc: &Value, farm: &mut Option<Farm>) -> Result<(bool, String), String> {
    let src = doc["source"].as_str().ok_or("replay file has no `source`")?;
    match doc["leg"].as_str().unwrap_or("inproc") {
        "inproc" => {
            let exps: Vec<Expect> = doc["expects"].as_array().map(|a| a.iter().filter_map(expect_from_json).collect()).unwrap_or_default();
            let cycle: Vec<String> = doc["cycle"].as_array().map(|a| a.iter().filter_map(|v| v.as_str().map(|s| s.to_string())).collect()).unwrap_or_default();
            let mut st = Stats::default();
            let fails = judge_inproc(src, &exps, &cycle, &mut st);
            if fails.iter().any(|f| f.key.starts_with("engine:")) {
                return Err(fails[0].what.clone());
            }
            Ok((!fails.is_empty(), fails.iter().map(|f| format!("{}: {}", f.key, f.what)).collect::<Vec<_>>().join("\n")))
        }
        "emit" => match emit_src(src) {
            Ok(_) => Ok((false, "emits".into())),
            Err((c, f)) => Ok((true, format!("the checker accepts, code generation fails ({c}): {}", util::truncate(&f, 300)))),
        },
        "cycle-cli" => {
            let f = farm.get_or_insert_with(|| Farm::new("c06"));
            let (status, timed_out, signal, text) = cli_check(f, src, 60);
            if timed_out || signal.is_some() {
                return Ok((true, format!("`incan --check` timed out / died (signal {:?})", signal)));
            }
            let ok = status != Some(0) && text.to_lowercase().contains("cycle");
            Ok((!ok, format!("status {:?}: {}", status, util::truncate(&text, 400))))
        }
        _ => {
            let f = farm.get_or_insert_with(|| Farm::new("c06"));
            let out = f.run_one(&Project::single("c06replay", src), Mode::CheckBuildRun);
            judge_e2e_out(doc, &out)
        }
    }
}

fn judge_e2e_out(doc: &Value, out: &FarmOut) -> Result<(bool, String), String> {
    let src = doc["source"].as_str().unwrap_or("");
    if let Some(e) = &out.infra_error {
        return Err(e.clone());
    }
    if let Some(c) = &out.check {
        if !c.ok() {
            return Ok((false, format!("`incan --check` rejects the program: {}", util::truncate(&strip_ansi(&c.stdout), 300))));
        }
    }
    let Some(b) = &out.build else { return Err("no build output".into()) };
    if !b.ok() {
        return Ok((true, format!("check passes, build fails: {}", util::truncate(&strip_ansi(&format!("{}{}", b.stdout, b.stderr)), 900))));
    }
    let Some(r) = &out.run else { return Err("no run output".into()) };
    let slots: Vec<Slot> = doc["slots"].as_array().map(|a| a.iter().filter_map(slot_from_json).collect()).unwrap_or_default();
    if !r.ok() {
        return Ok((true, format!("program status {:?}: {}", r.status, util::truncate(&r.stderr, 400))));
    }
    let (fails, _) = judge_e2e_stdout(&r.stdout, &slots, src);
    Ok((!fails.is_empty(), fails.iter().map(|f| format!("{}: {}", f.key, f.what)).collect::<Vec<_>>().join("\n")))
}

fn e2e_doc(cases: &[&E2eCase]) -> Value {
    let slots: Vec<Value> = cases.iter().flat_map(|c| c.slots.iter().map(slot_json)).collect();
    json!({"leg": "e2e", "source": e2e_program(cases), "slots": slots})
}

fn report(out: &mut Outcome, ev: &mut Evidence, key: &str, what: &str, mut doc: Value) {
    if out.seen(key) {
        ev.violations += 1;
        return;
    }
    if let Some(o) = doc.as_object_mut() {
        o.insert("signature".into(), json!(key));
        o.insert("what".into(), json!(util::truncate(what, 2000)));
    }
    out.violation(ev, key, "json", &serde_json::to_string_pretty(&doc).unwrap(), what);
}

struct E2eRun<'a> {
    farm: &'a Farm,
    cases: &'a [E2eCase],
    builds: u64,
}

impl<'a> E2eRun<'a> {
    fn run(&mut self, groups: &[Vec<usize>]) -> Vec<FarmOut> {
        let projects: Vec<Project> = groups
            .iter()
            .enumerate()
            .map(|(n, ids)| {
                let cs: Vec<&E2eCase> = ids.iter().map(|&i| &self.cases[i]).collect();
                Project::single(&format!("c06b{}_{}", self.builds, n), &e2e_program(&cs))
            })
            .collect();
        self.builds += projects.len() as u64;
        self.farm.run_many(&projects, Mode::CheckBuildRun)
    }

    fn judge(&mut self, ids: &[usize], o: &FarmOut, fails: &mut Vec<(Fail, Value)>, infra: &mut Vec<String>, counts: &mut (u64, u64, u64), budget: &mut i64) {
        let cs: Vec<&E2eCase> = ids.iter().map(|&i| &self.cases[i]).collect();
        let doc = e2e_doc(&cs);
        let src = doc["source"].as_str().unwrap_or("").to_string();
        if let Some(e) = &o.infra_error {
            infra.push(e.clone());
            return;
        }
        if let Some(c) = &o.check {
            if !c.ok() {
                if ids.len() > 1 && *budget > 0 {
                    return self.split(ids, fails, infra, counts, budget);
                }
                fails.push((
                    Fail { key: "e2e:cli-check-rejects-what-the-api-accepts".into(), what: format!("{}\n{src}", util::truncate(&strip_ansi(&c.stdout), 800)) },
                    doc,
                ));
                return;
            }
        }
        let Some(b) = &o.build else {
            infra.push("no build output".into());
            return;
        };
        if !b.ok() {
            if ids.len() > 1 {
                if *budget <= 0 {
                    infra.push("bisection budget exhausted".into());
                    return;
                }
                return self.split(ids, fails, infra, counts, budget);
            }
            let text = strip_ansi(&format!("{}\n{}", b.stdout, b.stderr));
            let code = first_error_code(&text);
            // the const (or run-time twin) the first rustc diagnostic points at
            let main_rs = o.generated.iter().find(|(p, _)| p == "src/main.rs").map(|(_, s)| s.as_str()).unwrap_or("");
            let mut culprit = "unknown".to_string();
            let mut in_error = false;
            for l in text.lines() {
                let lt = l.trim_start();
                if lt.starts_with("error") {
                    in_error = true;
                } else if lt.starts_with("warning") {
                    in_error = false;
                }
                if !in_error {
                    continue;
                }
                if let Some(loc) = l.trim_start().strip_prefix("--> src/main.rs:") {
                    if let Some(n) = loc.split(':').next().and_then(|x| x.parse::<usize>().ok()) {
                        if let Some(line) = main_rs.lines().nth(n.saturating_sub(1)) {
                            let case = &self.cases[ids[0]];
                            if let Some(s) = case.slots.iter().find(|s| contains_word(line, &s.name)) {
                                culprit = format!("const:{}:{}", s.shape, s.ty);
                            } else if line.contains("let v") || line.contains("println") {
                                culprit = "runtime-twin".into();
                            }
                            break;
                        }
                    }
                }
            }
            fails.push((
                Fail {
                    key: format!("e2e:build:{code}:{culprit}"),
                    what: format!("`incan --check` passes, `incan build` fails:\n{}\n{src}", util::truncate(&text, 1500)),
                },
                doc,
            ));
            return;
        }
        let Some(r) = &o.run else {
            infra.push("no run output".into());
            return;
        };
        if !r.ok() {
            if ids.len() > 1 && *budget > 0 {
                return self.split(ids, fails, infra, counts, budget);
            }
            fails.push((Fail { key: "e2e:run-failed".into(), what: format!("status {:?} stderr {}\n{src}", r.status, util::truncate(&r.stderr, 600)) }, doc));
            return;
        }
        let slots: Vec<Slot> = cs.iter().flat_map(|c| c.slots.iter().cloned()).collect();
        let (fs, c) = judge_e2e_stdout(&r.stdout, &slots, "");
        counts.0 += c.0;
        counts.1 += c.1;
        counts.2 += c.2;
        for f in fs {
            // re-express against the single graph that owns the const
            let owner = ids.iter().copied().find(|&i| self.cases[i].slots.iter().any(|s| f.what.contains(&format!("`const {} ", s.name))));
            let d = match owner {
                Some(i) => e2e_doc(&[&self.cases[i]]),
                None => doc.clone(),
            };
            let s = d["source"].as_str().unwrap_or("").to_string();
            fails.push((Fail { key: f.key, what: format!("{}\n{s}", f.what) }, d));
        }
    }

    fn split(&mut self, ids: &[usize], fails: &mut Vec<(Fail, Value)>, infra: &mut Vec<String>, counts: &mut (u64, u64, u64), budget: &mut i64) {
        let mid = ids.len() / 2;
        let groups = vec![ids[..mid].to_vec(), ids[mid..].to_vec()];
        *budget -= 2;
        let outs = self.run(&groups);
        for (g, o) in groups.iter().zip(outs.iter()) {
            self.judge(g, o, fails, infra, counts, budget);
        }
    }
}

fn main() {
    util::install_quiet_panic_hook();
    if let Err(p) = util::catch(real_main) {
        println!("INCONCLUSIVE: property=C06 the check itself panicked: {p}");
        std::process::exit(2);
    }
}

fn real_main() {
    let args = Args::parse("C06");
    let mut out = Outcome::new("C06");
    let mut ev = Evidence::new(
        &args,
        "one case = one const dependency graph (1..8 consts, initializer depth <= 4). Non-trivial = some initializer has depth >= 2, \
         or references another const, or indexes/slices a string, or has a negated operand; distinct = hash of the rendered source.",
    );
    ev.assume("const initializers contain no parentheses: the const evaluator rejects Expr::Paren, consts.md does not list them; trees are generated by grammar level so none are needed");
    ev.assume("an initializer that fails at run time but is accepted at compile time WITHOUT a computed value is counted, not reported (the statement forbids acceptance with a value)");
    ev.assume("and/or: the run time short-circuits, the const evaluator evaluates both operands; graphs where the two give a different outcome are discarded (counted)");
    ev.assume("`float` annotation over an int initializer: not documented either way, never generated as a wrong annotation");
    ev.assume("leg 3: run-time twins take every literal as a typed function parameter; string consts have no run-time twin (`str + str` on non-literals does not build: C02) and are compared with the harness evaluator, which calls the runtime helpers");
    let mut farm: Option<Farm> = None;

    // ---- replay
    if let Some(path) = &args.replay {
        let text = std::fs::read_to_string(path).unwrap_or_default();
        let doc: Value = serde_json::from_str(&text).unwrap_or(Value::Null);
        ev.case(Some(util::hash_str(&text)));
        ev.sample(json!({"replay": path.display().to_string()}));
        match judge_replay(&doc, &mut farm) {
            Ok((true, what)) => {
                let key = doc["signature"].as_str().unwrap_or("replay").to_string();
                if out.is_known(&key) {
                    out.known_replayed(&key, true);
                } else {
                    out.violation(&mut ev, &key, "json", &text, &what);
                }
            }
            Ok((false, what)) => println!("replay holds: {}", util::truncate(&what, 300)),
            Err(e) => out.inconclusive(&e),
        }
        std::process::exit(out.finish(&ev));
    }

    // ---- known findings
    let known: Vec<_> = out.known.open.clone();
    let kf = |k: &str| known.iter().any(|e| e.key == k);
    let mut deferred: Vec<(String, Value)> = Vec::new();
    for k in &known {
        let text = std::fs::read_to_string(&k.replay).unwrap_or_default();
        let doc: Value = serde_json::from_str(&text).unwrap_or(Value::Null);
        if doc["leg"].as_str() == Some("e2e") {
            deferred.push((k.key.clone(), doc));
            continue;
        }
        match judge_replay(&doc, &mut farm) {
            Ok((failed, _)) => out.known_replayed(&k.key, failed),
            Err(e) => out.inconclusive(&format!("known finding {} cannot be replayed: {e}", k.key)),
        }
    }
    // calibration: does `s[::2]` parse on this tree?
    let double_colon = lexer::lex("const K = \"abc\"[::2]\n").ok().and_then(|t| parser::parse(&t).ok()).is_some();
    ev.set("slice_double_colon_parses", json!(double_colon));

    // ---- leg 1 + 2: in-process
    let n_graphs = args.tier.pick(5_000usize, 500_000usize);
    let n_cycles = args.tier.pick(800usize, 40_000usize);
    let general = Features { e2e: false, safe: false, skip_unknown_slice_bounds: kf(K_SLICE_BOUND), double_colon };
    let safe = Features { e2e: false, safe: true, skip_unknown_slice_bounds: false, double_colon };
    let strat = recipe_strategy(false);
    let mut runner = gen::runner(args.subseed(6));
    let mut stats = Stats::default();
    let mut sample_budget = 5;
    let chunk = 50_000usize;
    let mut done = 0usize;
    while done < n_graphs {
        let n = chunk.min(n_graphs - done);
        let mut trees = gen::batch(&strat, &mut runner, n);
        let recipes: Vec<Recipe> = trees.iter().map(|t| t.current()).collect();
        let outs: Vec<InprocOut> = recipes.par_iter().map(|r| run_inproc(r, general)).collect();
        for (i, o) in outs.iter().enumerate() {
            let src = o.sample["source"].as_str().unwrap_or("");
            ev.case(if o.nontrivial { Some(util::hash_str(src)) } else { None });
            for c in &o.classes {
                ev.class(c);
            }
            if o.out_of_domain {
                ev.discard("a const overflows i64 or is not finite (that const and its dependants are not judged)");
            }
            for b in &o.blockers {
                ev.exclude(&format!("{b}(graph cannot reach leg 3)"));
            }
            if let Some(k) = o.emit_excluded {
                ev.exclude(&format!("{k}(leg 2)"));
            }
            add_stats(&mut stats, &o.stats);
            if sample_budget > 0 && o.nontrivial && (done + i) % 997 == 3 {
                ev.sample(o.sample.clone());
                sample_budget -= 1;
            }
            let mut keys: Vec<(String, String)> = o.fails.iter().map(|f| (f.key.clone(), f.what.clone())).collect();
            if let Some(f) = &o.emit_fail {
                keys.push((f.key.clone(), f.what.clone()));
            }
            for (key, what) in keys {
                if std::env::var("C06_DUMP").is_ok() {
                    eprintln!("DUMP {key}\n     {}", util::truncate(&what.replace('\n', " | "), 400));
                }
                if key.starts_with("engine:") {
                    out.inconclusive(&format!("generated source does not parse: {}", util::truncate(&what, 400)));
                    std::process::exit(out.finish(&ev));
                }
                if out.is_known(&key) {
                    continue;
                }
                if out.seen(&key) {
                    ev.violations += 1;
                    continue;
                }
                // shrink, keeping the signature
                let k2 = key.clone();
                let small = gen::shrink(&mut trees[i], 20_000, |r: &Recipe| {
                    let o = run_inproc(r, general);
                    o.fails.iter().any(|f| f.key == k2) || o.emit_fail.as_ref().is_some_and(|f| f.key == k2)
                });
                let g = build_graph(&small, general, "");
                let exps = expectations(&g);
                let o2 = run_inproc(&small, general);
                let w = o2.fails.iter().chain(o2.emit_fail.iter()).find(|f| f.key == key).map(|f| f.what.clone()).unwrap_or(what);
                let doc = if key.starts_with("emit:") { json!({"leg": "emit", "source": format!("{}{MAIN_STUB}", graph_source(&g))}) } else { inproc_doc(&g, &exps) };
                report(&mut out, &mut ev, &key, &w, doc);
            }
        }
        done += n;
    }

    // ---- cycles: CLI canaries first (a missing cycle check would overflow the stack of this process)
    let cstrat = recipe_strategy(true);
    let mut crunner = gen::runner(args.subseed(606));
    let mut ctrees = gen::batch(&cstrat, &mut crunner, n_cycles);
    let crecipes: Vec<Recipe> = ctrees.iter().map(|t| t.current()).collect();
    let n_canary = args.tier.pick(24usize, 200usize).min(crecipes.len());
    let mut cycles_safe = true;
    {
        let f = farm.get_or_insert_with(|| Farm::new("c06"));
        let srcs: Vec<String> = crecipes[..n_canary].iter().map(|r| graph_source(&build_graph(r, safe, ""))).collect();
        let res = f.par_map(&srcs, |s| cli_check(f, s, 60));
        for (s, (status, timed_out, signal, text)) in srcs.iter().zip(res.into_iter()) {
            ev.add("cycle_cli_canaries", 1);
            let doc = json!({"leg": "cycle-cli", "source": s});
            if timed_out {
                // confirm alone
                let (_, again, _, _) = cli_check(f, s, 120);
                if again {
                    cycles_safe = false;
                    report(&mut out, &mut ev, "hang:const-cycle", &format!("`incan --check` does not terminate on a const dependency cycle (killed after 120 s, alone)\n{s}"), doc);
                } else {
                    out.inconclusive("a cycle canary timed out under load but terminated alone");
                }
            } else if signal.is_some() || status.is_none() {
                cycles_safe = false;
                report(&mut out, &mut ev, "crash:const-cycle", &format!("`incan --check` died with signal {:?} on a const dependency cycle\n{s}\n{}", signal, util::truncate(&text, 400)), doc);
            } else if status == Some(0) || !text.to_lowercase().contains("cycle") {
                // judged by the in-process leg below (same input), which produces the replay file
            }
        }
    }
    if cycles_safe {
        let outs: Vec<InprocOut> = crecipes.par_iter().map(|r| run_inproc(r, safe)).collect();
        for (i, o) in outs.iter().enumerate() {
            let src = o.sample["source"].as_str().unwrap_or("");
            ev.case(Some(util::hash_str(src)));
            for c in &o.classes {
                ev.class(c);
            }
            add_stats(&mut stats, &o.stats);
            if i == 5 {
                ev.sample(o.sample.clone());
            }
            for f in &o.fails {
                if out.seen(&f.key) {
                    ev.violations += 1;
                    continue;
                }
                let k2 = f.key.clone();
                let small = gen::shrink(&mut ctrees[i], 20_000, |r: &Recipe| run_inproc(r, safe).fails.iter().any(|f| f.key == k2));
                let g = build_graph(&small, safe, "");
                let exps = expectations(&g);
                let w = run_inproc(&small, safe).fails.iter().find(|x| x.key == f.key).map(|x| x.what.clone()).unwrap_or(f.what.clone());
                report(&mut out, &mut ev, &f.key, &w, inproc_doc(&g, &exps));
            }
        }
    } else {
        ev.discard("in-process cycle cases skipped: the CLI canaries crashed or hung");
    }

    // ---- cycle shapes (alias / expression / collection links, tails leading into the cycle, declaration orders), each
    //      on a worker thread with a watchdog: "cycles are always reported rather than looping" - a case that does not
    //      return is the violation itself
    {
        let n_shapes = args.tier.pick(1_500usize, 60_000usize);
        let sstrat = cyc_strategy();
        let mut srunner = gen::runner(args.subseed(6060));
        let strees = gen::batch(&sstrat, &mut srunner, n_shapes);
        let f = farm.get_or_insert_with(|| Farm::new("c06"));
        // a few through the CLI first: unbounded recursion would kill this process, not just a thread
        let mut shapes_safe = cycles_safe;
        let firsts: Vec<String> = strees.iter().take(args.tier.pick(12, 100)).map(|t| cyc_source(&t.current()).0).collect();
        let res = f.par_map(&firsts, |s| cli_check(f, s, 60));
        for (s, (status, timed_out, signal, text)) in firsts.iter().zip(res.into_iter()) {
            ev.add("cycle_cli_canaries", 1);
            let doc = json!({"leg": "cycle-cli", "source": s});
            if timed_out {
                let (_, again, _, _) = cli_check(f, s, 120);
                if again {
                    report(&mut out, &mut ev, "hang:const-cycle", &format!("`incan --check` does not terminate on this const dependency cycle (killed after 60 s, then after 120 s alone)\n{s}"), doc);
                } else {
                    out.inconclusive("a cycle canary timed out under load but terminated alone");
                }
            } else if signal.is_some() || status.is_none() {
                shapes_safe = false;
                report(&mut out, &mut ev, "crash:const-cycle", &format!("`incan --check` died with signal {:?} on a const dependency cycle\n{s}\n{}", signal, util::truncate(&text, 400)), doc);
            }
        }
        let mut abandoned = 0usize;
        let bound = args.tier.pick(20u64, 20u64);
        for t in strees.iter() {
            if !shapes_safe {
                ev.discard("cycle shapes skipped: a CLI canary crashed");
                break;
            }
            if abandoned >= 3 {
                ev.discard("cycle shapes skipped after 3 abandoned (spinning) worker threads");
                continue;
            }
            let r = t.current();
            let (src, members, n_tails, aliases) = cyc_source(&r);
            ev.case(Some(util::hash_str(&src)));
            ev.class(&format!("cycle-shape:len{}:tails{}", r.len, n_tails));
            ev.class(if aliases == r.len + n_tails { "cycle-shape:all-alias" } else if aliases == 0 { "cycle-shape:no-alias" } else { "cycle-shape:mixed-links" });
            if ev.want_sample() && n_tails > 0 && aliases > 0 && r.len > 1 {
                ev.sample(json!({"cycle_shape": src, "cycle": members}));
            }
            let (s2, m2) = (src.clone(), members.clone());
            let w = with_watchdog(bound, move || {
                let mut st = Stats::default();
                let fails = judge_inproc(&s2, &[], &m2, &mut st);
                (fails, st)
            });
            match w {
                Watched::Done((fails, st)) => {
                    add_stats(&mut stats, &st);
                    for fl in fails {
                        if fl.key.starts_with("engine:") {
                            out.inconclusive(&format!("generated cycle source does not parse: {}", util::truncate(&fl.what, 300)));
                            continue;
                        }
                        report(&mut out, &mut ev, &fl.key, &fl.what, json!({"leg": "inproc", "source": src, "expects": [], "cycle": members}));
                    }
                }
                Watched::Died => report(&mut out, &mut ev, "cycle:checker-thread-died", &format!("the type checker's thread ended without a result\n{src}"), json!({"leg": "cycle-cli", "source": src})),
                Watched::TimedOut => {
                    abandoned += 1;
                    ev.add("cycle_watchdog_abandoned_threads", 1);
                    // candidate: confirm alone through the CLI
                    let (_, again, _, _) = cli_check(f, &src, 60);
                    if again {
                        report(
                            &mut out,
                            &mut ev,
                            "hang:const-cycle",
                            &format!("type checking does not terminate: no result after {bound} s in-process, and `incan --check` on the same file alone was killed after 60 s. Consts that reference each other in a loop must be reported, not looped on.\n{src}"),
                            json!({"leg": "cycle-cli", "source": src}),
                        );
                    } else {
                        out.inconclusive("a cycle case exceeded the in-process watchdog but `incan --check` terminated on it alone");
                    }
                }
            }
        }
    }
    ev.set("inprocess", json!({
        "values_compared": stats.values_compared, "value_unknown_at_compile_time": stats.value_unknown_at_compile_time,
        "types_compared": stats.types_compared, "accepted_without_value_but_runtime_error": stats.accepted_without_value_but_runtime_error,
        "compile_time_error_matches_runtime_panic": stats.ct_error_matches_runtime_error, "wrong_annotation_rejected": stats.wrong_annotation_rejected,
        "cycles_reported": stats.cycles_reported, "consts_discarded_short_circuit_ambiguity": stats.discarded_logic_ambiguous}));

    // ---- leg 3: end to end
    let n_e2e = args.tier.pick(48usize, 1500usize);
    let per_program = args.tier.pick(12usize, 25usize);
    let e2ef = Features { e2e: true, safe: false, skip_unknown_slice_bounds: false, double_colon };
    let mut erunner = gen::runner(args.subseed(66));
    let mut cases: Vec<E2eCase> = Vec::new();
    let mut tries = 0;
    while cases.len() < n_e2e && tries < n_e2e * 20 {
        tries += 1;
        let Some(r) = gen::one(&strat, &mut erunner) else { break };
        let g = build_graph(&r, e2ef, &format!("G{}_", cases.len()));
        let exps = expectations(&g);
        if exps.iter().any(|e| e.status != "ok" || e.logic_ambiguous) {
            ev.discard("leg 3: a const is outside the domain (overflow) or fails at run time");
            continue;
        }
        let bl = blockers(&g, &exps);
        if !bl.is_empty() {
            // cannot be avoided by construction alone: duplicates need evaluation
            for b in &bl {
                ev.exclude(&format!("{b}(leg 3 candidate)"));
            }
            continue;
        }
        let src = graph_source(&g);
        let mut st = Stats::default();
        if !judge_inproc(&src, &exps, &[], &mut st).is_empty() {
            continue; // reported by leg 1 on its own sample if it is a defect
        }
        let slots: Vec<Slot> = (0..g.consts.len()).map(|i| slot_of(&g, i, &exps[i])).collect();
        let case = E2eCase { graph: g, slots };
        // the emitter must take it (cheap, in-process) before cargo is involved
        if let Err((class, full)) = emit_src(&e2e_program(&[&case])) {
            let key = format!("emit:{class}:e2e-profile");
            report(&mut out, &mut ev, &key, &format!("code generation fails ({}) for\n{}", util::truncate(&full, 300), e2e_program(&[&case])), json!({"leg": "emit", "source": e2e_program(&[&case])}));
            continue;
        }
        ev.case(Some(util::hash_str(&src)));
        ev.class("leg3-graph");
        cases.push(case);
    }
    {
        let f = farm.get_or_insert_with(|| Farm::new("c06"));
        let ids: Vec<usize> = (0..cases.len()).collect();
        let groups: Vec<Vec<usize>> = ids.chunks(per_program.max(1)).map(|c| c.to_vec()).collect();
        let kprojects: Vec<Project> = deferred.iter().enumerate().map(|(n, (_, d))| Project::single(&format!("c06known{n}"), d["source"].as_str().unwrap_or(""))).collect();
        let (kouts, outs) = rayon::join(|| f.run_many(&kprojects, Mode::CheckBuildRun), || E2eRun { farm: f, cases: &cases, builds: 0 }.run(&groups));
        for ((key, doc), o) in deferred.iter().zip(kouts.iter()) {
            match judge_e2e_out(doc, o) {
                Ok((failed, _)) => out.known_replayed(key, failed),
                Err(e) => out.inconclusive(&format!("known finding {key} cannot be replayed: {e}")),
            }
        }
        let mut run = E2eRun { farm: f, cases: &cases, builds: groups.len() as u64 };
        let mut fails: Vec<(Fail, Value)> = Vec::new();
        let mut infra = Vec::new();
        let mut counts = (0u64, 0u64, 0u64);
        let mut budget: i64 = args.tier.pick(10, 400);
        for (g, o) in groups.iter().zip(outs.iter()) {
            run.judge(g, o, &mut fails, &mut infra, &mut counts, &mut budget);
        }
        ev.set("leg3", json!({"graphs": cases.len(), "programs_first_round": groups.len(), "programs_built": run.builds,
            "tokens_const_vs_runtime_twin": counts.0, "tokens_const_vs_runtime_helper_reference": counts.1,
            "tokens_const_equals_twin_but_not_reference": counts.2}));
        if counts.2 > 0 {
            println!("note: property=C06 {} printed tokens agree between const and run-time twin but differ from the documented reference value (not C06's subject)", counts.2);
        }
        if let Some(c) = cases.first() {
            ev.sample(json!({"leg3_program": util::truncate(&e2e_program(&[c]), 2500)}));
        }
        for m in infra {
            out.inconclusive(&format!("leg 3: {m}"));
        }
        for (fl, doc) in fails {
            if out.is_known(&fl.key) {
                continue;
            }
            report(&mut out, &mut ev, &fl.key, &fl.what, doc);
        }
    }
    std::process::exit(out.finish(&ev));
}
