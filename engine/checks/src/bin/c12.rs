//! C12 — compilation is deterministic.
//!
//! Generator: multi-file projects *inflated for order sensitivity*: >= 3 `rust::` imports of known-good crates,
//! >= 3 dependency modules in nested directories, >= 3 models/traits/derives/consts/dict+set literals in the entry
//! module, and a second entry file with >= 3 independent errors of each kind whose reporting walks a collection
//! (missing constructor fields, unimplemented trait methods, private imports, non-exhaustive match).
//!
//! Oracle (differential across processes): the real CLI is run K = 6 times per project, every run a fresh process on
//! a fresh copy of the project in a different directory (different names, depths, non-ASCII), written in a different
//! file order, with a different environment (HOME, LANG/LC_ALL, TZ, TERM, USER, TMPDIR, COLUMNS, extra variables,
//! PATH order; NO_COLOR fixed, RUST_LOG/INCAN_* unset) and with a different *spelling of working directory and entry
//! path* (run 0: bare file name from the entry directory; the other five drawn from: `./f`, absolute, relative from
//! the project top, `../f` from a child directory, `../../app/f` from a sibling, `tools/../f`, through a symlinked
//! project directory, through a symlinked entry directory elsewhere, redundant `./` and `//`). Projects have their
//! entry 1-2 levels below the top, import with `..`/`super::`/`crate.` and carry same-named decoy modules in the
//! directories a purely lexical (wrong) resolution would look in. Compared byte for byte against run 0:
//!   * `<out>/Cargo.toml` and every `<out>/src/**` file of `incan build` (stub cargo) — no normalisation at all;
//!   * exit status + stdout + stderr of `build`, `--check` (good and bad entry), `--emit-rust`, `fmt --diff`,
//!     `fmt --check <dir>`, `fmt <dir>` and the formatted files. In messages only the project-directory prefix the
//!     harness itself put on the command line is removed; nothing else is normalised, so an absolute path or
//!     a time stamp in any output is a difference.
//! With >= 3 entries per collection, six runs agreeing by luck has probability <= (1/3!)^5 = 6^-5 per collection.

use proptest::prelude::*;
use proptest::strategy::ValueTree;
use serde_json::{json, Value};
use std::collections::{BTreeMap, BTreeSet};
use std::path::{Path, PathBuf};
use std::process::Command;
use std::time::Duration;
use vcore::farm::{self, Farm};
use vcore::{util, Args, Evidence, Outcome};

const K_RUNS: usize = 6;

/// Spellings of (working directory, entry path) — a generated configuration dimension of every compared command.
const SPELLINGS: [&str; 10] = [
    "bare file name, cwd = entry dir",
    "./file, cwd = entry dir",
    "absolute path, cwd elsewhere",
    "relative from the project top",
    "../file from a child directory of the entry dir",
    "../../<entry dir>/file from a sibling directory",
    "tools/../file (.. inside the path), cwd = entry dir",
    "through a symlinked copy of the project directory",
    "through a symlinked entry directory in an unrelated directory",
    "redundant ./ and // from the project top",
];

const KNOWN_GOOD: [&str; 19] = [
    "serde", "serde_json", "tokio", "time", "chrono", "reqwest", "uuid", "rand", "regex", "anyhow", "thiserror", "tracing",
    "clap", "log", "env_logger", "sqlx", "futures", "bytes", "itertools",
];

const WORDS: [&str; 24] = [
    "alpha", "beta", "gamma", "delta", "eps", "zeta", "eta", "theta", "iota", "kappa", "lam", "mu", "nu", "xi", "omi", "pi", "rho",
    "sigma", "tau", "ups", "phi", "chi", "psi", "omega",
];

/// nested module paths (directories are never also module files)
const MOD_PATHS: [&[&str]; 8] = [
    &["db", "models"],
    &["db", "repo", "users"],
    &["api", "handlers"],
    &["api", "v1", "routes"],
    &["shared", "util"],
    &["shared", "text", "fmt", "pad"],
    &["core_lib", "types"],
    &["zz", "last"],
];

const TYPES: [(&str, &str); 5] = [("int", "1"), ("str", "\"s\""), ("bool", "true"), ("float", "1.5"), ("List[int]", "[1, 2]")];
const DERIVE_SETS: [&str; 6] = ["Debug", "Debug, Clone", "Debug, Clone, Eq", "Clone, Debug, Serialize", "Debug, Serialize, Deserialize, Clone", "Eq, Debug"];

// ---------------------------------------------------------------------------------------------------------
// Generator
// ---------------------------------------------------------------------------------------------------------

#[derive(Clone, Debug, PartialEq)]
struct Spec {
    seed: u64,
    stem: usize,
    n_crates: usize,
    n_mods: usize,
    n_models: usize,
    n_fields: usize,
    n_methods: usize,
    n_private: usize,
    n_variants: usize,
    n_consts: usize,
    n_chains: usize,
    n_crowd: usize,
    noise: bool,
}

fn spec_strategy() -> impl Strategy<Value = Spec> {
    (
        any::<u64>(),
        0usize..6,
        3usize..=7,
        3usize..=5,
        3usize..=5,
        3usize..=7,
        3usize..=5,
        3usize..=5,
        (4usize..=6, 3usize..=5, any::<bool>(), 5usize..=20, 8usize..=12),
    )
        .prop_map(|(seed, stem, n_crates, n_mods, n_models, n_fields, n_methods, n_private, (n_variants, n_consts, noise, n_chains, n_crowd))| Spec {
            seed,
            stem,
            n_crates,
            n_mods,
            n_models,
            n_fields,
            n_methods,
            n_private,
            n_variants,
            n_consts,
            n_chains,
            n_crowd,
            noise,
        })
}

struct Rng(u64);
impl Rng {
    fn next(&mut self) -> u64 {
        self.0 = util::mix(self.0);
        self.0
    }
    fn below(&mut self, n: usize) -> usize {
        (self.next() % n.max(1) as u64) as usize
    }
    fn shuffle<T>(&mut self, v: &mut [T]) {
        for i in (1..v.len()).rev() {
            let j = self.below(i + 1);
            v.swap(i, j);
        }
    }
}

#[derive(Clone, Debug)]
struct Proj {
    stem: String,
    /// (relative path, contents): dependency modules, `<stem>.incn` (good entry), `<stem>_bad.incn` (entry with errors)
    files: Vec<(String, String)>,
    /// directory of the entry files relative to the project top ("" = the top itself, "app", "app/cli")
    entry_dir: String,
    /// how the entry path / working directory is spelled in each of the K runs (index into SPELLINGS; run 0 is `bare`)
    spellings: Vec<usize>,
    n_rust_imports: usize,
    n_modules: usize,
    n_expected_diags: usize,
}

fn cap(s: &str) -> String {
    let mut c = s.chars();
    match c.next() {
        Some(f) => f.to_ascii_uppercase().to_string() + c.as_str(),
        None => String::new(),
    }
}

struct ModelText {
    name: String,
    text: String,
    /// constructor call with all required fields
    ctor: String,
    first_field: String,
    n_required: usize,
}

fn gen_model(rng: &mut Rng, name: &str, n_fields: usize, public: bool, noise: bool) -> ModelText {
    let mut words: Vec<&str> = WORDS.to_vec();
    rng.shuffle(&mut words);
    let derives = DERIVE_SETS[rng.below(DERIVE_SETS.len())];
    let is_class = rng.below(4) == 0;
    let mut text = format!("@derive({derives})\n{}{} {name}:\n", if public { "pub " } else { "" }, if is_class { "class" } else { "model" });
    let mut args = Vec::new();
    let mut first = String::new();
    // >= 3 required fields first, optional defaults after
    let n_required = n_fields.max(3);
    let n_defaults = rng.below(3);
    for (i, w) in words.iter().take(n_required + n_defaults).enumerate() {
        let (ty, lit) = TYPES[rng.below(TYPES.len())];
        let (ty, lit) = if i == 0 { ("int", "1") } else { (ty, lit) };
        let vis = if public { "pub " } else { "" };
        if i < n_required {
            let sp = if noise && i % 2 == 1 { "  " } else { " " };
            text.push_str(&format!("    {vis}{w}:{sp}{ty}\n"));
            args.push(format!("{w}={lit}"));
            if i == 0 {
                first = w.to_string();
            }
        } else {
            text.push_str(&format!("    {vis}{w}: {ty} = {lit}\n"));
        }
    }
    text.push_str(&format!("\n    def total(self) -> int:\n        return self.{first} + 1\n\n"));
    ModelText { name: name.to_string(), text, ctor: format!("{name}({})", args.join(", ")), first_field: first, n_required }
}

/// Module-level const graph: `n_chains` independent str-concatenation chains (depth 3..=16, at least half of them
/// >= 12 deep), int and float arithmetic chains, and frozen list/dict/set consts that refer to other consts; mixed
/// `pub`. Names carry random words and numbers so that their hash order differs from their declaration order.
/// Returns (declarations, statements for `main` that use the tips).
fn gen_const_graph(rng: &mut Rng, tag: &str, n_chains: usize) -> (String, Vec<String>) {
    let mut out = String::new();
    let mut uses = Vec::new();
    let mut int_tips: Vec<String> = Vec::new();
    let mut str_tips: Vec<String> = Vec::new();
    for c in 0..n_chains {
        let w = WORDS[rng.below(WORDS.len())].to_uppercase();
        let base = format!("S{tag}_{w}{}_{c}", rng.below(90) + 10);
        let depth = if c % 2 == 0 { 12 + rng.below(5) } else { 3 + rng.below(14) };
        out.push_str(&format!("const {base}_0: str = \"{}{c}\"\n", w.to_lowercase()));
        for k in 1..depth {
            let vis = if rng.below(4) == 0 { "pub " } else { "" };
            out.push_str(&format!("{vis}const {base}_{k}: str = {base}_{} + \"-{k}\"\n", k - 1));
        }
        str_tips.push(format!("{base}_{}", depth - 1));
        uses.push(format!("println({base}_{} + \"!\")", depth - 1));
        out.push('\n');
    }
    for c in 0..(n_chains / 2).max(3) {
        let w = WORDS[rng.below(WORDS.len())].to_uppercase();
        let base = format!("I{tag}_{w}{}_{c}", rng.below(90) + 10);
        let depth = 3 + rng.below(14);
        out.push_str(&format!("const {base}_0: int = {}\n", rng.below(50) + 1));
        for k in 1..depth {
            let vis = if rng.below(4) == 0 { "pub " } else { "" };
            let op = ["+", "*", "-"][rng.below(3)];
            out.push_str(&format!("{vis}const {base}_{k}: int = {base}_{} {op} {}\n", k - 1, 1 + rng.below(3)));
        }
        int_tips.push(format!("{base}_{}", depth - 1));
        uses.push(format!("println({base}_{})", depth - 1));
        let fbase = format!("F{tag}_{w}{}_{c}", rng.below(90) + 10);
        let fdepth = 3 + rng.below(8);
        out.push_str(&format!("const {fbase}_0: float = {}.5\n", rng.below(9)));
        for k in 1..fdepth {
            out.push_str(&format!("const {fbase}_{k}: float = {fbase}_{} + 0.25\n", k - 1));
        }
        uses.push(format!("println({fbase}_{})", fdepth - 1));
        out.push('\n');
    }
    // frozen collections over other consts
    for c in 0..(n_chains / 2).max(3) {
        let a = &int_tips[rng.below(int_tips.len())];
        let b = &int_tips[rng.below(int_tips.len())];
        let sa = &str_tips[rng.below(str_tips.len())];
        let sb = &str_tips[rng.below(str_tips.len())];
        let vis = if c % 3 == 0 { "pub " } else { "" };
        out.push_str(&format!("{vis}const LI{tag}_{c}: List[int] = [{a}, {b}, {c}]\n"));
        out.push_str(&format!("const LS{tag}_{c}: List[str] = [{sa}, {sb}]\n"));
        out.push_str(&format!("const DI{tag}_{c}: Dict[str, int] = {{\"{}\": {a}, \"{}\": {b}}}\n", WORDS[rng.below(12)], WORDS[12 + rng.below(12)]));
        out.push_str(&format!("const ST{tag}_{c}: Set[str] = {{\"{}\", \"{}\", \"{}\"}}\n", WORDS[rng.below(8)], WORDS[8 + rng.below(8)], WORDS[16 + rng.below(8)]));
        uses.push(format!("println(len(LI{tag}_{c}) + len(LS{tag}_{c}) + len(DI{tag}_{c}) + len(ST{tag}_{c}))"));
    }
    out.push('\n');
    (out, uses)
}

/// "Many of everything keyed by name": >= 8 enums (variant registries), >= 8 classes adopting one trait (trait impl
/// sets, struct metadata), >= 8 free functions (function registry), >= 8 fixtures, and optionally >= 8 routes.
fn gen_named_crowd(rng: &mut Rng, tag: &str, n: usize, routes: bool) -> (String, Vec<String>) {
    let mut out = String::new();
    let mut uses = Vec::new();
    let n = n.max(8);
    let pick = |rng: &mut Rng| format!("{}{}", cap(WORDS[rng.below(WORDS.len())]), rng.below(900) + 100);
    for i in 0..n {
        let e = format!("E{tag}{}", pick(rng));
        out.push_str(&format!("enum {e}_{i}:\n    {}A\n    {}B\n    {}C(int)\n\n", cap(WORDS[i % 24]), cap(WORDS[(i + 7) % 24]), cap(WORDS[(i + 13) % 24])));
        out.push_str(&format!(
            "def code_{}_{i}(e: {e}_{i}) -> int:\n    match e:\n        case {e}_{i}.{}A:\n            return 1\n        case {e}_{i}.{}B:\n            return 2\n        case {e}_{i}.{}C(n):\n            return n\n\n",
            e.to_lowercase(), cap(WORDS[i % 24]), cap(WORDS[(i + 7) % 24]), cap(WORDS[(i + 13) % 24])
        ));
        uses.push(format!("println(code_{}_{i}({e}_{i}.{}C({i})))", e.to_lowercase(), cap(WORDS[(i + 13) % 24])));
    }
    out.push_str(&format!("trait Tagged{tag}:\n    def tag(self) -> int: ...\n\n"));
    for i in 0..n {
        let c = format!("T{tag}{}", pick(rng));
        out.push_str(&format!("@derive(Debug, Clone)\nclass {c}_{i} with Tagged{tag}:\n    v: int\n    w: str = \"{}\"\n\n    def tag(self) -> int:\n        return self.v + {i}\n\n", WORDS[i % 24]));
        uses.push(format!("println({c}_{i}(v={i}).tag())"));
    }
    for i in 0..n {
        let f = format!("fn_{}_{}_{i}", tag.to_lowercase(), pick(rng).to_lowercase());
        out.push_str(&format!("def {f}(a: int, b: int = {i}) -> int:\n    return a + b\n\n"));
        uses.push(format!("println({f}({i}, {}))", i + 1));
    }
    for i in 0..n {
        out.push_str(&format!("@fixture\ndef fx_{}_{}_{i}() -> int:\n    return {i}\n\n", tag.to_lowercase(), WORDS[rng.below(WORDS.len())]));
    }
    if routes {
        for i in 0..n {
            let h = format!("h_{}_{}_{i}", tag.to_lowercase(), WORDS[rng.below(WORDS.len())]);
            if i % 3 == 0 {
                out.push_str(&format!("@route(\"/{h}/{{name}}\")\nasync def {h}(name: str) -> Response:\n    return Response.ok()\n\n"));
            } else {
                out.push_str(&format!("@route(\"/{h}\")\nasync def {h}() -> Response:\n    return Response.ok()\n\n"));
            }
        }
    }
    (out, uses)
}

fn render(spec: &Spec) -> Proj {
    let mut rng = Rng(spec.seed ^ 0xC12C12);
    let stems = ["app", "main_prog", "x1", "Tool9", "a_b_c", "svc"];
    let stem = stems[spec.stem % stems.len()].to_string();
    let mut files: Vec<(String, String)> = Vec::new();
    // the entry files sit one or two levels below the project top
    let depth = 1 + ((spec.seed >> 7) % 2) as usize;
    let entry_dir = if depth == 1 { "app".to_string() } else { "app/cli".to_string() };
    let above_entry = if depth == 1 { "".to_string() } else { "app/".to_string() };

    // ---- rust imports (>= 3 distinct crates, varied forms)
    let mut crates: Vec<&str> = KNOWN_GOOD.to_vec();
    rng.shuffle(&mut crates);
    crates.truncate(spec.n_crates.max(3));
    let mut rust_imports = String::new();
    for (i, c) in crates.iter().enumerate() {
        let line = match rng.below(4) {
            0 => format!("import rust::{c}\n"),
            1 => format!("import rust::{c} as rc{i}\n"),
            2 => format!("from rust::{c} import Item{i}\n"),
            _ => format!("from rust::{c}::sub import Thing{i}, helper{i} as h{i}\n"),
        };
        rust_imports.push_str(&line);
    }

    // ---- dependency modules (>= 3, nested)
    let mut paths: Vec<&[&str]> = MOD_PATHS.to_vec();
    rng.shuffle(&mut paths);
    paths.truncate(spec.n_mods.max(3));
    let mut main_imports = String::new();
    let mut bad_imports = String::new();
    let mut dep_calls: Vec<String> = Vec::new();
    let mut private_total = 0usize;
    for (mi, path) in paths.iter().enumerate() {
        let mut src = format!("\"\"\"module {}\"\"\"\n\n", path.join("."));
        // a module-level rust import as well (dependency modules feed the same collections)
        if mi % 2 == 0 {
            src.push_str(&format!("from rust::{} import DepItem{mi}\n\n", crates[mi % crates.len()]));
        }
        let mname = format!("{}M{mi}", cap(path[path.len() - 1]));
        let m = gen_model(&mut rng, &mname, spec.n_fields, true, spec.noise);
        src.push_str(&m.text);
        let mut pubs = vec![mname.clone()];
        // public functions
        let n_pub = 2 + rng.below(2);
        for fi in 0..n_pub {
            let f = format!("{}_{}_{fi}", path[path.len() - 1], WORDS[rng.below(WORDS.len())]);
            src.push_str(&format!("pub def {f}(n: int) -> int:\n    return n + {fi}\n\n"));
            pubs.push(f.clone());
            dep_calls.push(format!("println({f}({mi}))"));
        }
        // private functions (>= 3) — importing them is an error
        let mut privs = Vec::new();
        for pi in 0..spec.n_private.max(3) {
            let f = format!("hidden_{}_{pi}_{mi}", WORDS[rng.below(WORDS.len())]);
            src.push_str(&format!("def {f}(n: int) -> int:\n    return n\n\n"));
            privs.push(f);
        }
        // a public trait with >= 3 abstract methods in the first module
        if mi == 0 {
            src.push_str(&format!("pub trait Dep{mi}Trait:\n"));
            let mut ws: Vec<&str> = WORDS.to_vec();
            rng.shuffle(&mut ws);
            for w in ws.iter().take(spec.n_methods.max(3)) {
                src.push_str(&format!("    def dep_{w}(self) -> int: ...\n"));
            }
            src.push('\n');
            pubs.push(format!("Dep{mi}Trait"));
        }
        // public const + a const graph of the module's own (dependency modules are emitted by the same emitter)
        src.push_str(&format!("pub const LIMIT_{mi}: int = {}\n\n", 10 + mi));
        let (cg, cg_uses) = gen_const_graph(&mut rng, &format!("M{mi}"), 5 + spec.n_chains / 4);
        src.push_str(&cg);
        src.push_str(&format!("pub def const_probe_{mi}() -> int:\n"));
        for u in &cg_uses {
            src.push_str(&format!("    {u}\n"));
        }
        src.push_str("    return 0\n\n");
        pubs.push(format!("const_probe_{mi}"));
        dep_calls.push(format!("println(const_probe_{mi}())"));
        files.push((format!("{entry_dir}/{}.incn", path.join("/")), src));
        let sep = if mi % 2 == 0 { "." } else { "::" };
        main_imports.push_str(&format!("from {} import {}\n", path.join(sep), pubs.join(", ")));
        if mi == 1 {
            // the bad entry imports the private functions of this module as well
            bad_imports.push_str(&format!("from {} import {}, {}\n", path.join(sep), pubs.join(", "), privs.join(", ")));
            private_total += privs.len();
        } else {
            bad_imports.push_str(&format!("from {} import {}\n", path.join(sep), pubs.join(", ")));
        }
        dep_calls.push(format!("println({}.total())", m.ctor));
    }

    // ---- modules above the entry directory, reached with `..` / `super::` / `crate.` imports, and decoys: files
    // with the same module names (same public names, other bodies) in directories no import of the entry reaches
    let top_module = |who: &str, k: usize| {
        format!(
            "\"\"\"{who}\"\"\"\n\npub def greeting_top(name: str) -> str:\n    return f\"{who} {{name}}\"\n\npub const COMMON_LIMIT: int = {}\n\npub def top_fn(n: int) -> int:\n    return n + {}\n\npub def setting_a() -> int:\n    return {}\n",
            4 + k,
            1 + k,
            7 + k
        )
    };
    files.push(("Cargo.toml".to_string(), "[workspace]\n".to_string()));
    files.push(("common.incn".to_string(), top_module("common (project top)", 0)));
    files.push(("config.incn".to_string(), top_module("config (project top)", 0)));
    files.push((format!("{above_entry}topshared.incn"), top_module("topshared (directory above the entry)", 0)));
    for (i, m) in ["common", "topshared", "config"].iter().enumerate() {
        files.push((format!("{entry_dir}/tools/{m}.incn"), top_module(&format!("DECOY {m} in tools"), 10 + i)));
    }
    if depth == 2 {
        files.push(("app/common.incn".to_string(), top_module("DECOY common one level too low", 20)));
        files.push(("topshared.incn".to_string(), top_module("DECOY topshared one level too high", 21)));
    }
    let dots = if depth == 1 { ".." } else { "..." };
    let parent_imports = format!(
        "from {dots}common import greeting_top, COMMON_LIMIT\nimport super::topshared::top_fn\nfrom crate.config import setting_a\n"
    );
    main_imports.push_str(&parent_imports);
    bad_imports.push_str(&parent_imports);
    dep_calls.push("println(greeting_top(\"x\"))".to_string());
    dep_calls.push("println(COMMON_LIMIT + top_fn(1) + setting_a())".to_string());

    // ---- entry module declarations
    let mut decls = String::new();
    for ci in 0..spec.n_consts.max(3) {
        match ci % 3 {
            0 => decls.push_str(&format!("const NAME_{ci}: str = \"{}\"\n", WORDS[rng.below(WORDS.len())])),
            1 => decls.push_str(&format!("const COUNT_{ci}: int = {}\n", rng.below(100))),
            _ => decls.push_str(&format!("const RATE_{ci}: float = {}.5\n", rng.below(9))),
        }
    }
    decls.push('\n');
    let (cg, cg_uses) = gen_const_graph(&mut rng, "E", spec.n_chains.max(5));
    decls.push_str(&cg);
    let with_routes = spec.seed % 3 == 0;
    let (crowd, crowd_uses) = gen_named_crowd(&mut rng, "E", spec.n_crowd, with_routes);
    decls.push_str(&crowd);
    let mut models = Vec::new();
    for k in 0..spec.n_models.max(3) {
        let mname = format!("{}Rec{k}", cap(WORDS[rng.below(WORDS.len())]));
        let m = gen_model(&mut rng, &mname, spec.n_fields, false, spec.noise);
        decls.push_str(&m.text);
        models.push(m);
    }
    // trait with >= 3 abstract methods + a default method, one class implementing it
    let mut tw: Vec<&str> = WORDS.to_vec();
    rng.shuffle(&mut tw);
    let methods: Vec<&str> = tw.iter().take(spec.n_methods.max(3)).copied().collect();
    decls.push_str("trait Shape:\n");
    for w in &methods {
        decls.push_str(&format!("    def {w}_of(self) -> int: ...\n"));
    }
    decls.push_str("    def describe(self) -> str:\n        return \"shape\"\n\n");
    decls.push_str("class Square with Shape:\n    side: int\n\n");
    for (i, w) in methods.iter().enumerate() {
        decls.push_str(&format!("    def {w}_of(self) -> int:\n        return self.side + {i}\n\n"));
    }
    // enum + exhaustive match
    let mut vw: Vec<&str> = WORDS.to_vec();
    rng.shuffle(&mut vw);
    let variants: Vec<String> = vw.iter().take(spec.n_variants.max(4)).map(|w| cap(w)).collect();
    decls.push_str("enum Kind:\n");
    for v in &variants {
        decls.push_str(&format!("    {v}\n"));
    }
    decls.push_str("\ndef kind_code(k: Kind) -> int:\n    match k:\n");
    for (i, v) in variants.iter().enumerate() {
        decls.push_str(&format!("        case Kind.{v}:\n            return {i}\n"));
    }
    decls.push('\n');

    // ---- good main
    let mut body = String::new();
    body.push_str("def main() -> None:\n");
    for (i, m) in models.iter().enumerate() {
        let sp = if spec.noise && i % 2 == 0 { "  =  " } else { " = " };
        body.push_str(&format!("    r{i}{sp}{}\n    println(r{i}.{} + r{i}.total())\n", m.ctor, m.first_field));
    }
    body.push_str("    sq = Square(side=2)\n    println(sq.describe())\n");
    for w in &methods {
        body.push_str(&format!("    println(sq.{w}_of())\n"));
    }
    body.push_str(&format!("    println(kind_code(Kind.{}))\n", variants[0]));
    let mut dw: Vec<&str> = WORDS.to_vec();
    rng.shuffle(&mut dw);
    let dict_items: Vec<String> = dw.iter().take(4).enumerate().map(|(i, w)| format!("\"{w}\": {i}")).collect();
    body.push_str(&format!("    table = {{{}}}\n    println(len(table))\n", dict_items.join(", ")));
    let set_items: Vec<String> = dw.iter().skip(4).take(4).map(|w| format!("\"{w}\"")).collect();
    body.push_str(&format!("    tags = {{{}}}\n    println(len(tags))\n", set_items.join(", ")));
    body.push_str("    squares = [i * i for i in range(4) if i != 2]\n    println(len(squares))\n");
    body.push_str("    println(f\"{NAME_0} {len(table)}\")\n");
    for c in &dep_calls {
        body.push_str(&format!("    {c}\n"));
    }
    for c in cg_uses.iter().chain(crowd_uses.iter()) {
        body.push_str(&format!("    {c}\n"));
    }
    if spec.noise {
        body.push_str("\n\n\n    x   =   1+2\n    println( x )\n");
    }
    let header = format!("\"\"\"generated project {stem}\"\"\"\n\n{}", if with_routes { "from web import App, route, Response\n" } else { "" });
    let good = format!("{header}{rust_imports}{main_imports}\n{decls}{body}");

    // ---- bad main: >= 3 independent errors per collection-walking diagnostic
    let mut bad_decls = decls.clone();
    bad_decls.push_str("class Broken with Shape:\n    side: int\n\n");
    bad_decls.push_str("class AlsoBroken with Dep0Trait:\n    side: int\n\n");
    let mut bad_body = String::from("def main() -> None:\n");
    let mut n_diags = private_total + 2 * methods.len();
    for (i, m) in models.iter().enumerate() {
        // all required fields missing; then all but the first missing
        bad_body.push_str(&format!("    e{i} = {}()\n", m.name));
        n_diags += m.n_required;
        if i == 0 {
            bad_body.push_str(&format!("    f{i} = {}({}=1)\n", m.name, m.first_field));
            n_diags += m.n_required - 1;
        }
    }
    bad_body.push_str(&format!("    k = Kind.{}\n    match k:\n        case Kind.{}:\n            println(1)\n", variants[0], variants[0]));
    n_diags += 1;
    bad_body.push_str("    println(undefined_name_1)\n    println(undefined_name_2)\n");
    n_diags += 2;
    // a type error against the signature of a parent-relative import (vanishes if that module is not found)
    bad_body.push_str("    println(greeting_top(5))\n    println(top_fn(\"one\"))\n");
    let bad = format!("{header}{rust_imports}{bad_imports}\n{bad_decls}{bad_body}");

    files.push((format!("{entry_dir}/{stem}.incn"), good));
    files.push((format!("{entry_dir}/{stem}_bad.incn"), bad));
    // run 0 is spelled `bare`; the other five spellings are drawn without replacement from the remaining nine
    let mut srng = Rng(spec.seed ^ 0x5BE11);
    let mut others: Vec<usize> = (1..SPELLINGS.len()).collect();
    srng.shuffle(&mut others);
    let mut spellings = vec![0usize];
    spellings.extend(others.into_iter().take(K_RUNS - 1));
    Proj { stem, files, entry_dir, spellings, n_rust_imports: crates.len(), n_modules: paths.len() + 3, n_expected_diags: n_diags }
}

// ---------------------------------------------------------------------------------------------------------
// Running the CLI K times
// ---------------------------------------------------------------------------------------------------------

fn strip_ansi(s: &str) -> String {
    let mut out = String::new();
    let mut it = s.chars().peekable();
    while let Some(c) = it.next() {
        if c == '\x1b' {
            for d in it.by_ref() {
                if d.is_ascii_alphabetic() {
                    break;
                }
            }
        } else {
            out.push(c);
        }
    }
    out
}

fn collect_files(base: &Path, dir: &Path, out: &mut Vec<(String, String)>) {
    let Ok(rd) = std::fs::read_dir(dir) else { return };
    let mut es: Vec<PathBuf> = rd.flatten().map(|e| e.path()).collect();
    es.sort();
    for p in es {
        if p.is_dir() {
            collect_files(base, &p, out);
        } else {
            let bytes = std::fs::read(&p).unwrap_or_default();
            out.push((p.strip_prefix(base).unwrap_or(&p).to_string_lossy().to_string(), String::from_utf8_lossy(&bytes).to_string()));
        }
    }
}

/// Directory layout and environment of run `k`.
struct RunCfg {
    /// directories between the case directory and the project directory
    outer: &'static str,
    proj_dir: &'static str,
    env: Vec<(&'static str, String)>,
}

fn run_cfg(k: usize, case_dir: &Path) -> RunCfg {
    let home = case_dir.join(format!("home{k}")).to_string_lossy().to_string();
    match k % K_RUNS {
        0 => RunCfg {
            outer: "r0",
            proj_dir: "p",
            env: vec![("HOME", home), ("LANG", "C".into()), ("TZ", "UTC".into()), ("TERM", "dumb".into()), ("USER", "alice".into())],
        },
        1 => RunCfg {
            outer: "run_one/with/some/quite_long_directory_names/nested_deeper_than_usual",
            proj_dir: "project-copy.v2",
            env: vec![
                ("HOME", "/nonexistent".into()),
                ("LANG", "en_US.UTF-8".into()),
                ("LC_ALL", "en_US.UTF-8".into()),
                ("TZ", "Asia/Tokyo".into()),
                ("TERM", "xterm-256color".into()),
                ("USER", "bob".into()),
                ("COLUMNS", "40".into()),
                ("LINES", "10".into()),
                ("ZZ_EXTRA_1", "1".into()),
            ],
        },
        2 => RunCfg {
            outer: "R2/Ünï-cödé/δ",
            proj_dir: "projekt",
            env: vec![
                ("HOME", home),
                ("LANG", "tr_TR.UTF-8".into()),
                ("LC_ALL", "tr_TR.UTF-8".into()),
                ("TZ", "Pacific/Kiritimati".into()),
                ("TERM", "".into()),
                ("TMPDIR", case_dir.join("tmp2").to_string_lossy().to_string()),
                ("SOURCE_DATE_EPOCH", "86400".into()),
                ("AAA_FIRST", "x".into()),
                ("LOGNAME", "carol".into()),
            ],
        },
        3 => RunCfg {
            outer: "r3",
            proj_dir: "zzzzzzzzzzzzzzzzzzzzzzzzzzzzzzzzzzzzzzzzzzzzzzzzzzzz",
            env: vec![
                ("HOME", "/".into()),
                ("LANG", "de_DE.UTF-8".into()),
                ("TZ", "America/New_York".into()),
                ("TERM", "vt100".into()),
                ("SHELL", "/bin/zsh".into()),
                ("USER", "root".into()),
                ("PWD", "/definitely/not/the/cwd".into()),
                ("HOSTNAME", "host-three".into()),
            ],
        },
        4 => RunCfg {
            outer: "r4/parent_style",
            proj_dir: "pj4",
            env: vec![("HOME", home), ("LANG", "C.UTF-8".into()), ("TZ", "Europe/Berlin".into()), ("TERM", "screen".into()), ("USER", "dave".into()), ("MANY_1", "a".into()), ("MANY_2", "b".into()), ("MANY_3", "c".into())],
        },
        _ => RunCfg {
            outer: "r5.dir",
            proj_dir: "a",
            env: vec![("LANG", "ja_JP.UTF-8".into()), ("LC_MESSAGES", "fr_FR.UTF-8".into()), ("TZ", ":/etc/localtime".into()), ("USER", "erin".into()), ("COLUMNS", "200".into())],
        },
    }
}

/// One full run (a fresh copy, fresh processes): label -> bytes (as lossy text).
fn run_once(farm: &Farm, case_dir: &Path, proj: &Proj, k: usize, only: Option<&str>) -> BTreeMap<String, String> {
    let cfg = run_cfg(k, case_dir);
    let parent = case_dir.join(cfg.outer);
    let pdir = parent.join(cfg.proj_dir);
    let _ = std::fs::create_dir_all(&pdir);
    // write the copy in a run-specific file order
    let n = proj.files.len();
    for i in 0..n {
        let (rel, content) = &proj.files[(i * (if k % 2 == 0 { 1 } else { n - 1 }) + k) % n];
        let p = pdir.join(rel);
        if let Some(d) = p.parent() {
            let _ = std::fs::create_dir_all(d);
        }
        let _ = std::fs::write(p, content);
    }
    // every file must be there whatever the permutation did
    for (rel, content) in &proj.files {
        let p = pdir.join(rel);
        if !p.exists() {
            if let Some(d) = p.parent() {
                let _ = std::fs::create_dir_all(d);
            }
            let _ = std::fs::write(p, content);
        }
    }
    // PATH: stub cargo first, the system directories rotated, a junk directory somewhere
    let sys = std::env::var("PATH").unwrap_or_default();
    let mut dirs: Vec<String> = sys.split(':').filter(|s| !s.is_empty()).map(|s| s.to_string()).collect();
    if !dirs.is_empty() {
        let r = k % dirs.len();
        dirs.rotate_left(r);
    }
    dirs.insert(k % (dirs.len() + 1), format!("/nonexistent/bin{k}"));
    let path = format!("{}:{}", Farm::stub_cargo_dir().display(), dirs.join(":"));

    // ---- spelling of working directory and entry path for this run
    let ed = proj.entry_dir.as_str();
    let depth = if ed.is_empty() { 0 } else { ed.split('/').count() };
    let edir = if ed.is_empty() { pdir.clone() } else { pdir.join(ed) };
    let ed_slash = if ed.is_empty() { String::new() } else { format!("{ed}/") };
    let ups = if depth == 0 { ".".to_string() } else { vec![".."; depth].join("/") };
    // `base` followed by `ups` (base ends with '/' or is empty)
    let up_from = |base: &str| -> String {
        if depth == 0 {
            if base.is_empty() { ".".to_string() } else { base.trim_end_matches('/').to_string() }
        } else {
            format!("{base}{ups}")
        }
    };
    let _ = std::fs::create_dir_all(edir.join("tools"));
    let _ = std::fs::create_dir_all(pdir.join("zsib").join("deep"));
    let spelling = proj.spellings.get(k % K_RUNS).copied().unwrap_or(0);
    // decoys outside the project: next to a symlink to the entry directory, and in the directory above the project
    let decoy = |who: &str| format!("pub def greeting_top(name: str) -> str:\n    return f\"{who} {{name}}\"\n\npub const COMMON_LIMIT: int = 77\n\npub def top_fn(n: int) -> int:\n    return n + 70\n\npub def setting_a() -> int:\n    return 71\n");
    #[cfg(unix)]
    {
        if spelling == 7 {
            let _ = std::os::unix::fs::symlink(&pdir, parent.join("lnk_project"));
        }
        if spelling == 8 {
            let x = parent.join("xdir");
            let _ = std::fs::create_dir_all(&x);
            let _ = std::os::unix::fs::symlink(&edir, x.join("applink"));
            for m in ["common", "topshared", "config"] {
                let _ = std::fs::write(x.join(format!("{m}.incn")), decoy("DECOY next to the symlink"));
            }
        }
    }
    for m in ["common", "topshared", "config"] {
        let _ = std::fs::write(parent.join(format!("{m}.incn")), decoy("DECOY above the project"));
    }
    let (cwd, prefix, dir_arg): (PathBuf, String, String) = match spelling {
        1 => (edir.clone(), "./".into(), up_from("")),
        2 => {
            let other = parent.join("elsewhere");
            let _ = std::fs::create_dir_all(&other);
            (other, format!("{}/", edir.display()), pdir.display().to_string())
        }
        3 => (pdir.clone(), ed_slash.clone(), ".".into()),
        4 => (edir.join("tools"), "../".into(), up_from("../")),
        5 => (pdir.join("zsib").join("deep"), format!("../../{ed_slash}"), "../..".into()),
        6 => (edir.clone(), "tools/../".into(), up_from("tools/../")),
        7 => (if ed.is_empty() { parent.join("lnk_project") } else { parent.join("lnk_project").join(ed) }, String::new(), up_from("")),
        8 => (parent.join("xdir"), "applink/".into(), up_from("applink/")),
        9 => (pdir.clone(), format!(".//{}{}./", ed.replace('/', "//"), if ed.is_empty() { "" } else { "//" }), ".//.".into()),
        _ => (edir.clone(), String::new(), up_from("")),
    };
    let good = format!("{prefix}{}.incn", proj.stem);
    let bad = format!("{prefix}{}_bad.incn", proj.stem);

    let mut art: BTreeMap<String, String> = BTreeMap::new();
    let mut call = |label: &str, args: &[&str]| {
        // while shrinking only the command family that showed the difference is run
        if only.is_some_and(|o| !label.starts_with(o)) {
            return;
        }
        let mut c = Command::new(&farm.incan);
        c.args(args).current_dir(&cwd).env_clear();
        c.env("PATH", &path).env("NO_COLOR", "1");
        for (kk, v) in &cfg.env {
            c.env(kk, v);
        }
        let r = farm::run_cmd(c, Duration::from_secs(300));
        // only the path prefix the harness itself put on the command line is removed: `<dir arg>/` for the two
        // directory commands (they print `<dir arg>/<file>`), the directory part of the entry argument elsewhere
        let norm = |s: &str| {
            if label.starts_with("fmt-check-dir") || label.starts_with("fmt-dir") {
                s.replace(&format!("{dir_arg}/"), "")
            } else if !prefix.is_empty() {
                s.replace(&prefix, "")
            } else {
                s.to_string()
            }
        };
        let status = if r.timed_out {
            "WATCHDOG".to_string()
        } else {
            format!("{:?}/{:?}", r.status, r.signal)
        };
        art.insert(format!("{label}:status"), status);
        art.insert(format!("{label}:stdout"), norm(&r.stdout));
        art.insert(format!("{label}:stderr"), norm(&r.stderr));
    };
    call("build", &["build", &good, "out"]);
    call("build-bad", &["build", &bad, "outbad"]);
    call("check", &["--check", &good]);
    call("check-bad", &["--check", &bad]);
    call("emit-rust", &["--emit-rust", &good]);
    call("fmt-diff", &["fmt", "--diff", &good]);
    call("fmt-check-dir", &["fmt", "--check", &dir_arg]);
    call("fmt-dir", &["fmt", &dir_arg]);
    // generated project (no normalisation whatsoever)
    let mut gen = Vec::new();
    collect_files(&cwd.join("out"), &cwd.join("out"), &mut gen);
    art.insert("generated:file-list".into(), gen.iter().map(|(p, _)| p.as_str()).collect::<Vec<_>>().join("\n"));
    for (rel, content) in gen {
        art.insert(format!("generated:{rel}"), content);
    }
    let mut genbad = Vec::new();
    collect_files(&cwd.join("outbad"), &cwd.join("outbad"), &mut genbad);
    art.insert("generated-bad:file-list".into(), genbad.iter().map(|(p, _)| p.as_str()).collect::<Vec<_>>().join("\n"));
    // formatted sources
    for (rel, _) in &proj.files {
        let bytes = std::fs::read(pdir.join(rel)).unwrap_or_default();
        art.insert(format!("formatted:{rel}"), String::from_utf8_lossy(&bytes).to_string());
    }
    art
}

// ---------------------------------------------------------------------------------------------------------
// Comparison
// ---------------------------------------------------------------------------------------------------------

#[derive(Clone, Debug)]
struct Fail {
    key: String,
    what: String,
}

/// Split CLI diagnostics output into blocks: a block starts at a line that does not begin with white space.
fn diag_blocks(text: &str) -> Vec<String> {
    let mut blocks: Vec<String> = Vec::new();
    for line in text.lines() {
        if line.starts_with(' ') || line.starts_with('\t') || line.is_empty() {
            if let Some(b) = blocks.last_mut() {
                b.push('\n');
                b.push_str(line);
                continue;
            }
        }
        blocks.push(line.to_string());
    }
    blocks
}

/// Root-cause family of a diagnostic block (its message with the quoted names removed).
fn diag_family(block: &str) -> String {
    let first = strip_ansi(block.lines().next().unwrap_or(""));
    if first.contains("Missing required field") && first.contains("when constructing") {
        return "missing-constructor-field".into();
    }
    if first.contains("requires method") && first.contains("to be implemented") {
        return "missing-trait-method".into();
    }
    if first.contains("it is private or not exported") {
        return "private-import".into();
    }
    let mut out = String::new();
    let mut in_q = false;
    for c in first.chars() {
        match c {
            '\'' | '`' => in_q = !in_q,
            _ if in_q => {}
            c if c.is_ascii_alphanumeric() => out.push(c.to_ascii_lowercase()),
            _ => {
                if !out.ends_with('-') {
                    out.push('-');
                }
            }
        }
    }
    out.trim_matches('-').chars().take(48).collect()
}

fn diag_location(block: &str) -> String {
    strip_ansi(block).lines().find(|l| l.trim_start().starts_with("-->")).unwrap_or("").trim().to_string()
}

/// Canonical form of diagnostics under the open known findings in `masks`: consecutive blocks of a masked family at
/// the same location are sorted.
fn mask_diags(text: &str, masks: &BTreeSet<String>) -> String {
    let blocks = diag_blocks(text);
    let mut out: Vec<String> = Vec::new();
    let mut i = 0;
    while i < blocks.len() {
        let fam = diag_family(&blocks[i]);
        if masks.contains(&format!("diagnostics-order:{fam}")) {
            let loc = diag_location(&blocks[i]);
            let mut j = i;
            while j < blocks.len() && diag_family(&blocks[j]) == fam && diag_location(&blocks[j]) == loc {
                j += 1;
            }
            let mut run: Vec<String> = blocks[i..j].to_vec();
            run.sort();
            out.extend(run);
            i = j;
        } else {
            out.push(blocks[i].clone());
            i += 1;
        }
    }
    out.join("\n")
}

/// The blocks of one family, in order of appearance.
fn family_seq(text: &str, fam: &str) -> Vec<String> {
    diag_blocks(text).into_iter().filter(|b| diag_family(b) == fam).collect()
}

/// Canonical form of a manifest under the known finding `cargo-toml:dependency-order`: lines of [dependencies] sorted.
fn mask_manifest(text: &str) -> String {
    let mut out: Vec<String> = Vec::new();
    let mut deps: Vec<String> = Vec::new();
    let mut in_deps = false;
    for line in text.lines() {
        if in_deps {
            if line.trim().is_empty() || line.starts_with('[') {
                deps.sort();
                out.append(&mut deps);
                in_deps = false;
                out.push(line.to_string());
            } else {
                deps.push(line.to_string());
            }
        } else {
            if line.trim() == "[dependencies]" {
                in_deps = true;
            }
            out.push(line.to_string());
        }
    }
    deps.sort();
    out.append(&mut deps);
    out.join("\n")
}

fn strip_all(v: &[String]) -> Vec<String> {
    v.iter().map(|s| strip_ansi(s)).collect()
}

fn same_lines(a: &str, b: &str) -> bool {
    let mut x: Vec<&str> = a.lines().collect();
    let mut y: Vec<&str> = b.lines().collect();
    x.sort();
    y.sort();
    x == y
}

fn first_diff(a: &str, b: &str) -> String {
    let al: Vec<&str> = a.lines().collect();
    let bl: Vec<&str> = b.lines().collect();
    for i in 0..al.len().max(bl.len()) {
        let x = al.get(i).copied().unwrap_or("<end>");
        let y = bl.get(i).copied().unwrap_or("<end>");
        if x != y {
            return format!("line {}: run 0 has {:?}, other run has {:?}", i + 1, util::truncate(&strip_ansi(x), 160), util::truncate(&strip_ansi(y), 160));
        }
    }
    "differ only in line terminators".to_string()
}

/// Classify the difference of artifact `label` between run 0 and run `k`.
fn classify(label: &str, a: &str, b: &str) -> String {
    let (group, rest) = label.split_once(':').unwrap_or((label, ""));
    match group {
        "generated" if rest == "Cargo.toml" => {
            if same_lines(a, b) {
                "cargo-toml:dependency-order".into()
            } else {
                "cargo-toml:content".into()
            }
        }
        "generated" | "generated-bad" if rest == "file-list" => "generated-files:set".into(),
        "generated" => {
            let kind = if rest.ends_with("main.rs") {
                "main"
            } else if rest.ends_with("mod.rs") {
                "mod-rs"
            } else {
                "module"
            };
            if same_lines(a, b) {
                format!("generated-rust:{kind}:line-order")
            } else {
                format!("generated-rust:{kind}:content")
            }
        }
        "formatted" => "fmt:formatted-file".into(),
        _ if rest == "status" => format!("{group}:exit-status"),
        "check-bad" | "build-bad" | "check" | "build" if rest == "stderr" || rest == "stdout" => {
            let (ba, bb) = (diag_blocks(a), diag_blocks(b));
            let (mut sa, mut sb) = (ba.clone(), bb.clone());
            sa.sort();
            sb.sort();
            if sa == sb {
                let fam = ba.iter().zip(bb.iter()).find(|(x, y)| x != y).map(|(x, _)| diag_family(x)).unwrap_or_default();
                format!("diagnostics-order:{fam}")
            } else if sa.len() == sb.len() && strip_all(&sa) == strip_all(&sb) {
                "diagnostics:colour-codes".into()
            } else {
                format!("{group}:{rest}:content")
            }
        }
        "emit-rust" if rest == "stdout" => {
            if same_lines(a, b) {
                "emit-rust:line-order".into()
            } else {
                "emit-rust:content".into()
            }
        }
        _ => format!("{group}:{rest}:content"),
    }
}

struct Compare {
    fails: Vec<Fail>,
    /// known-finding keys whose mask was needed (raw bytes differed, canonical forms agree)
    masked: BTreeSet<String>,
    /// number of distinct raw variants of the manifest / bad diagnostics among the K runs (sensitivity indicator)
    manifest_variants: usize,
    diag_variants: usize,
    infra: Option<String>,
}

fn compare(runs: &[BTreeMap<String, String>], masks: &BTreeSet<String>) -> Compare {
    let mut cmp = Compare { fails: Vec::new(), masked: BTreeSet::new(), manifest_variants: 0, diag_variants: 0, infra: None };
    let base = &runs[0];
    for r in runs {
        if r.values().any(|v| v == "WATCHDOG") || r.iter().any(|(k, v)| k.ends_with(":stderr") && v.contains("spawn failed")) {
            cmp.infra = Some("a CLI call hit the watchdog or could not be spawned".into());
            return cmp;
        }
    }
    let distinct = |label: &str| runs.iter().filter_map(|r| r.get(label)).collect::<BTreeSet<_>>().len();
    cmp.manifest_variants = distinct("generated:Cargo.toml");
    cmp.diag_variants = distinct("check-bad:stderr").max(distinct("check-bad:stdout"));
    let labels: BTreeSet<&String> = runs.iter().flat_map(|r| r.keys()).collect();
    for label in labels {
        for (k, r) in runs.iter().enumerate().skip(1) {
            let a = base.get(label).map(|s| s.as_str());
            let b = r.get(label).map(|s| s.as_str());
            if a == b {
                continue;
            }
            let (a, b) = (a.unwrap_or("<absent>"), b.unwrap_or("<absent>"));
            let key = classify(label, a, b);
            if masks.contains(&key) {
                // judge the canonical forms instead
                let (ca, cb) = if key == "cargo-toml:dependency-order" { (mask_manifest(a), mask_manifest(b)) } else { (mask_diags(a, masks), mask_diags(b, masks)) };
                if ca == cb {
                    if key.starts_with("diagnostics-order:") {
                        // count every open family whose blocks really are in a different order here
                        for m in masks.iter().filter_map(|m| m.strip_prefix("diagnostics-order:")) {
                            if family_seq(a, m) != family_seq(b, m) {
                                cmp.masked.insert(format!("diagnostics-order:{m}"));
                            }
                        }
                    } else {
                        cmp.masked.insert(key);
                    }
                    continue;
                }
                let key2 = classify(label, &ca, &cb);
                let key2 = if key2 == key { format!("{key}:beyond-known") } else { key2 };
                cmp.fails.push(Fail { key: key2, what: format!("{label}: run 0 vs run {k} differ even modulo the known finding `{key}`: {}", first_diff(&ca, &cb)) });
                break;
            }
            // a difference of another family may hide behind masked ones in the same text
            if key.starts_with("diagnostics-order:") && !masks.is_empty() {
                let (ca, cb) = (mask_diags(a, masks), mask_diags(b, masks));
                if ca == cb {
                    for m in masks.iter().filter_map(|m| m.strip_prefix("diagnostics-order:")) {
                        if family_seq(a, m) != family_seq(b, m) {
                            cmp.masked.insert(format!("diagnostics-order:{m}"));
                        }
                    }
                    continue;
                }
                let key2 = classify(label, &ca, &cb);
                cmp.fails.push(Fail { key: key2, what: format!("{label}: run 0 vs run {k}: {}", first_diff(&ca, &cb)) });
                break;
            }
            cmp.fails.push(Fail { key, what: format!("{label}: run 0 vs run {k}: {}", first_diff(a, b)) });
            break;
        }
    }
    // one failure per key
    let mut seen = BTreeSet::new();
    cmp.fails.retain(|f| seen.insert(f.key.clone()));
    cmp
}

/// Command family (label prefix) that can show a failure with signature `key`.
fn family_of(key: &str) -> Option<&'static str> {
    if key.starts_with("cargo-toml:") || key.starts_with("generated-") {
        Some("build")
    } else if key.starts_with("diagnostics-order:") || key.starts_with("check-bad:") {
        Some("check-bad")
    } else if key.starts_with("emit-rust:") {
        Some("emit-rust")
    } else if key.starts_with("fmt") {
        Some("fmt")
    } else {
        None
    }
}

fn evaluate(farm: &Farm, proj: &Proj, masks: &BTreeSet<String>) -> (Compare, Vec<BTreeMap<String, String>>) {
    evaluate_only(farm, proj, masks, None, false)
}

fn evaluate_only(farm: &Farm, proj: &Proj, masks: &BTreeSet<String>, only: Option<&str>, parallel: bool) -> (Compare, Vec<BTreeMap<String, String>>) {
    let case_dir = farm.case_dir();
    let ks: Vec<usize> = (0..K_RUNS).collect();
    let runs: Vec<BTreeMap<String, String>> = if parallel {
        farm.par_map(&ks, |&k| run_once(farm, &case_dir, proj, k, only))
    } else {
        ks.iter().map(|&k| run_once(farm, &case_dir, proj, k, only)).collect()
    };
    let _ = std::fs::remove_dir_all(&case_dir);
    let mut cmp = compare(&runs, masks);
    let how: Vec<String> = proj.spellings.iter().enumerate().map(|(k, s)| format!("run {k}: {}", SPELLINGS[*s % SPELLINGS.len()])).collect();
    for f in &mut cmp.fails {
        f.what.push_str(&format!("\n(entry dir `{}`; {})", proj.entry_dir, how.join("; ")));
    }
    (cmp, runs)
}

fn replay_body(proj: &Proj, f: &Fail) -> String {
    serde_json::to_string_pretty(&json!({
        "stem": proj.stem, "entry_dir": proj.entry_dir, "spellings": proj.spellings,
        "files": proj.files.iter().map(|(a, b)| json!([a, b])).collect::<Vec<_>>(),
        "signature": f.key, "what": f.what,
    }))
    .unwrap()
}

fn load_replay(path: &Path) -> Option<Proj> {
    let v: Value = serde_json::from_str(&std::fs::read_to_string(path).ok()?).ok()?;
    let files: Vec<(String, String)> = v["files"].as_array()?.iter().map(|p| (p[0].as_str().unwrap_or("").to_string(), p[1].as_str().unwrap_or("").to_string())).collect();
    let spellings: Vec<usize> = v["spellings"].as_array().map(|a| a.iter().filter_map(|x| x.as_u64().map(|n| n as usize % SPELLINGS.len())).collect()).unwrap_or_default();
    let spellings = if spellings.len() == K_RUNS { spellings } else { vec![0, 4, 8, 6, 2, 3] };
    Some(Proj {
        stem: v["stem"].as_str()?.to_string(),
        files,
        entry_dir: v["entry_dir"].as_str().unwrap_or("").to_string(),
        spellings,
        n_rust_imports: 0,
        n_modules: 0,
        n_expected_diags: 0,
    })
}

fn proj_hash(p: &Proj) -> u64 {
    util::hash_str(&p.files.iter().map(|(a, b)| format!("{a}\0{b}\0")).collect::<String>())
}

fn main() {
    let args = Args::parse("C12");
    util::install_quiet_panic_hook();
    let mut out = Outcome::new("C12");
    let mut ev = Evidence::new(
        &args,
        "a case is one generated project run through 8 CLI commands in each of K=6 fresh processes/directories/environments and \
         compared byte for byte; it is non-trivial if it has >= 2 rust:: imports, or >= 2 dependency modules, or >= 2 diagnostics \
         (every generated case has >= 3 of each by construction; measured per case); distinct = hash of all project files",
    );
    ev.assume("documented switches are held fixed: NO_COLOR=1 set, RUST_LOG / INCAN_* unset; stdout and stderr are pipes in every run");
    ev.assume("the output directory is always a relative path; the directory part of the entry argument (and `<dir arg>/` for the two directory commands) as the harness spelled it is removed from messages, nothing else is normalised");
    ev.assume("hash-order dependence is detected probabilistically: with n >= 3 entries per collection and independent uniformly random orders, six agreeing runs have probability <= (1/n!)^5 <= 6^-5 = 1.29e-4 per collection and case");
    ev.set("runs_per_case", json!(K_RUNS));
    ev.set("luck_bound_per_collection_and_case", json!(1.0 / 6f64.powi(5)));
    if let Some(n) = args.flag("max-reports").and_then(|s| s.parse().ok()) {
        out.max_reports = n;
    }

    let farm = Farm::new("c12");
    let masks: BTreeSet<String> = out.known.open.iter().map(|e| e.key.clone()).collect();

    // ---- replay mode: judge one saved project with the same K-run differential, no masks
    if let Some(path) = &args.replay {
        match load_replay(path) {
            Some(proj) => {
                let (cmp, _) = evaluate(&farm, &proj, &BTreeSet::new());
                ev.case(Some(proj_hash(&proj)));
                ev.sample(json!({"files": proj.files.iter().map(|(p, _)| p).collect::<Vec<_>>()}));
                if let Some(w) = &cmp.infra {
                    out.inconclusive(w);
                }
                for f in &cmp.fails {
                    out.violation(&mut ev, &f.key, "json", &replay_body(&proj, f), &f.what);
                }
            }
            None => out.inconclusive("cannot read replay file"),
        }
        std::process::exit(out.finish(&ev));
    }

    // ---- canonical inputs of open known findings (judged without masks)
    for e in out.known.open.clone() {
        match load_replay(&e.replay) {
            Some(proj) => {
                // only the command family that shows the finding is run (six processes in parallel)
                let (cmp, _) = evaluate_only(&farm, &proj, &BTreeSet::new(), family_of(&e.key), true);
                if let Some(w) = &cmp.infra {
                    out.inconclusive(w);
                }
                out.known_replayed(&e.key, cmp.fails.iter().any(|f| f.key == e.key));
                for f in &cmp.fails {
                    if !out.is_known(&f.key) {
                        out.violation(&mut ev, &f.key, "json", &replay_body(&proj, f), &f.what);
                    }
                }
            }
            None => out.inconclusive(&format!("canonical input of known finding {} is unreadable", e.key)),
        }
    }

    // ---- regression inputs: canonical inputs of findings that are no longer open (fixed in /repo); judged without masks
    {
        let open_replays: BTreeSet<PathBuf> = out.known.open.iter().map(|e| e.replay.clone()).collect();
        let dir = vcore::verif_root().join("known").join("C12");
        let mut files: Vec<PathBuf> = std::fs::read_dir(&dir).map(|rd| rd.flatten().map(|e| e.path()).collect()).unwrap_or_default();
        // (canonical inputs of fixed findings may be filed under known/C12/fixed/)
        files.extend(std::fs::read_dir(dir.join("fixed")).map(|rd| rd.flatten().map(|e| e.path()).collect::<Vec<_>>()).unwrap_or_default());
        files.sort();
        let mut n = 0u64;
        for f in files.iter().filter(|f| f.extension().is_some_and(|x| x == "json") && !open_replays.contains(*f)) {
            if let Some(proj) = load_replay(f) {
                // the command family named by the recorded signature is enough to see the recorded defect again
                let sig = std::fs::read_to_string(f).ok().and_then(|t| serde_json::from_str::<Value>(&t).ok()).and_then(|v| v["signature"].as_str().map(|s| s.to_string())).unwrap_or_default();
                let (cmp, _) = evaluate_only(&farm, &proj, &BTreeSet::new(), family_of(&sig), true);
                n += 1;
                ev.class("regression-input");
                ev.case(Some(proj_hash(&proj)));
                if let Some(w) = &cmp.infra {
                    out.inconclusive(w);
                }
                for fl in &cmp.fails {
                    if !out.is_known(&fl.key) {
                        out.violation(&mut ev, &fl.key, "json", &replay_body(&proj, fl), &format!("regression input {}: {}", f.display(), fl.what));
                    }
                }
            }
        }
        ev.set("regression_inputs_replayed", json!(n));
    }

    // ---- generated projects
    let n = args.flag("cases").and_then(|s| s.parse().ok()).unwrap_or(args.tier.pick(16usize, 1500usize));
    let mut runner = vcore::gen::runner(args.subseed(12));
    let strat = spec_strategy();
    let mut trees = vcore::gen::batch(&strat, &mut runner, n);
    let specs: Vec<Spec> = trees.iter().map(|t| t.current()).collect();
    let projs: Vec<Proj> = specs.iter().map(render).collect();
    if let Some(dir) = args.flag("dump") {
        // development aid: write the first generated project to a directory and stop
        for (rel, content) in &projs[0].files {
            let p = Path::new(dir).join(rel);
            let _ = std::fs::create_dir_all(p.parent().unwrap());
            let _ = std::fs::write(p, content);
        }
        println!("dumped {} files of project `{}` to {dir}", projs[0].files.len(), projs[0].stem);
        return;
    }
    let results: Vec<(Compare, Vec<BTreeMap<String, String>>)> = farm.par_map(&projs, |p| evaluate(&farm, p, &masks));
    let mut manifest_variant_hist: BTreeMap<String, u64> = BTreeMap::new();
    let mut diag_variant_hist: BTreeMap<String, u64> = BTreeMap::new();
    let mut cli_calls = 0u64;
    for (i, (proj, (cmp, runs))) in projs.iter().zip(results.iter()).enumerate() {
        if let Some(w) = &cmp.infra {
            out.inconclusive(w);
            ev.case(None);
            continue;
        }
        cli_calls += (K_RUNS * 8) as u64;
        // measured non-triviality: what the compiler actually produced
        let manifest = runs[0].get("generated:Cargo.toml").cloned().unwrap_or_default();
        let n_rust_deps = manifest.lines().filter(|l| KNOWN_GOOD.iter().any(|c| l.starts_with(&format!("{c} = ")))).count();
        let n_modules = runs[0].get("generated:file-list").map(|l| l.lines().filter(|p| p.ends_with(".rs") && !p.ends_with("main.rs") && !p.ends_with("mod.rs")).count()).unwrap_or(0);
        let diag_text = format!("{}{}", runs[0].get("check-bad:stdout").cloned().unwrap_or_default(), runs[0].get("check-bad:stderr").cloned().unwrap_or_default());
        let n_diags = diag_blocks(&diag_text).iter().filter(|b| b.contains("-->")).count();
        let ok_build = runs[0].get("build:status").is_some_and(|s| s.starts_with("Some(0)"));
        let ok_check = runs[0].get("check:status").is_some_and(|s| s.starts_with("Some(0)"));
        if !ok_build || !ok_check {
            // the good entry must compile, otherwise the generated-files leg is empty for this case
            ev.discard(if !ok_check { "good-entry-rejected-by-typechecker" } else { "good-entry-codegen-failed" });
            if ev.want_sample() {
                ev.set("first_rejected_good_entry", json!(util::truncate(&strip_ansi(&format!("{}{}", runs[0].get("build:stdout").cloned().unwrap_or_default(), runs[0].get("build:stderr").cloned().unwrap_or_default())), 600)));
            }
        }
        let nontrivial = n_rust_deps >= 2 || n_modules >= 2 || n_diags >= 2;
        ev.case(if nontrivial { Some(proj_hash(proj)) } else { None });
        ev.class(&format!("rust-deps-in-manifest:{}", n_rust_deps.min(7)));
        ev.class(&format!("dependency-modules:{}", n_modules.min(6)));
        ev.class(&format!("diagnostics-in-bad-entry:{}", if n_diags >= 20 { "20+".to_string() } else if n_diags >= 10 { "10-19".to_string() } else { n_diags.to_string() }));
        ev.class(if specs[i].noise { "layout:unformatted" } else { "layout:plain" });
        ev.class(&format!("entry-dir:{}", proj.entry_dir));
        for sp in proj.spellings.iter().skip(1) {
            ev.class(&format!("spelling:{}", SPELLINGS[*sp]));
        }
        *manifest_variant_hist.entry(cmp.manifest_variants.to_string()).or_insert(0) += 1;
        *diag_variant_hist.entry(cmp.diag_variants.to_string()).or_insert(0) += 1;
        for m in &cmp.masked {
            ev.exclude(m);
        }
        if ev.want_sample() && i % (n / 6).max(1) == 0 {
            ev.sample(json!({
                "files": proj.files.iter().map(|(p, s)| json!({"path": p, "bytes": s.len()})).collect::<Vec<_>>(),
                "entry": util::truncate(&proj.files[proj.files.len() - 2].1, 1500),
                "bad_entry_tail": util::truncate(proj.files[proj.files.len() - 1].1.rsplit("def main").next().unwrap_or(""), 600),
                "rust_deps_in_manifest": n_rust_deps, "dependency_modules": n_modules, "diagnostics": n_diags,
                "expected_by_construction": {"rust_imports": proj.n_rust_imports, "modules": proj.n_modules, "diagnostics": proj.n_expected_diags},
                "distinct_manifests_in_6_runs": cmp.manifest_variants, "distinct_diagnostic_outputs_in_6_runs": cmp.diag_variants,
            }));
        }
        if let Some(first) = cmp.fails.iter().find(|f| !out.seen(&f.key)).cloned() {
            // bounded shrinking, same signature
            let key = first.key.clone();
            let fam = family_of(&key);
            let small = vcore::gen::shrink(&mut trees[i], 20, |s: &Spec| evaluate_only(&farm, &render(s), &masks, fam, true).0.fails.iter().any(|f| f.key == key));
            let sp = render(&small);
            let (scmp, _) = evaluate_only(&farm, &sp, &masks, fam, true);
            let (rp, rf) = match scmp.fails.iter().find(|f| f.key == key) {
                Some(f) => (sp, f.clone()),
                None => (proj.clone(), first.clone()),
            };
            out.violation(&mut ev, &rf.key, "json", &replay_body(&rp, &rf), &rf.what);
        }
        for f in &cmp.fails {
            if out.seen(&f.key) {
                ev.violations += 1; // another occurrence of a signature already written out
            } else {
                out.violation(&mut ev, &f.key, "json", &replay_body(proj, f), &f.what);
            }
        }
    }
    ev.set("cli_calls", json!(cli_calls));
    ev.set("distinct_manifest_texts_among_6_runs_histogram", json!(manifest_variant_hist));
    ev.set("distinct_bad_entry_diagnostic_outputs_among_6_runs_histogram", json!(diag_variant_hist));
    ev.set(
        "commands_per_run",
        json!(["build <entry> out", "build <bad entry> outbad", "--check <entry>", "--check <bad entry>", "--emit-rust <entry>", "fmt --diff <entry>", "fmt --check <dir>", "fmt <dir>"]),
    );
    std::process::exit(out.finish(&ev));
}
