//! C08 — formatting never changes what a program means.
//!
//! Inputs: G-syn programs (every node kind / optional field / spelling the parser accepts), every repository seed
//! file (whole and declaration by declaration) and the ```incan code blocks of the docs.
//! Oracle (round trip): parse(x) = A1  =>  format_source(x) = Ok(y), parse(y) = Ok(A2), canon(A1) == canon(A2), where
//! canon = derived Debug text without spans after the documented normalisations (vcore::astcanon).
//! Failures are classified by the first differing node path or by the parse error of the formatted text.

use proptest::strategy::ValueTree;
use rayon::prelude::*;
use serde_json::json;
use std::collections::{BTreeMap, BTreeSet};
use vcore::fmtoracle::{self, Failure, KnownDef, RoundTrip};
use vcore::gsyn::{self, Tag};
use vcore::{util, Args, Evidence, Outcome};

/// tags that can only occur together with a switchable construct
const DEPENDENT: &[(&str, &[&str])] = &[("expr.if", &["ifexpr.else=0", "ifexpr.else=1"]), ("fstring.literal_special", &["surface.fstring.brace_escape"])];

const KIND_PREFIXES: &[&str] = &["decl.", "stmt.", "expr.", "pattern.", "type.", "lit."];

fn kind_count(tags: &BTreeSet<Tag>) -> usize {
    tags.iter().filter(|t| KIND_PREFIXES.iter().any(|p| t.starts_with(p)) && **t != "decl.function" && !t.contains('=')).count()
}

enum Verdict {
    Discard(String),
    /// round trip fine; deepest indentation (columns) of the formatted text
    Pass(usize),
    Known(&'static KnownDef),
    Violation(Failure),
}

fn judge(x: &str, active: &[&'static KnownDef]) -> (Verdict, BTreeSet<Tag>) {
    judge_with(x, active, None)
}

fn judge_with(x: &str, active: &[&'static KnownDef], fcfg: Option<&incan::FormatConfig>) -> (Verdict, BTreeSet<Tag>) {
    match fmtoracle::roundtrip_with(x, fcfg) {
        RoundTrip::NotParsed(why) => (Verdict::Discard(why), BTreeSet::new()),
        RoundTrip::Ok { a1, formatted } => (Verdict::Pass(gsyn::max_indent_columns(&formatted)), gsyn::ast_tags(&a1)),
        RoundTrip::Fail { a1, failure } => {
            let tags = gsyn::ast_tags(&a1);
            match fmtoracle::attribute(&failure, &tags, active) {
                Some(d) => (Verdict::Known(d), tags),
                None => (Verdict::Violation(failure), tags),
            }
        }
    }
}

struct Found {
    sig: String,
    source: String,
    detail: String,
    origin: String,
    /// (generator class, chunk seed, case index) of a generated case: shrunk lazily, only when the signature is reported
    gen: Option<(u8, u64, usize)>,
}

#[derive(Default)]
struct ChunkOut {
    cases: u64,
    nontrivial: Vec<u64>,
    tag_counts: BTreeMap<Tag, u64>,
    noise: BTreeMap<String, u64>,
    known_leaks: BTreeMap<&'static str, u64>,
    found: Vec<Found>,
    violations: u64,
    samples: Vec<String>,
    unknown_tags: BTreeSet<Tag>,
    normalisation_mattered: u64,
    /// cases whose formatted text is indented deeper than 32 / 64 columns, and the deepest seen
    deeper_32: u64,
    deeper_64: u64,
    max_indent: usize,
    longest_line: usize,
    nondefault_config: u64,
}

/// Generator classes: 0 ordinary G-syn, 1 deep nesting, 2 long constructs, 3 many declarations.
const CLASS_NAMES: [&str; 4] = ["gsyn_programs", "stress_deep_nesting", "stress_long_constructs", "stress_many_declarations"];

fn class_strategy(class: u8, cfg: &gsyn::GsynConfig) -> proptest::strategy::BoxedStrategy<gsyn::GProgram> {
    match class {
        1 => gsyn::stress::deep(cfg),
        2 => gsyn::stress::long(cfg),
        3 => gsyn::stress::many(cfg),
        _ => gsyn::program_tree(cfg),
    }
}

/// Formatter configuration of case `k` (None = default): stress cases rotate through all of them, every 8th ordinary
/// case uses a non-default one.
fn case_config(class: u8, k: usize) -> Option<incan::FormatConfig> {
    if class != 0 {
        fmtoracle::config(k)
    } else if k % 8 == 7 {
        fmtoracle::config(1 + (k / 8) % 5)
    } else {
        None
    }
}

fn describe(f: &Failure, source: &str) -> String {
    let mut s = format!("{}\n--- input ---\n{}", f.detail, util::truncate(source, 1500));
    if let Some(y) = &f.formatted {
        s.push_str(&format!("\n--- formatted ---\n{}", util::truncate(y, 1500)));
    }
    s
}

fn run_chunk(class: u8, idx: usize, n: usize, seed: u64, cfg: &gsyn::GsynConfig, active: &[&'static KnownDef], all: &BTreeSet<Tag>) -> ChunkOut {
    let mut out = ChunkOut::default();
    let strat = class_strategy(class, cfg);
    let mut runner = vcore::gen::runner(seed);
    let trees = vcore::gen::batch(&strat, &mut runner, n);
    let mut seen_sigs: BTreeSet<String> = BTreeSet::new();
    for (k, tree) in trees.iter().enumerate() {
        let p = gsyn::render(&tree.current());
        out.cases += 1;
        if !p.parsed {
            let why = match gsyn::parse(&p.source) {
                Err(e) => e,
                Ok(_) => "panic".into(),
            };
            *out.noise.entry(util::truncate(&why, 80)).or_insert(0) += 1;
            if out.samples.len() < 2 && idx == 0 && class == 0 {
                out.samples.push(format!("NOISE {why}\n{}", p.source));
            }
            continue;
        }
        for t in &p.tags {
            *out.tag_counts.entry(t).or_insert(0) += 1;
            if !all.contains(t) {
                out.unknown_tags.insert(t);
            }
        }
        if kind_count(&p.tags) >= 3 {
            out.nontrivial.push(util::hash_str(&p.source));
        }
        if idx < 3 && class == 0 && k % 60 == 7 && out.samples.len() < 2 {
            out.samples.push(p.source.clone());
        }
        let fcfg = case_config(class, k);
        if fcfg.is_some() {
            out.nondefault_config += 1;
        }
        out.longest_line = out.longest_line.max(p.source.lines().map(|l| l.len()).max().unwrap_or(0));
        match judge_with(&p.source, active, fcfg.as_ref()).0 {
            Verdict::Pass(indent) => {
                out.max_indent = out.max_indent.max(indent);
                if indent > 32 {
                    out.deeper_32 += 1;
                }
                if indent > 64 {
                    out.deeper_64 += 1;
                }
            }
            Verdict::Discard(why) => *out.noise.entry(why).or_insert(0) += 1,
            Verdict::Known(d) => *out.known_leaks.entry(d.key).or_insert(0) += 1,
            Verdict::Violation(f) => {
                out.violations += 1;
                if seen_sigs.insert(f.sig.clone()) {
                    out.found.push(Found { sig: f.sig.clone(), detail: describe(&f, &p.source), source: p.source.clone(), origin: format!("{} chunk {idx} case {k} (format config #{})", CLASS_NAMES[class as usize], if fcfg.is_some() { "non-default" } else { "default" }), gen: Some((class, seed, k)) });
                }
            }
        }
    }
    out
}

/// Judge a hand-written file: whole, and declaration by declaration when the whole file fails.
/// Returns (violations, keys of known findings that explain failing parts, passed, discarded reason).
struct FileOut {
    found: Vec<Found>,
    known: BTreeSet<&'static str>,
    passed: bool,
    discard: Option<String>,
    tags: BTreeSet<Tag>,
    decls_judged: u64,
}

fn judge_file(name: &str, text: &str, active: &[&'static KnownDef]) -> FileOut {
    let mut fo = FileOut { found: vec![], known: BTreeSet::new(), passed: false, discard: None, tags: BTreeSet::new(), decls_judged: 0 };
    let (v, tags) = judge(text, active);
    fo.tags = tags;
    let whole_failure = match v {
        Verdict::Discard(why) => {
            fo.discard = Some(why);
            return fo;
        }
        Verdict::Pass(_) => {
            fo.passed = true;
            // the same file under every non-default formatter configuration
            for i in 1..6 {
                let c = fmtoracle::config(i);
                match judge_with(text, active, c.as_ref()).0 {
                    Verdict::Violation(f) => {
                        fo.passed = false;
                        let sig = f.sig.clone();
                        fo.found.push(Found { sig, detail: describe(&f, text), source: text.to_string(), origin: format!("whole file {name} under format config {c:?}"), gen: None });
                        break;
                    }
                    Verdict::Known(d) => {
                        fo.known.insert(d.key);
                    }
                    _ => {}
                }
            }
            return fo;
        }
        Verdict::Known(d) => (Some(d), None),
        Verdict::Violation(f) => (None, Some(f)),
    };
    // declaration by declaration, so one known finding does not hide a different defect elsewhere in the file
    let prog = match gsyn::parse(text) {
        Ok(p) => p,
        Err(_) => return fo,
    };
    let mut any_part_failed = false;
    let mut slices_ok = true;
    for d in &prog.declarations {
        let (s, e) = (d.span.start.min(text.len()), d.span.end.min(text.len()));
        if s >= e || !text.is_char_boundary(s) || !text.is_char_boundary(e) {
            slices_ok = false;
            continue;
        }
        let part = format!("{}\n", text[s..e].trim_end());
        fo.decls_judged += 1;
        match judge(&part, active).0 {
            Verdict::Discard(_) => slices_ok = false,
            Verdict::Pass(_) => {}
            Verdict::Known(k) => {
                any_part_failed = true;
                fo.known.insert(k.key);
            }
            Verdict::Violation(f) => {
                any_part_failed = true;
                fo.found.push(Found { sig: f.sig.clone(), detail: describe(&f, &part), source: part, origin: format!("declaration of {name}"), gen: None });
            }
        }
    }
    if !any_part_failed || !slices_ok {
        // the failure needs the whole file (interaction between declarations, or a slice could not be judged alone)
        match whole_failure {
            (Some(d), _) => {
                fo.known.insert(d.key);
            }
            (_, Some(f)) => {
                if fo.found.is_empty() && (slices_ok || fo.known.is_empty()) {
                    fo.found.push(Found { sig: f.sig.clone(), detail: describe(&f, text), source: text.to_string(), origin: format!("whole file {name}"), gen: None });
                }
            }
            _ => {}
        }
    }
    fo
}

fn doc_blocks() -> Vec<(String, String)> {
    fn walk(dir: &std::path::Path, out: &mut Vec<std::path::PathBuf>) {
        let Ok(rd) = std::fs::read_dir(dir) else { return };
        let mut entries: Vec<_> = rd.flatten().map(|e| e.path()).collect();
        entries.sort();
        for p in entries {
            if p.is_dir() {
                walk(&p, out);
            } else if p.extension().is_some_and(|e| e == "md") {
                out.push(p);
            }
        }
    }
    let mut files = Vec::new();
    walk(&vcore::repo_root().join("workspaces/docs-site/docs"), &mut files);
    let mut blocks = Vec::new();
    for f in files {
        let Ok(text) = std::fs::read_to_string(&f) else { continue };
        let mut cur: Option<(String, usize)> = None;
        let mut n = 0;
        for line in text.lines() {
            let t = line.trim_start();
            match &mut cur {
                None => {
                    if t.starts_with("```incan") || t.starts_with("```incn") {
                        cur = Some((String::new(), line.len() - t.len()));
                    }
                }
                Some((buf, ind)) => {
                    if t.starts_with("```") {
                        n += 1;
                        blocks.push((format!("{}#{}", f.display(), n), std::mem::take(buf)));
                        cur = None;
                    } else {
                        let l = if line.len() >= *ind && line[..*ind].trim().is_empty() { &line[*ind..] } else { line };
                        buf.push_str(l);
                        buf.push('\n');
                    }
                }
            }
        }
    }
    blocks
}

/// Regenerate the chunk deterministically and shrink case `k` while it keeps failing with the same signature.
fn shrink_generated(class: u8, seed: u64, k: usize, sig: &str, cfg: &gsyn::GsynConfig, active: &[&'static KnownDef]) -> Option<(String, Failure)> {
    let strat = class_strategy(class, cfg);
    let fcfg = case_config(class, k);
    let mut runner = vcore::gen::runner(seed);
    let mut trees = vcore::gen::batch(&strat, &mut runner, k + 1);
    let tree = trees.last_mut()?;
    let small = vcore::gen::shrink(tree, 800, |t| {
        let q = gsyn::render(t);
        q.parsed && matches!(judge_with(&q.source, active, fcfg.as_ref()).0, Verdict::Violation(ref g) if g.sig == sig)
    });
    let q = gsyn::render(&small);
    match judge_with(&q.source, active, fcfg.as_ref()).0 {
        Verdict::Violation(g) if g.sig == sig => Some((q.source, g)),
        _ => None,
    }
}

fn report(out: &mut Outcome, ev: &mut Evidence, f: &Found, cfg: &gsyn::GsynConfig, active: &[&'static KnownDef]) {
    if out.seen(&f.sig) || out.violations.len() >= out.max_reports {
        ev.violations += 1;
        return;
    }
    if let Some((class, seed, k)) = f.gen {
        if let Some((source, g)) = shrink_generated(class, seed, k, &f.sig, cfg, active) {
            let note = match case_config(class, k) {
                Some(c) => format!("\nNOTE: failed under format_source_with_config({c:?}); --replay judges with the default configuration and all configurations of fmtoracle::config"),
                None => String::new(),
            };
            out.violation(ev, &f.sig, "incn", &source, &format!("origin: {} (shrunk){note}\n{}", f.origin, describe(&g, &source)));
            return;
        }
    }
    out.violation(ev, &f.sig, "incn", &f.source, &format!("origin: {}\n{}", f.origin, f.detail));
}

fn main() {
    let args = Args::parse("C08");
    util::install_quiet_panic_hook();
    let workers: usize = std::env::var("VERIF_WORKERS").ok().and_then(|s| s.parse().ok()).unwrap_or(8);
    let _ = rayon::ThreadPoolBuilder::new().num_threads(workers).stack_size(64 << 20).build_global();
    let mut out = Outcome::new("C08");
    let mut ev = Evidence::new(
        &args,
        "round trip parse -> format_source -> parse, canonical ASTs compared (spans erased; docstring trim, (A,B)=Tuple[A,B], ()=Unit=None \
         normalised). A case is non-trivial if its AST has >= 3 distinct node kinds (declaration/statement/expression/pattern/type/literal \
         kinds) besides a bare function; distinct = hash of the source text.",
    );
    ev.assume("comments and decorators on const/enum/newtype/import are dropped by the parser itself (not in the AST), so they are outside this oracle");
    ev.assume("f-string format specs are not part of the AST (the parser keeps only the leading expression)");
    ev.assume("module docstrings containing a carriage return are not generated (str::lines() layout is not pinned by the docs)");
    let active = fmtoracle::active(&out.known);
    let cfg = fmtoracle::gsyn_config(&active);
    let all: BTreeSet<Tag> = gsyn::all_tags().iter().copied().collect();

    // ---- replay
    if let Some(path) = &args.replay {
        let text = std::fs::read_to_string(path).unwrap_or_default();
        let fo = judge_file(&path.display().to_string(), &text, &active);
        ev.case(Some(util::hash_str(&text)));
        ev.sample(json!({"replay": util::truncate(&text, 600)}));
        if let Some(why) = &fo.discard {
            ev.discard("replay input does not parse");
            println!("note: replay input does not parse ({why}) — outside the property's domain");
        }
        for k in &fo.known {
            println!("note: explained by known finding {k}");
            ev.exclude(k);
        }
        for f in &fo.found {
            report(&mut out, &mut ev, f, &cfg, &active);
        }
        std::process::exit(out.finish(&ev));
    }

    // ---- debugging aid: print generated programs
    if let Some(n) = args.flag("dump").and_then(|s| s.parse::<usize>().ok()) {
        let strat = gsyn::program(&cfg);
        let mut runner = vcore::gen::runner(args.subseed(8));
        for t in vcore::gen::batch(&strat, &mut runner, n) {
            let p = t.current();
            if args.flag("only").is_some_and(|o| o == "noise") && p.parsed {
                continue;
            }
            if let Err((_, msg, pos)) = fmtoracle::parse_with_pos(&p.source) {
                let start = p.source[..pos.min(p.source.len())].rfind('\n').map(|i| i + 1).unwrap_or(0);
                let line = p.source[start..].lines().next().unwrap_or("");
                println!("##### NOISE {msg} @col {}: {line}", pos - start);
                if args.flag("only").is_some_and(|o| o == "noise") {
                    continue;
                }
            }
            println!("##### parsed={}\n{}", p.parsed, p.source);
        }
        return;
    }

    // ---- 1. canonical inputs of the known findings
    for e in out.known.open.clone() {
        let text = std::fs::read_to_string(&e.replay).unwrap_or_default();
        let still = match fmtoracle::roundtrip(&text) {
            RoundTrip::Fail { a1, failure } => {
                let tags = gsyn::ast_tags(&a1);
                fmtoracle::attribute(&failure, &tags, &active).is_some_and(|d| d.key == e.key)
            }
            _ => false,
        };
        out.known_replayed(&e.key, still);
        if fmtoracle::FMT_KNOWN.iter().all(|d| d.key != e.key) {
            out.inconclusive(&format!("known finding {} has no entry in fmtoracle::FMT_KNOWN", e.key));
        }
    }

    // ---- 2. generated programs
    let n_gen = args.flag("gen").and_then(|s| s.parse().ok()).unwrap_or(args.tier.pick(30_000usize, 600_000usize));
    let chunk = 250usize;
    let n_chunks = n_gen.div_ceil(chunk);
    // (class, chunk index within class, cases, seed): ordinary programs + a fixed share of size/depth stress cases
    let scale = args.tier.pick(1usize, 20usize);
    let mut plan: Vec<(u8, usize, usize, u64)> = (0..n_chunks).map(|i| (0u8, i, chunk, args.subseed(1000 + i as u64))).collect();
    if args.flag("no-stress").is_none() {
        for i in 0..5 * scale {
            plan.push((1, i, 200, args.subseed(500_000 + i as u64)));
        }
        for i in 0..3 * scale {
            plan.push((2, i, 200, args.subseed(600_000 + i as u64)));
        }
        for i in 0..2 * scale {
            plan.push((3, i, 30, args.subseed(700_000 + i as u64)));
        }
    }
    let results: Vec<ChunkOut> = plan.par_iter().map(|(class, i, n, s)| run_chunk(*class, *i, *n, *s, &cfg, &active, &all)).collect();
    let (mut deeper_32, mut deeper_64, mut max_indent, mut longest_line, mut nondefault) = (0u64, 0u64, 0usize, 0usize, 0u64);
    let mut tag_counts: BTreeMap<Tag, u64> = BTreeMap::new();
    let mut noise: BTreeMap<String, u64> = BTreeMap::new();
    let (mut generated, mut noise_n) = (0u64, 0u64);
    let mut unknown_tags: BTreeSet<Tag> = BTreeSet::new();
    for (r, (class, ..)) in results.iter().zip(plan.iter()) {
        ev.class_n(CLASS_NAMES[*class as usize], r.cases);
        deeper_32 += r.deeper_32;
        deeper_64 += r.deeper_64;
        max_indent = max_indent.max(r.max_indent);
        longest_line = longest_line.max(r.longest_line);
        nondefault += r.nondefault_config;
        generated += r.cases;
        for h in &r.nontrivial {
            ev.nontrivial(*h);
        }
        ev.cases(r.cases);
        for (t, c) in &r.tag_counts {
            *tag_counts.entry(t).or_insert(0) += c;
        }
        for (w, c) in &r.noise {
            *noise.entry(w.clone()).or_insert(0) += c;
            noise_n += c;
        }
        for (k, c) in &r.known_leaks {
            ev.exclude_n(k, *c);
        }
        for s in &r.samples {
            ev.sample(json!({"kind": "gsyn", "source": util::truncate(s, 700)}));
        }
        unknown_tags.extend(r.unknown_tags.iter().copied());
        ev.violations += r.violations.saturating_sub(r.found.len() as u64);
        let _ = r.normalisation_mattered;
        for f in &r.found {
            report(&mut out, &mut ev, f, &cfg, &active);
        }
    }
    ev.set(
        "size_and_depth",
        json!({"formatted_indent_deeper_than_32_columns": deeper_32, "formatted_indent_deeper_than_64_columns": deeper_64,
               "deepest_formatted_indent_columns": max_indent, "longest_input_line_bytes": longest_line,
               "cases_with_non_default_format_config": nondefault}),
    );
    for _ in 0..noise_n {
        ev.discard("generator noise: text does not parse");
    }
    for d in &active {
        // constructs avoided by construction
        ev.set(&format!("switched_off:{}", d.switch), json!(d.key));
    }
    let noise_fraction = if generated > 0 { noise_n as f64 / generated as f64 } else { 0.0 };
    let mut top_noise: Vec<(&String, &u64)> = noise.iter().collect();
    top_noise.sort_by(|a, b| b.1.cmp(a.1));
    ev.set(
        "generator_validity",
        json!({"generated": generated, "parsed": generated - noise_n, "noise": noise_n, "noise_fraction": noise_fraction,
               "top_noise_reasons": top_noise.iter().take(8).map(|(w, c)| json!({"why": w, "n": c})).collect::<Vec<_>>()}),
    );
    if !unknown_tags.is_empty() {
        out.inconclusive(&format!("G-syn emitted tags missing from all_tags(): {unknown_tags:?}"));
    }
    if generated > 0 && noise_fraction > 0.02 {
        out.inconclusive(&format!("generator noise {:.2}% exceeds 2%", noise_fraction * 100.0));
    }

    // ---- 3. repository seed files + docs code blocks
    let mut inputs: Vec<(String, String, &'static str)> = Vec::new();
    for p in util::repo_seed_files() {
        if let Ok(t) = std::fs::read_to_string(&p) {
            inputs.push((p.display().to_string(), t, "seed_files"));
        }
    }
    for (name, t) in doc_blocks() {
        inputs.push((name, t, "doc_blocks"));
    }
    // canonical inputs of every finding ever recorded for the formatter (open or fixed) stay in the corpus
    for dir in ["known/C08", "known/C09"] {
        let mut files: Vec<_> = std::fs::read_dir(vcore::verif_root().join(dir)).into_iter().flatten().flatten().map(|e| e.path()).collect();
        files.sort();
        for p in files {
            if let Ok(t) = std::fs::read_to_string(&p) {
                inputs.push((p.display().to_string(), t, "regression_inputs"));
            }
        }
    }
    let file_results: Vec<FileOut> = inputs.par_iter().map(|(n, t, _)| judge_file(n, t, &active)).collect();
    let mut seed_tags: BTreeMap<Tag, u64> = BTreeMap::new();
    let mut seed_stats: BTreeMap<String, u64> = BTreeMap::new();
    let mut known_only_files: Vec<String> = Vec::new();
    for ((name, text, class), fo) in inputs.iter().zip(file_results.iter()) {
        ev.class(class);
        if fo.discard.is_some() {
            ev.discard(if *class == "doc_blocks" { "doc block does not parse (snippet)" } else { "seed file does not parse" });
            continue;
        }
        for t in &fo.tags {
            *seed_tags.entry(t).or_insert(0) += 1;
        }
        ev.case(if kind_count(&fo.tags) >= 3 { Some(util::hash_str(text)) } else { None });
        ev.cases(fo.decls_judged);
        *seed_stats.entry(format!("{class}:parsed")).or_insert(0) += 1;
        if *class == "seed_files" && seed_stats[&format!("{class}:parsed")] <= 2 {
            ev.sample(json!({"kind": "seed_file", "file": name, "round_trip_ok": fo.passed, "bytes": text.len()}));
        }
        if fo.passed {
            *seed_stats.entry(format!("{class}:round_trip_ok")).or_insert(0) += 1;
        }
        if !fo.known.is_empty() && fo.found.is_empty() {
            *seed_stats.entry(format!("{class}:explained_by_known_findings_only")).or_insert(0) += 1;
            if *class == "seed_files" {
                known_only_files.push(format!("{} [{}]", name, fo.known.iter().copied().collect::<Vec<_>>().join(", ")));
            }
        }
        for k in &fo.known {
            ev.exclude(k);
        }
        for f in &fo.found {
            report(&mut out, &mut ev, f, &cfg, &active);
        }
    }
    ev.set("seed_stats", json!(seed_stats));
    ev.set("seed_files_failing_only_by_known_findings", json!(known_only_files));

    // ---- coverage tables
    let never: Vec<Tag> = gsyn::all_tags()
        .iter()
        .copied()
        .filter(|t| !tag_counts.contains_key(t) && !gsyn::UNREACHABLE_TAGS.contains(t))
        .filter(|t| !active.iter().any(|d| d.switch == *t || DEPENDENT.iter().any(|(sw, deps)| *sw == d.switch && deps.contains(t))))
        .collect();
    ev.set("tag_hits_generated", json!(tag_counts));
    ev.set("tag_hits_seeds", json!(seed_tags));
    ev.set("tags_never_generated", json!(never));
    ev.set("tags_unreachable_from_text", json!(gsyn::UNREACHABLE_TAGS));
    ev.set("tags_switched_off_by_known_findings", json!(active.iter().map(|d| d.switch).collect::<Vec<_>>()));
    std::process::exit(out.finish(&ev));
}
